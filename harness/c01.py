"""C01 - script functions mean the same eagerly, as an ONNX graph, and as plain Python.

spec/Script.tla derives programs of the ONNX Script subset, gives them their Python meaning (Exec),
transcribes analysis.py + the converter's scope/output-selection discipline (Trans/GExec) and checks
Faithful at design level.  Each derived program is rendered to source, decorated with the real
script(), run eagerly, as to_model_proto() on ORT and as a model calling to_function_proto(), and
compared with TLC's Exec values.
"""
from __future__ import annotations

import json
import random

import numpy as np

from . import convtrace, core, scriptgen

LEVEL = "model_checking"
INPUTS = [(-1, 0), (-1, 1), (-1, 2), (2, 0), (2, 1), (2, 2)]


def VARGS(prog):
    """the extra vector parameter v = [5, 7, 11] of programs that subscript it"""
    return [np.array([5, 7, 11], dtype=np.int64)] if scriptgen.uses(prog, "idx") else []


def _to_list(r):
    if isinstance(r, (tuple, list)):
        return [np.asarray(getattr(x, "value", x)) for x in r]
    return [np.asarray(getattr(r, "value", r))]


def run_program(arg):
    """arg=(idx, prog, ret, scheme, defined) -> dict(accepted, err, outs{mode: [per input: list|ERR|SKIP]})
    defined[k]: Python's meaning is defined on input k (the others may not terminate: not run)"""
    idx, prog, ret, scheme, defined = arg
    src = scriptgen.program_src(prog, ret, scheme % 10, closure=scheme >= 10)
    out = {"idx": idx, "src": src, "accepted": False, "err": None, "modes": {}}
    try:
        mod = scriptgen.load_source(src, "c01")
        f = mod.f
    except Exception as e:
        out["err"] = f"{type(e).__name__}: {str(e)[:200]}"
        return out
    out["accepted"] = True
    modes = {}
    # (1) eager
    res = []
    # eager mode costs ~20 ms per operator call: run it on two of the defined inputs (rotating), the
    # graph modes on all of them
    defk = [k for k in range(len(INPUTS)) if defined[k]]
    eager_k = set(defk[(idx + j) % len(defk)] for j in (0, 3)) if defk else set()
    for k, (a, n) in enumerate(INPUTS):
        if k not in eager_k:
            res.append("SKIP")
            continue
        try:
            r = f(np.array(a, dtype=np.int64), np.array(n, dtype=np.int64), *VARGS(prog))
            res.append([x.tolist() if x.dtype == np.int64 and x.shape == () else f"BAD dtype={x.dtype} shape={x.shape} val={x.tolist()}" for x in _to_list(r)])
        except Exception as e:
            res.append(f"ERR {type(e).__name__}: {str(e)[:100]}")
    modes["eager"] = res
    # (2) model proto on ORT, (3) a model calling the function proto
    for mode in ("model", "call"):
        if mode == "model" and scriptgen.uses(prog, "attr"):
            continue  # "A function with attributes cannot be exported as a model" (documented): not run
        res = []
        try:
            m = f.to_model_proto() if mode == "model" else scriptgen.call_model(f)
            sess = core.ort_session(m)
            names = [i.name for i in sess.get_inputs()]
        except Exception as e:
            modes[mode] = f"ERR {type(e).__name__}: {str(e)[:300]}"
            continue
        for k, (a, n) in enumerate(INPUTS):
            if not defined[k]:
                res.append("SKIP")
                continue
            try:
                feeds = dict(zip(names, [np.array(a, dtype=np.int64), np.array(n, dtype=np.int64)] + VARGS(prog)))
                r = sess.run(None, feeds)
                res.append([x.tolist() if x.dtype == np.int64 and x.shape == () else f"BAD dtype={x.dtype} shape={x.shape} val={x.tolist()}" for x in r])
            except Exception as e:
                res.append(f"ERR {type(e).__name__}: {str(e)[:100]}")
        modes[mode] = res
    out["modes"] = modes
    return out


_BASE = __import__("re").compile(r"_\d+$")


def _walk(graph, out):
    for node in graph:
        if node.op_type in ("If", "Loop"):
            out.append([node.op_type, sorted(_BASE.sub("", o.name) for o in node.outputs)])
            for name in (("then_branch", "else_branch") if node.op_type == "If" else ("body",)):
                a = node.attributes.get(name)
                if a is not None:
                    _walk(a.as_graph(), out)


def structure_of(arg):
    """cheap stage: decorate only; returns the If-output / Loop-state selections of the emitted graph in pre-order"""
    prog, ret = arg
    src = scriptgen.program_src(prog, ret, 0)
    try:
        mod = scriptgen.load_source(src, "c01s")
        out = []
        _walk(mod.f.function_ir.graph, out)
        return out
    except Exception as e:
        return f"REFUSED {type(e).__name__}: {str(e)[:120]}"


def structure_chunk(chunk):
    return [structure_of(a) for a in chunk]


def select(ctx, states, n_quick):
    rng = random.Random(ctx.seed)
    if not ctx.quick:
        n_quick = 12000          # thorough: the end-to-end stage is bounded too (every program goes through stage 1)
    # stratify: every case the implementation model marks as deviating (bounded), nested ones, then the rest
    dev = [s for s in states if s["info"]["why"]]
    acc = [s for s in states if not s["refused"] and not s["info"]["why"]]
    ref = [s for s in states if s["refused"]]
    nested = [s for s in acc if scriptgen.depth(s["prog"]) >= 2]
    flat = [s for s in acc if scriptgen.depth(s["prog"]) < 2]
    pasg = [s for s in acc if scriptgen.has_kind(s["prog"], "pasg")]      # parallel assignments: a bucket of their own
    lvar = [s for s in acc if any(st["k"] == "asg" and st["v"] == "i" for st in s["prog"][:3])]     # loop variables that live outside their loop
    for l in (dev, nested, flat, ref, pasg, lvar):
        rng.shuffle(l)
    # loops inside loops / ifs inside loops are where selection of carried variables is subtle: take more of them
    return (dev[:150] + pasg[:200 if ctx.quick else 2000] + lvar[:250 if ctx.quick else 3000]
            + nested[: (2 * n_quick) // 3] + flat[: n_quick // 3] + ref[:150])


def judge(ctx, s, r):
    """compare one program's real behaviour with the spec's Python meaning (the property) and model"""
    if r is core.HANG:
        ctx.report({"prog": s["prog"], "ret": s["ret"], "src": scriptgen.program_src(s["prog"], list(s["ret"]))},
                   "translating/running the program did not finish within 90 s on inputs where Python terminates")
        return
    if isinstance(r, core.MachineryErrorResult):
        raise core.MachineryError(r.msg)
    case = {"src": r["src"], "prog": s["prog"], "ret": s["ret"], "model_refused": s["refused"], "impl": r["modes"] or r["err"]}
    if not r["accepted"]:
        if not s["refused"]:
            ctx.add("model_impl_mismatches")
            print(f"SPEC-MISMATCH C01: model accepts but script() refuses: {r['err']}\n{r['src']}")
        return
    if s["refused"]:
        ctx.add("accepted_though_model_refuses")
    why = sorted(s["info"]["why"])
    uses_attr = scriptgen.uses(s["prog"], "attr")
    for mode, res in r["modes"].items():
        if mode == "model" and uses_attr:
            # "A function with attributes cannot be exported as a model" (documented): only eager and the
            # function-call model are judged for programs with an attribute parameter
            ctx.add("model_mode_skipped_attribute_param")
            continue
        if isinstance(res, str) and mode == "call" and not isinstance(r["modes"].get("model"), str):
            # onnxruntime cannot type-check some untyped function bodies (nested subgraphs reading outer
            # values) although the same graph loads as a model: not judged, counted
            ctx.add("call_mode_unloadable_not_judged")
            continue
        if isinstance(res, str):
            # the emitted proto cannot be loaded/run at all: for an accepted program that is not faithful
            ctx.report(dict(case, mode=mode), f"{mode}: accepted program yields an unusable proto: {res}\n{r['src']}",
                       finding=(why[0] if why else None))
            continue
        for k, (a, n) in enumerate(INPUTS):
            py = s["res"][k]["py"]
            if py[0] != "ok":
                continue  # Python itself is undefined (NameError) or diverges on this input
            exp = list(py[1])
            got = res[k]
            if got == "SKIP":
                continue
            if got != exp:
                fid = None
                gr = s["res"][k]["gr"]
                if why and mode != "eager" and gr[0] == "ok" and list(gr[1]) == got:
                    fid = why[0]
                ctx.report(dict(case, mode=mode, input={"a": a, "n": n}, expected=exp, got=got),
                           f"{mode}(a={a}, n={n}) = {got} but Python reading gives {exp}\n{r['src']}", finding=fid)
                break
            if mode != "eager":
                gr = s["res"][k]["gr"]
                if not s["refused"] and not (gr[0] == "ok" and list(gr[1]) == got):
                    ctx.add("model_impl_mismatches")


def run(ctx: core.Ctx):
    if ctx.quick:
        states = scriptgen.tlc_programs(ctx, ["Script_n3.cfg", "Script_loops4t.cfg", "Script_ops3.cfg", "Script_pasg.cfg", "Script_lvar.cfg", "Script_while.cfg"], "Script_sim.cfg", sim_num=8000, sim_depth=16)
    else:
        states = scriptgen.tlc_programs(ctx, ["Script_n3.cfg", "Script_loops4t.cfg", "Script_iffor4t.cfg", "Script_ops3.cfg", "Script_pasg.cfg", "Script_lvar.cfg", "Script_while7.cfg", "Script_n4.cfg"], "Script_sim.cfg", sim_num=30000, sim_depth=18)
    # witness configurations (each must be VIOLATED: the property can fail / a repaired defect is reachable in the bounded model)
    from concurrent.futures import ThreadPoolExecutor

    witnesses = [("Script_vacuity.cfg", "vacuity: no accepted program with an if inside a for loop is reachable"),
                 ("Script_pasg_old.cfg", "vacuity: the sequential translation of a parallel assignment (fixed defect) is not reachable in Script_pasg_old.cfg"),
                 ("Script_lvar_old.cfg", "vacuity: a for variable read after its loop (fixed defect) is not reachable in Script_lvar_old.cfg"),
                 ("Script_kw_old.cfg", "vacuity: a variable read only inside a keyword-argument expression (fixed defect) is not reachable in Script_kw_old.cfg"),
                 ("Script_while_old.cfg", "vacuity: a while loop whose trailing break ignores the loop condition (fixed defect) is not reachable in Script_while_old.cfg")]
    with ThreadPoolExecutor(max_workers=5) as ex:
        wres = list(ex.map(lambda w: core.run_tlc("Script", w[0], timeout=900, workers=3), witnesses))
    for (cfg, msg), r in zip(witnesses, wres):
        if r.ok:
            raise core.MachineryError(msg)
    ctx.set("spec_programs", len(states))
    # stage 1 (cheap, wide): the structure the real converter emits (which variables each If exports / each Loop
    # carries) against the selections Script.tla computes, for EVERY derived program the model accepts.
    # A disagreement is not a verdict - it makes the program a suspect that stage 2 runs end to end.
    cand = [s for s in states if not s["refused"]]
    chunks = [cand[i:i + 200] for i in range(0, len(cand), 200)]
    structs = [x for ch in core.pmap(structure_chunk, [[(s["prog"], list(s["ret"])) for s in ch] for ch in chunks], chunksize=1) for x in ch]
    suspects = []
    for s, real in zip(cand, structs):
        want = [[e["k"], sorted(e["vs"])] for e in s["info"]["sel"]]
        if real != want:
            suspects.append(s)
            ctx.add("structure_disagreements")
            if len(suspects) <= 5:
                print(f"SPEC-MISMATCH C01 structure: model {want} impl {real}\n{scriptgen.program_src(s['prog'], list(s['ret']))}")
    ctx.set("structure_checked", len(cand))
    ctx.add("structure_disagreements", 0)
    chosen = suspects[:400 if ctx.quick else 4000] + select(ctx, states, 1100)
    # i % 4 == 3: user names that look like generated ones; i % 4 == 1: defined inside a factory (closure constant)
    args = [(i, s["prog"], list(s["ret"]), (i % len(scriptgen.NAME_SCHEMES)) if i % 4 == 3 else (10 if i % 4 == 1 else 0),
             [r["py"][0] == "ok" for r in s["res"]]) for i, s in enumerate(chosen)]
    # direction B: traces recorded by the hooks in converter.py (the repository's own programs and tests, and the
    # derived programs) validated by TLC against Converter.tla; this check owns the selection / ordering clauses
    # hand-written programs outside the grammar (keyword expressions, nested functions, multi-output ops, ...): eager vs
    # onnxruntime here, their traces (selections judged by the spec from the statement tree) together with the others
    _, xtraces = convtrace.run_extra(ctx)
    convtrace.stage(ctx, [scriptgen.program_src(s["prog"], list(s["ret"])) for s in chosen[:1500 if ctx.quick else 6000]], "C01", extra_traces=xtraces)
    results = core.pmap_safe(run_program, args, timeout=90)
    nontriv = 0
    for s, r in zip(chosen, results):
        ctx.add("evaluations")
        ctx.add("traces_validated_against_impl")
        if isinstance(r, dict) and r["accepted"] and (scriptgen.has_kind(s["prog"], "if") or scriptgen.has_kind(s["prog"], "for") or scriptgen.has_kind(s["prog"], "while")):
            nontriv += 1
        judge(ctx, s, r)
        if isinstance(r, dict) and r["accepted"]:
            ctx.sample({"src": r["src"], "eager": r["modes"].get("eager"), "model": r["modes"].get("model")}, limit=4)
    ctx.set("distinct_nontrivial", nontriv)
    ctx.set("exhaustive", not ctx.quick)
    ctx.set("rule", "programs = reachable 'done' states of Script.tla (exhaustive up to MaxNodes statements, plus -simulate derivations with the rich "
                    "expression menu); each distinct (program, returned variables); non-trivial = accepted by script() and containing if/for/while; "
                    "each run on 6 inputs in 3 modes (eager, to_model_proto on ORT, model calling to_function_proto)")
    ctx.assumptions += ["onnxruntime executes If/Loop as ONNX specifies", "values are INT64 scalars; a in {-1,2}, n in {0,1,2}",
                        "while loops needing more than 4 iterations are treated as divergent for that input (not judged)"]


def replay(ctx, path):
    with open(path) as f:
        case = json.load(f)["case"]
    r = run_program((0, case["prog"], case["ret"], 0, [True] * 6))
    print(r["src"])
    print(json.dumps(r["modes"], indent=1))
    print("expected", case.get("expected"), "input", case.get("input"))
    return 0
