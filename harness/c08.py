"""C08 - torch_lib operator implementations agree with PyTorch.

spec/AtenOps.tla enumerates (registered overload, argument tuple in the operator's domain) cases per
family and computes, with TLC, the ATen result (structure, element type, shape and - for the
integer-exact families - values) and what the transcribed torch_lib lowering computes on the ONNX
operator semantics of Tensor.tla (implementation model with named deviations).  The registry the
spec quantifies over is the real one (get_torchlib_ops() + op_signature type constraints, dumped
to JSON and read by TLC).  Every case is replayed
  (i)  into torch.ops.<ns>.<op>.<overload> eager, and
  (ii) into the registered onnxscript function, traced exactly as torch.onnx's exporter does
       (onnxscript.evaluator.default_as(_building.OpRecorder)), and run on onnxruntime.
VIOLATION: (ii) differs from (i) in structure / element type / shape / values (tolerance by dtype
for float kernels).  SPEC-MISMATCH: TLC's ATen result differs from (i) or TLC's implementation
model differs from (ii).

spec/AtenModule.tla: random small modules (sequences of operator applications on a tensor
environment, `tlc -simulate`), whose results TLC also computes; each is built as a torch.nn.Module,
exported with torch.onnx.export(dynamo=True) using THIS repository's functions
(custom_translation_table) and compared with the module's eager outputs.
"""
from __future__ import annotations

import json
import os
import random
import warnings

from . import core

LEVEL = "model_checking"

DT2NP = {"bool": "bool", "u8": "uint8", "i32": "int32", "i64": "int64", "f16": "float16", "f32": "float32", "f64": "float64"}
NP2DT = {v: k for k, v in DT2NP.items()}
TOL = {"f16": (1e-2, 1e-2), "f32": (1e-4, 1e-5), "f64": (1e-7, 1e-9)}

_STATE: dict = {}


# ------------------------------------------------------------------ the real registry
def _registry():
    """qualified name -> the function the exporter would get (first non-complex overload)"""
    if "reg" not in _STATE:
        with warnings.catch_warnings():
            warnings.simplefilter("ignore")
            from onnxscript._framework_apis import torch_2_5

            reg = {}
            for m in torch_2_5.get_torchlib_ops():
                if not m.is_complex:
                    reg.setdefault(m.qualified_name, m.function)
        _STATE["reg"] = reg
    return _STATE["reg"]


def _ir_dt_names():
    import onnx_ir as ir

    return {ir.DataType.BOOL: "bool", ir.DataType.UINT8: "u8", ir.DataType.INT32: "i32", ir.DataType.INT64: "i64",
            ir.DataType.FLOAT16: "f16", ir.DataType.FLOAT: "f32", ir.DataType.DOUBLE: "f64"}


def dump_registry(path: str) -> dict:
    """{op: {"allowed": [[dtype names admitted by parameter i] ...], "traced": bool}} for TLC"""
    import onnx_ir as ir

    names = _ir_dt_names()
    out = {}
    for q, fn in _registry().items():
        allowed = []
        try:
            params = fn.op_signature.params
        except Exception:  # noqa: BLE001
            params = []
        for p in params:
            tc = getattr(p, "type_constraint", None)
            if tc is None:
                allowed.append(["*"])
                continue
            dts = set()
            anyseq = False
            for t in tc.allowed_types:
                et = t
                while isinstance(et, (ir.SequenceType, ir.OptionalType)):
                    et = et.elem_type
                    anyseq = True
                if isinstance(et, ir.TensorType) and et.dtype in names:
                    dts.add(names[et.dtype])
            allowed.append(sorted(dts) if dts else ["*"])
        out[q] = {"allowed": allowed, "traced": type(fn).__name__ == "TracedOnnxFunction"}
    core.write_tlc_json(path, out)
    return out


# ------------------------------------------------------------------ one call: torch eager and traced-onnx-on-ORT
def _np(arg):
    import numpy as np

    a = np.array(arg["data"], dtype=np.int64).astype(DT2NP[arg["s"]])
    return a.reshape(arg["shape"])


def _split_args(case_args):
    """-> (positional, keyword) lists of raw arg records; a 'tl' record swallows its tensors"""
    pos, kw = [], {}
    i = 0
    while i < len(case_args):
        x = case_args[i]
        if x["k"] == "tl":
            v = {"k": "tlist", "items": case_args[i + 1 : i + 1 + x["v"]], "nm": x["nm"]}
            i += 1 + x["v"]
        else:
            v = x
            i += 1
        if v["nm"]:
            kw[v["nm"]] = v
        else:
            pos.append(v)
    return pos, kw


def _torch_dtype(name):
    import torch

    return {"bool": torch.bool, "u8": torch.uint8, "i32": torch.int32, "i64": torch.int64,
            "f16": torch.float16, "f32": torch.float32, "f64": torch.float64}[name]


def _torch_arg(x):
    import torch

    k = x["k"]
    if k == "t":
        return torch.from_numpy(_np(x).copy())
    if k == "tlist":
        return [_torch_arg(y) for y in x["items"]]
    if k == "i":
        return int(x["v"])
    if k == "f":
        return float(x["v"])
    if k == "b":
        return bool(x["v"])
    if k == "il":
        return [int(v) for v in x["data"]]
    if k == "n":
        return None
    if k == "s":
        return x["s"]
    if k == "dt":
        return _torch_dtype(x["s"])
    raise core.MachineryError(f"unknown argument kind {k}")


def _torch_target(qname):
    import torch

    ns, rest = qname.split("::", 1)
    name, *ov = rest.split(".", 1)
    return getattr(getattr(getattr(torch.ops, ns), name), ov[0] if ov else "default")


def _enc_np(a):
    import numpy as np

    a = np.asarray(a)
    dt = NP2DT.get(a.dtype.name, a.dtype.name)
    flat = a.reshape(-1)
    if a.dtype.kind == "f":
        data = [float(v) for v in flat]
    else:
        data = [int(v) for v in flat]
    return {"dt": dt, "shape": [int(d) for d in a.shape], "data": data}


def _enc_torch_out(out):
    import torch

    if isinstance(out, torch.Tensor):
        return {"st": "one", "ts": [_enc_np(out.detach().cpu().numpy())]}
    if isinstance(out, (tuple, list)):
        return {"st": "many", "ts": [_enc_np(o.detach().cpu().numpy()) for o in out]}
    return {"st": "one", "ts": [_enc_np(torch.tensor(out).numpy())]}     # python scalar


def run_torch(case):
    import torch

    pos, kw = _split_args(case["args"])
    try:
        with torch.no_grad(), warnings.catch_warnings():
            warnings.simplefilter("ignore")
            out = _torch_target(case["op"])(*[_torch_arg(x) for x in pos], **{k: _torch_arg(v) for k, v in kw.items()})
        return _enc_torch_out(out)
    except Exception as e:  # noqa: BLE001
        return {"err": "torch", "msg": f"{type(e).__name__}: {str(e)[:300]}"}


def _ir_dtype(name):
    import onnx_ir as ir

    return {"bool": ir.DataType.BOOL, "u8": ir.DataType.UINT8, "i32": ir.DataType.INT32, "i64": ir.DataType.INT64,
            "f16": ir.DataType.FLOAT16, "f32": ir.DataType.FLOAT, "f64": ir.DataType.DOUBLE}[name]


OPSET = 18


def trace_model(qname, pos, kw, fn=None):
    """Trace the registered function the way torch.onnx's exporter does
    (_core._handle_call_function_node_with_lowering): SymbolicTensor inputs with static shape and
    dtype, python values as they are, dtype=None keyword -> -1, OpRecorder as default evaluator.
    -> (ModelProto, feeds, 'one' | 'many')"""
    import onnx_ir as ir
    import onnxscript
    from torch.onnx._internal.exporter import _building, _tensors

    fn = fn or _registry()[qname]
    graph = ir.Graph((), (), nodes=(), name="main_graph",
                     opset_imports={"": OPSET, "pkg.torch.onnx": 1, "pkg.onnxscript.torch_lib.common": 1, "pkg.onnxscript.torch_lib": 1})
    opset = onnxscript.values.Opset("", OPSET)
    tracer = _building.OpRecorder(opset, {})
    feeds = {}

    def conv(x, name):
        k = x["k"]
        if k == "t":
            a = _np(x)
            v = _tensors.SymbolicTensor(opset=opset, name=name, shape=ir.Shape(a.shape), type=ir.TensorType(_ir_dtype(x["s"])))
            graph.inputs.append(v)
            feeds[name] = a
            return v
        if k == "tlist":
            return [conv(y, f"{name}_{j}") for j, y in enumerate(x["items"])]
        if k == "dt":
            return int(_ir_dtype(x["s"]))
        return _torch_arg(x)

    oargs = [conv(x, f"in{i}") for i, x in enumerate(pos)]
    okw = {}
    for key, x in kw.items():
        okw[key] = conv(x, key)
        if key == "dtype" and okw[key] is None:
            okw[key] = -1
    with onnxscript.evaluator.default_as(tracer), warnings.catch_warnings():
        warnings.simplefilter("ignore")
        outs = fn(*oargs, **okw)
    st = "one"
    if isinstance(outs, (list, tuple)):
        st = "many"
        outs = list(outs)
    else:
        outs = [outs]
    for o in outs:
        if not isinstance(o, ir.Value):
            raise TypeError(f"the function returned {type(o).__name__}, not a graph value")
    graph.outputs.extend(outs)
    graph.extend(tracer.nodes)
    model = ir.Model(graph, ir_version=10, producer_name="verif-c08")
    for ident, f in tracer.functions.items():
        if ident in model.functions:
            continue
        if not isinstance(f, ir.Function):
            f = ir.serde.deserialize_function(f.to_function_proto())
        model.functions[ident] = f
    return ir.to_proto(model), feeds, st


_UNSUPPORTED = ("NOT_IMPLEMENTED", "Could not find an implementation", "is not a registered function/op")


def run_onnx(case):
    import onnxruntime as ort

    ort.set_default_logger_severity(4)
    pos, kw = _split_args(case["args"])
    try:
        proto, feeds, st = trace_model(case["op"], pos, kw)
    except NotImplementedError as e:
        return {"err": "declined", "msg": f"NotImplementedError: {str(e)[:200]}"}
    except Exception as e:  # noqa: BLE001
        return {"err": "trace", "msg": f"{type(e).__name__}: {str(e)[:300]}"}
    try:
        sess = core.ort_session(proto)
    except Exception as e:  # noqa: BLE001
        msg = str(e)
        kind = "unsupported" if any(u in msg for u in _UNSUPPORTED) else "load"
        return {"err": kind, "msg": f"{type(e).__name__}: {msg[:300]}"}
    try:
        outs = sess.run(None, feeds)
    except Exception as e:  # noqa: BLE001
        msg = str(e)
        kind = "unsupported" if any(u in msg for u in _UNSUPPORTED) else "run"
        return {"err": kind, "msg": f"{type(e).__name__}: {msg[:300]}"}
    ts = []
    for o in outs:
        if isinstance(o, list):          # a sequence output
            st = "many"
            ts += [_enc_np(x) for x in o]
        else:
            ts.append(_enc_np(o))
    return {"st": st, "ts": ts}


def run_case(case):
    import torch

    torch.set_num_threads(1)
    return {"torch": run_torch(case), "onnx": run_onnx(case)}


# ------------------------------------------------------------------ comparison
def _close(dt, a, b):
    import numpy as np

    if dt in TOL:
        rtol, atol = TOL[dt]
        return bool(np.allclose(np.array(a, dtype=np.float64), np.array(b, dtype=np.float64), rtol=rtol, atol=atol, equal_nan=True))
    return a == b


def diff_results(ref, got, exact=False):
    """None when `got` agrees with `ref`, else a short description of the first difference"""
    if ref["st"] != got["st"]:
        return f"output structure: {ref['st']} ({len(ref['ts'])} tensor(s)) vs {got['st']} ({len(got['ts'])} tensor(s))"
    if len(ref["ts"]) != len(got["ts"]):
        return f"number of outputs: {len(ref['ts'])} vs {len(got['ts'])}"
    for i, (r, g) in enumerate(zip(ref["ts"], got["ts"])):
        if r["dt"] != g["dt"]:
            return f"output {i}: element type {r['dt']} vs {g['dt']}"
        if list(r["shape"]) != list(g["shape"]):
            return f"output {i}: shape {list(r['shape'])} vs {list(g['shape'])}"
        if exact:
            import numpy as np

            if not np.array_equal(np.array(r["data"], dtype=np.float64), np.array(g["data"], dtype=np.float64), equal_nan=True):
                return f"output {i}: values {r['data'][:12]} vs {g['data'][:12]}"
        elif not _close(r["dt"], r["data"], g["data"]):
            return f"output {i}: values {r['data'][:12]} vs {g['data'][:12]}"
    return None


def spec_result(rec):
    """TLC's result record -> the encoding used for torch/onnx results (None for a refusal)"""
    if rec["st"] == "err":
        return None
    st = "one" if rec["st"] == "one" else "many"
    return {"st": st, "ts": [{"dt": t["dt"], "shape": list(t["shape"]), "data": list(t["data"])} for t in rec["ts"]], "vals": rec["vals"]}


def diff_spec(spec, got):
    """spec vs an observed result: structure, dtype, shape always; values only when the spec defines them"""
    if spec["vals"]:
        return diff_results(spec, got, exact=True)
    g2 = {"st": got["st"], "ts": [{**t, "data": []} for t in got["ts"]]}
    s2 = {"st": spec["st"], "ts": [{**t, "data": []} for t in spec["ts"]]}
    return diff_results(s2, g2, exact=True)
