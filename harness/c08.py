"""C08 - torch_lib operator implementations agree with PyTorch.

spec/AtenOps.tla (operator level)
  * the registry the spec quantifies over is the real one: get_torchlib_ops() + the declared type
    constraints of every function (op_signature) are dumped to JSON and read by TLC (IOEnv.C08_REG);
  * per family (elementwise binary incl. alpha / rounding_mode / comparison / bitwise, unary, where /
    masked_fill / clamp, reductions, view family, cat..tile + constant_pad_nd, creation ops, matmul
    family, float kernels) TLC enumerates (registered overload, argument tuple in the operator's
    domain) and computes Aten(op, args): the ATen result - structure, element type, shape and, for the
    integer-exact families, the values - and Low(op, args, Deviations): the transcribed torch_lib
    lowering on the ONNX operator semantics of Tensor.tla with *named deviations*; INVARIANTs
    AtenWellFormed, DesignOK (repaired lowering = ATen), DeviationsExplain;
  * every case is replayed (i) into torch.ops.<ns>.<op>.<overload> eager and (ii) into the registered
    onnxscript function, traced exactly as torch.onnx's exporter does
    (onnxscript.evaluator.default_as(_building.OpRecorder), opset 18) and run on onnxruntime.
    VIOLATION: (ii) is refused (trace error, model rejected at load, run-time failure) or differs from
    (i) in structure / element type / shape / values.  onnx.reference.ReferenceEvaluator arbitrates
    run-time refusals and shape/value differences (a kernel bug of onnxruntime is not a finding).
    SPEC-MISMATCH: TLC's ATen result differs from (i), or TLC's implementation model from (ii).

spec/AtenModule.tla (end to end)
  random small modules = sequences of operator applications on a tensor environment with PyTorch's
  type promotion (`tlc -simulate`), all intermediate values computed by TLC; design invariant
  PipelineOK checked exhaustively on short modules.  Each module is built as a torch.nn.Module,
  exported with torch.onnx.export(dynamo=True, custom_translation_table = this repository's
  functions) and the exported model compared with the module's eager outputs on onnxruntime.
"""
from __future__ import annotations

import json
import os
import random
import warnings

from . import core

LEVEL = "model_checking"

DT2NP = {"bool": "bool", "u8": "uint8", "i32": "int32", "i64": "int64", "f16": "float16", "f32": "float32", "f64": "float64"}
NP2DT = {v: k for k, v in DT2NP.items()}
TOL = {"f16": (2e-2, 2e-2), "f32": (1e-3, 1e-4), "f64": (1e-6, 1e-8)}

_STATE: dict = {}


# ------------------------------------------------------------------ the real registry
def _registry():
    """qualified name -> the function the exporter would get (first non-complex overload)"""
    if "reg" not in _STATE:
        with warnings.catch_warnings():
            warnings.simplefilter("ignore")
            from onnxscript._framework_apis import torch_2_5

            reg = {}
            for m in torch_2_5.get_torchlib_ops():
                if not m.is_complex:
                    reg.setdefault(m.qualified_name, m.function)
        _STATE["reg"] = reg
    return _STATE["reg"]


def _ir_dt_names():
    import onnx_ir as ir

    return {ir.DataType.BOOL: "bool", ir.DataType.UINT8: "u8", ir.DataType.INT32: "i32", ir.DataType.INT64: "i64",
            ir.DataType.FLOAT16: "f16", ir.DataType.FLOAT: "f32", ir.DataType.DOUBLE: "f64"}


def dump_registry(path: str) -> dict:
    """{op: {"allowed": [[dtype names admitted by parameter i] ...], "traced": bool}} for TLC"""
    import onnx_ir as ir

    names = _ir_dt_names()
    out = {}
    for q, fn in _registry().items():
        allowed = []
        try:
            params = fn.op_signature.params
        except Exception:  # noqa: BLE001
            params = []
        for p in params:
            tc = getattr(p, "type_constraint", None)
            if tc is None:
                allowed.append(["*"])
                continue
            dts = set()
            anyseq = False
            for t in tc.allowed_types:
                et = t
                while isinstance(et, (ir.SequenceType, ir.OptionalType)):
                    et = et.elem_type
                    anyseq = True
                if isinstance(et, ir.TensorType) and et.dtype in names:
                    dts.add(names[et.dtype])
            allowed.append(sorted(dts) if dts else ["*"])
        out[q] = {"allowed": allowed, "traced": type(fn).__name__ == "TracedOnnxFunction"}
    core.write_tlc_json(path, out)
    return out


# ------------------------------------------------------------------ one call: torch eager and traced-onnx-on-ORT
def _np(arg):
    import numpy as np

    a = np.array(arg["data"], dtype=np.int64).astype(DT2NP[arg["s"]])
    return a.reshape(arg["shape"])


def _split_args(case_args):
    """-> (positional, keyword) lists of raw arg records; a 'tl' record swallows its tensors"""
    pos, kw = [], {}
    i = 0
    while i < len(case_args):
        x = case_args[i]
        if x["k"] == "tl":
            v = {"k": "tlist", "items": case_args[i + 1 : i + 1 + x["v"]], "nm": x["nm"]}
            i += 1 + x["v"]
        else:
            v = x
            i += 1
        if v["nm"]:
            kw[v["nm"]] = v
        else:
            pos.append(v)
    return pos, kw


def _torch_dtype(name):
    import torch

    return {"bool": torch.bool, "u8": torch.uint8, "i32": torch.int32, "i64": torch.int64,
            "f16": torch.float16, "f32": torch.float32, "f64": torch.float64}[name]


def _torch_arg(x):
    import torch

    k = x["k"]
    if k == "t":
        return torch.from_numpy(_np(x).copy())
    if k == "tlist":
        return [_torch_arg(y) for y in x["items"]]
    if k == "i":
        return int(x["v"])
    if k == "f":
        return float(x["v"])
    if k == "fx":
        return float(f"{x['v']}e{x['data'][0]}")
    if k == "b":
        return bool(x["v"])
    if k == "il":
        return [int(v) for v in x["data"]]
    if k == "n":
        return None
    if k == "s":
        return x["s"]
    if k == "dt":
        return _torch_dtype(x["s"])
    raise core.MachineryError(f"unknown argument kind {k}")


def _torch_target(qname):
    import torch

    ns, rest = qname.split("::", 1)
    name, *ov = rest.split(".", 1)
    return getattr(getattr(getattr(torch.ops, ns), name), ov[0] if ov else "default")


def _enc_np(a):
    import numpy as np

    a = np.asarray(a)
    dt = NP2DT.get(a.dtype.name, a.dtype.name)
    flat = a.reshape(-1)
    if a.dtype.kind == "f":
        data = [float(v) for v in flat]
    else:
        data = [int(v) for v in flat]
    return {"dt": dt, "shape": [int(d) for d in a.shape], "data": data}


def _enc_torch_out(out):
    import torch

    if isinstance(out, torch.Tensor):
        return {"st": "one", "ts": [_enc_np(out.detach().cpu().numpy())]}
    if isinstance(out, (tuple, list)):
        return {"st": "many", "ts": [_enc_np(o.detach().cpu().numpy()) for o in out]}
    return {"st": "one", "ts": [_enc_np(torch.tensor(out).numpy())]}     # python scalar


def run_torch(case):
    import torch

    pos, kw = _split_args(case["args"])
    try:
        with torch.no_grad(), warnings.catch_warnings():
            warnings.simplefilter("ignore")
            out = _torch_target(case["op"])(*[_torch_arg(x) for x in pos], **{k: _torch_arg(v) for k, v in kw.items()})
        return _enc_torch_out(out)
    except Exception as e:  # noqa: BLE001
        return {"err": "torch", "msg": f"{type(e).__name__}: {str(e)[:300]}"}


def _ir_dtype(name):
    import onnx_ir as ir

    return {"bool": ir.DataType.BOOL, "u8": ir.DataType.UINT8, "i32": ir.DataType.INT32, "i64": ir.DataType.INT64,
            "f16": ir.DataType.FLOAT16, "f32": ir.DataType.FLOAT, "f64": ir.DataType.DOUBLE}[name]


OPSET = 18


class ArgumentsMutated(Exception):
    pass


def trace_model(qname, pos, kw, fn=None):
    """Trace the registered function the way torch.onnx's exporter does
    (_core._handle_call_function_node_with_lowering): SymbolicTensor inputs with static shape and
    dtype, python values as they are, dtype=None keyword -> -1, OpRecorder as default evaluator.
    -> (ModelProto, feeds, 'one' | 'many')"""
    import onnx_ir as ir
    import onnxscript
    from torch.onnx._internal.exporter import _building, _tensors

    fn = fn or _registry()[qname]
    graph = ir.Graph((), (), nodes=(), name="main_graph",
                     opset_imports={"": OPSET, "pkg.torch.onnx": 1, "pkg.onnxscript.torch_lib.common": 1, "pkg.onnxscript.torch_lib": 1})
    opset = onnxscript.values.Opset("", OPSET)
    tracer = _building.OpRecorder(opset, {})
    feeds = {}

    def conv(x, name):
        k = x["k"]
        if k == "t":
            a = _np(x)
            v = _tensors.SymbolicTensor(opset=opset, name=name, shape=ir.Shape(a.shape), type=ir.TensorType(_ir_dtype(x["s"])))
            graph.inputs.append(v)
            feeds[name] = a
            return v
        if k == "tlist":
            return [conv(y, f"{name}_{j}") for j, y in enumerate(x["items"])]
        if k == "dt":
            return int(_ir_dtype(x["s"]))
        return _torch_arg(x)

    oargs = [conv(x, f"in{i}") for i, x in enumerate(pos)]
    okw = {}
    for key, x in kw.items():
        okw[key] = conv(x, key)
        if key == "dtype" and okw[key] is None:
            okw[key] = -1
    # the call's own Python-valued arguments (ints, lists of ints, ...) as they are before the call: an ATen call does not
    # change its argument lists, and an exporter may pass the same list object again (session 6, seeded C08-m10)
    def plain(v):
        return repr(v) if isinstance(v, (int, float, bool, str, type(None))) or (isinstance(v, (list, tuple)) and all(
            isinstance(e, (int, float, bool)) for e in v)) else None

    before = [plain(v) for v in oargs] + [plain(okw[k]) for k in sorted(okw)]
    with onnxscript.evaluator.default_as(tracer), warnings.catch_warnings():
        warnings.simplefilter("ignore")
        outs = fn(*oargs, **okw)
    after = [plain(v) for v in oargs] + [plain(okw[k]) for k in sorted(okw)]
    if before != after:
        raise ArgumentsMutated(f"tracing {qname} changed its own arguments: {before} -> {after}")
    st = "one"
    if isinstance(outs, (list, tuple)):
        st = "many"
        outs = list(outs)
    else:
        outs = [outs]
    for o in outs:
        if not isinstance(o, ir.Value):
            raise TypeError(f"the function returned {type(o).__name__}, not a graph value")
    graph.outputs.extend(outs)
    graph.extend(tracer.nodes)
    model = ir.Model(graph, ir_version=10, producer_name="verif-c08")
    for ident, f in tracer.functions.items():
        if ident in model.functions:
            continue
        if not isinstance(f, ir.Function):
            f = ir.serde.deserialize_function(f.to_function_proto())
        model.functions[ident] = f
    return ir.to_proto(model), feeds, st


_UNSUPPORTED = ("NOT_IMPLEMENTED", "Could not find an implementation", "is not a registered function/op")


def _enc_outs(outs, st):
    ts = []
    for o in outs:
        if isinstance(o, list):          # a sequence output
            st = "many"
            ts += [_enc_np(x) for x in o]
        else:
            ts.append(_enc_np(o))
    return {"st": st, "ts": ts}


def run_onnx(case):
    """-> (result | error record, (proto, feeds, st) | None)"""
    import onnxruntime as ort

    ort.set_default_logger_severity(4)
    pos, kw = _split_args(case["args"])
    try:
        proto, feeds, st = trace_model(case["op"], pos, kw)
    except NotImplementedError as e:
        return {"err": "declined", "msg": f"NotImplementedError: {str(e)[:200]}"}, None
    except Exception as e:  # noqa: BLE001
        return {"err": "trace", "msg": f"{type(e).__name__}: {str(e)[:300]}"}, None
    traced = (proto, feeds, st)
    try:
        sess = core.ort_session(proto)
    except Exception as e:  # noqa: BLE001
        msg = str(e)
        kind = "unsupported" if any(u in msg for u in _UNSUPPORTED) else "load"
        return {"err": kind, "msg": f"{type(e).__name__}: {msg[:300]}"}, traced
    try:
        outs = sess.run(None, feeds)
    except Exception as e:  # noqa: BLE001
        msg = str(e)
        kind = "unsupported" if any(u in msg for u in _UNSUPPORTED) else "run"
        return {"err": kind, "msg": f"{type(e).__name__}: {msg[:300]}"}, traced
    return _enc_outs(outs, st), traced


def run_reference(traced):
    """the same model on onnx.reference.ReferenceEvaluator: used only to tell a defect of the
    graph from a defect of onnxruntime when the two runtimes disagree"""
    import onnx.reference

    proto, feeds, st = traced
    try:
        with warnings.catch_warnings():
            warnings.simplefilter("ignore")
            outs = onnx.reference.ReferenceEvaluator(proto).run(None, feeds)
        return _enc_outs(outs, st)
    except Exception as e:  # noqa: BLE001
        return {"err": "ref", "msg": f"{type(e).__name__}: {str(e)[:200]}"}


def run_case(case):
    import torch

    torch.set_num_threads(1)
    t = run_torch(case)
    o, traced = run_onnx(case)
    out = {"torch": t, "onnx": o}
    if traced is not None and "err" not in t and o.get("err") != "unsupported" and ("err" in o or diff_results(t, o, case=case)):
        out["ref"] = run_reference(traced)
    return out


# ------------------------------------------------------------------ comparison
def _close(dt, a, b):
    import numpy as np

    if dt in TOL:
        rtol, atol = TOL[dt]
        return bool(np.allclose(np.array(a, dtype=np.float64), np.array(b, dtype=np.float64), rtol=rtol, atol=atol, equal_nan=True))
    return a == b


_PREC = {"f16": 0, "f32": 1, "f64": 2}


def tol_dtype(case, out_dt):
    """the element type whose tolerance applies: the coarsest of the output type and the float input types
    (a kernel asked to return float64 from float16 data is not held to float64 accuracy)"""
    dts = [out_dt] + [x["s"] for x in case["args"] if x["k"] == "t" and x["s"] in _PREC]
    dts = [d for d in dts if d in _PREC]
    return min(dts, key=_PREC.get) if dts else out_dt


def diff_results(ref, got, exact=False, case=None):
    """None when `got` agrees with `ref`, else a short description of the first difference"""
    if ref["st"] != got["st"]:
        return f"output structure: {ref['st']} ({len(ref['ts'])} tensor(s)) vs {got['st']} ({len(got['ts'])} tensor(s))"
    if len(ref["ts"]) != len(got["ts"]):
        return f"number of outputs: {len(ref['ts'])} vs {len(got['ts'])}"
    for i, (r, g) in enumerate(zip(ref["ts"], got["ts"])):
        if r["dt"] != g["dt"]:
            return f"output {i}: element type {r['dt']} vs {g['dt']}"
        if list(r["shape"]) != list(g["shape"]):
            return f"output {i}: shape {list(r['shape'])} vs {list(g['shape'])}"
        if exact:
            import numpy as np

            if not np.array_equal(np.array(r["data"], dtype=np.float64), np.array(g["data"], dtype=np.float64), equal_nan=True):
                return f"output {i}: values {r['data'][:12]} vs {g['data'][:12]}"
        elif not _close(tol_dtype(case, r["dt"]) if case is not None else r["dt"], r["data"], g["data"]):
            return f"output {i}: values {r['data'][:12]} vs {g['data'][:12]}"
    return None


def spec_result(rec):
    """TLC's result record -> the encoding used for torch/onnx results (None for a refusal)"""
    if rec["st"] == "err":
        return None
    if rec["st"] == "undef":
        return {"st": "undef", "ts": [], "vals": False}
    st = rec["st"] if rec["st"] in ("one", "first") else "many"
    return {"st": st, "ts": [{"dt": t["dt"], "shape": list(t["shape"]), "data": list(t["data"])} for t in rec["ts"]], "vals": rec["vals"]}


def diff_spec(spec, got):
    """spec vs an observed result: structure, dtype, shape always; values only when the spec defines them"""
    if spec["vals"]:
        return diff_results(spec, got, exact=True)
    g2 = {"st": got["st"], "ts": [{**t, "data": []} for t in got["ts"]]}
    s2 = {"st": spec["st"], "ts": [{**t, "data": []} for t in spec["ts"]]}
    return diff_results(s2, g2, exact=True)


# ------------------------------------------------------------------ TLC side
FAMILIES = ("binary", "unary", "select", "reduce", "view", "index", "create", "matmul", "nn")


QUICK_GROUPS = ("a", "b", "c", "d", "e")      # G_a .. G_e of AtenOps.tla: families grouped so that a quick run starts few JVMs


def _tlc_family(arg):
    fam, tier, reg_path, workers = arg
    if fam.endswith(".cfg"):        # a vacuity / can-fail configuration
        return fam, core.run_tlc("AtenOps", fam, env={"C08_REG": reg_path}, timeout=600, workers=2, heap="2g"), []
    cfg = f"AtenOps_{'q' if tier == 'quick' else 't'}_{fam}.cfg"
    res = core.run_tlc("AtenOps", cfg, env={"C08_REG": reg_path}, timeout=2400, workers=workers, heap="4g")
    cases = []
    for line in res.out.splitlines():
        if line.startswith('"C08CASE '):
            cases.append(json.loads(json.loads(line)[len("C08CASE "):]))
    res.out = "\n".join(l for l in res.out.splitlines() if not l.startswith('"C08CASE '))[-4000:]
    return fam, res, cases


def tlc_cases(ctx, reg_path):
    """one TLC run per family (group), run concurrently; design-level invariants must hold"""
    from concurrent.futures import ThreadPoolExecutor

    runs = list(QUICK_GROUPS if ctx.quick else FAMILIES)
    extra = ["AtenOps_canfail.cfg"] + ([] if ctx.quick else ["AtenOps_vacuity.cfg"])
    workers = 3 if ctx.quick else max(2, core.NCPU // 4)
    with ThreadPoolExecutor(max_workers=len(runs) + len(extra)) as ex:
        outs = list(ex.map(_tlc_family, [(f, ctx.tier, reg_path, workers) for f in runs + extra]))
    allcases = []
    for fam, res, cases in outs:
        ctx.tlc(res, f"AtenOps/{fam}")
        if fam.endswith(".cfg"):
            if res.ok:
                what = ("the implementation model never departs from ATen: DesignOK cannot fail" if "canfail" in fam else "no case is reachable")
                raise core.MachineryError(f"vacuity: {what} ({fam})")
            continue
        if not res.ok:
            raise core.MachineryError(f"TLC reports {res.violated} on AtenOps family {fam}:\n{res.out[-2000:]}")
        allcases += cases
    fams = {}
    for c in allcases:
        fams[c["op"]] = fams.get(c["op"], 0) + 1
    if len(allcases) < 1000 or len(fams) < 100:
        raise core.MachineryError(f"vacuity: AtenOps produced only {len(allcases)} cases over {len(fams)} operators (registry not read?)")
    return allcases


# ------------------------------------------------------------------ judging one case
def _first_only(res, n):
    return {"st": "one" if n == 1 else res["st"], "ts": res["ts"][:n]}


def observe(case, r):
    """-> (kind, detail): kind in ok | wrong | refused | discarded | torch_refused | hang"""
    if not isinstance(r, dict):
        return "hang", repr(r)
    t, o = r["torch"], r["onnx"]
    if "err" in t:
        return "torch_refused", t["msg"]
    ref = r.get("ref")
    ref_ok = ref is not None and "err" not in ref
    first = case["exp"]["st"] == "first"
    if "err" in o:
        if o["err"] in ("unsupported", "declined"):
            return "discarded", o["err"] + ": " + o["msg"]
        if o["err"] == "run" and ref_ok and not diff_results(t if not first else _first_only(t, 1), ref if not first else _first_only(ref, 1), case=case):
            return "discarded", "onnxruntime refuses a model the reference evaluator runs to PyTorch's result: " + o["msg"]
        return "refused", o["err"] + ": " + o["msg"]
    if first:
        t, o = _first_only(t, 1), _first_only(o, 1)
        ref = _first_only(ref, 1) if ref_ok else ref
    d = diff_results(t, o, case=case)
    if d is None:
        return "ok", ""
    if ("shape" in d or "values" in d) and ref_ok and not diff_results(t, ref, case=case):
        return "discarded", "onnxruntime and the reference evaluator disagree on the same graph (the latter agrees with PyTorch): " + d
    return "wrong", d


def brief(case):
    parts = []
    for x in case["args"]:
        k = x["k"]
        nm = (x["nm"] + "=") if x["nm"] else ""
        if k == "t":
            parts.append(f"{nm}{x['s']}{list(x['shape'])}{list(x['data'])[:8]}")
        elif k in ("i", "f", "b"):
            parts.append(f"{nm}{ {'i': int, 'f': float, 'b': bool}[k](x['v'])!r}")
        elif k == "fx":
            parts.append(f"{nm}{x['v']}e{x['data'][0]}")
        elif k == "il":
            parts.append(f"{nm}{list(x['data'])}")
        elif k == "n":
            parts.append(f"{nm}None")
        elif k == "tl":
            parts.append(f"{nm}[{x['v']} tensors:")
        else:
            parts.append(f"{nm}{x['s']}")
    return f"{case['op']}({', '.join(parts)})"


def judge(ctx, case, r, stats, groups):
    kind, detail = observe(case, r)
    stats[kind] = stats.get(kind, 0) + 1
    spec = spec_result(case["exp"])
    model = spec_result(case["impl"])
    why = sorted(case["why"])
    mism = None
    if kind == "hang":
        mism = f"the replay worker did not finish: {detail}"
    elif kind == "torch_refused":
        mism = f"domain: PyTorch refuses a call the spec places in the operator's domain: {detail}"
    else:
        t = r["torch"]
        if spec["st"] == "first":
            spec = {**spec, "st": "one"}
            t = _first_only(t, 1)
            if model is not None:
                model = {**model, "st": "one"}
        d = diff_spec(spec, t)
        if d:
            mism = f"aten: TLC's ATen result differs from torch eager: {d}"
    if mism:
        stats["spec_mismatch"] = stats.get("spec_mismatch", 0) + 1
        if stats["spec_mismatch"] <= 15:
            print(f"SPEC-MISMATCH C08 {brief(case)}: {mism}", flush=True)
        return
    # implementation model vs the real function
    m2 = None
    if model is not None and model["st"] == "undef":
        pass        # the emitted graph is outside the ONNX specification: every outcome is consistent with the model
    elif kind == "ok":
        if model is None or diff_spec({**model, "vals": model["vals"] and spec["vals"]}, r["torch"] if case["exp"]["st"] != "first" else _first_only(r["torch"], 1)):
            m2 = f"the model predicts a departure ({why or 'no deviation'}) but the real function agrees with PyTorch"
    elif kind == "refused":
        ref = r.get("ref")
        if model is not None and not (ref is not None and "err" not in ref and not diff_spec(model, ref if case["exp"]["st"] != "first" else _first_only(ref, 1))):
            m2 = f"the model predicts a result but the real function is refused ({detail[:160]})"
    elif kind == "wrong":
        o = r["onnx"] if case["exp"]["st"] != "first" else _first_only(r["onnx"], 1)
        if model is None:
            m2 = f"the model predicts a refusal but the real function runs ({detail[:160]})"
        else:
            dm = diff_spec(model, o)
            ref = r.get("ref")
            if dm and ref is not None and "err" not in ref and not diff_spec(model, ref if case["exp"]["st"] != "first" else _first_only(ref, 1)):
                dm = None      # a kernel of onnxruntime, not the graph, departs from the model (the reference evaluator follows it)
            if dm:
                m2 = f"the model's result differs from what the real function computes: {dm}"
    if m2:
        stats["model_mismatch"] = stats.get("model_mismatch", 0) + 1
        stats.setdefault("mismatch_ops", {})
        stats["mismatch_ops"][case["op"]] = stats["mismatch_ops"].get(case["op"], 0) + 1
        if stats["model_mismatch"] <= 15:
            print(f"SPEC-MISMATCH C08 {brief(case)}: impl: {m2}", flush=True)
    # the property
    if kind in ("wrong", "refused"):
        finding = why[0] if (why and not m2) else None
        key = (finding, case["op"], kind)
        groups.setdefault(key, []).append((case, r, detail))


def report_groups(ctx, groups, per_group=2):
    for (finding, op, kind), items in sorted(groups.items(), key=lambda kv: (str(kv[0][0]), kv[0][1], kv[0][2])):
        ctx.coverage.setdefault("property_failures", []).append({"finding": finding, "op": op, "kind": kind, "cases": len(items), "example": brief(items[0][0])})
        for case, r, detail in items[:per_group]:
            what = (f"{brief(case)}: traced ONNX graph on onnxruntime "
                    + (f"is refused ({detail[:200]})" if kind == "refused" else f"differs from torch eager - {detail}")
                    + f" [{len(items)} such case(s) for this operator" + (f", deviation {finding}]" if finding else "]"))
            ctx.report({"op": case["op"], "args": case["args"], "exp": case["exp"], "impl": case["impl"], "why": case["why"],
                        "torch": r["torch"], "onnx": r["onnx"], "ref": r.get("ref")}, what, finding=finding)


def nontrivial(case) -> bool:
    """the call exercises more than an identity: some argument besides `self`, or a non-trivial shape"""
    ts = [x for x in case["args"] if x["k"] == "t"]
    return len(case["args"]) > 1 or any(len(x["shape"]) >= 1 for x in ts)


def select_cases(ctx, cases):
    """quick: every case that the implementation model marks as deviating is kept up to a cap per
    (deviation, op); the rest is sampled per operator"""
    if not ctx.quick:
        return cases
    rng = random.Random(ctx.seed)
    byop: dict = {}
    for c in cases:
        byop.setdefault(c["op"], []).append(c)
    out = []
    for op in sorted(byop):
        lst = byop[op]
        rng.shuffle(lst)
        dev = [c for c in lst if c["why"]]
        rest = [c for c in lst if not c["why"]]
        seen: dict = {}
        for c in dev:
            k = tuple(sorted(c["why"]))
            if seen.get(k, 0) < 6:
                seen[k] = seen.get(k, 0) + 1
                out.append(c)
        out += rest[:QUICK_PER_OP]
    return out


QUICK_PER_OP = int(os.environ.get("VERIF_C08_PER_OP", "150"))


def run(ctx: core.Ctx):
    import torch

    torch.set_num_threads(1)
    reg_path = os.path.join(core.scratch(), "c08_registry.json")
    reg = dump_registry(reg_path)
    ctx.set("registry_entries", len(reg))
    import threading

    box: dict = {}

    def _mods():
        try:
            box["mods"] = tlc_modules(ctx, reg_path, 12 if ctx.quick else 160)
        except BaseException as e:  # noqa: BLE001
            box["err"] = e

    th = threading.Thread(target=_mods)
    th.start()
    try:
        cases = tlc_cases(ctx, reg_path)
    finally:
        th.join()
    if "err" in box:
        raise box["err"]
    mods = box["mods"]
    ctx.set("spec_cases", len(cases))
    ctx.set("operators_in_spec", len({c["op"] for c in cases}))
    chosen = select_cases(ctx, cases)
    translation_table()
    allres = core.pmap_safe(run_item, [("module", m) for m in mods] + [("case", c) for c in chosen], timeout=300)
    judge_modules(ctx, mods, allres[: len(mods)])
    results = allres[len(mods):]
    stats: dict = {}
    groups: dict = {}
    nontriv = set()
    for c, r in zip(chosen, results):
        ctx.add("evaluations")
        if nontrivial(c):
            nontriv.add(json.dumps([c["op"], c["args"]], sort_keys=True))
        judge(ctx, c, r, stats, groups)
    for c, r in list(zip(chosen, results))[:: max(1, len(chosen) // 4)][:4]:
        ctx.sample({"call": brief(c), "spec": c["exp"], "torch": r.get("torch") if isinstance(r, dict) else repr(r),
                    "onnx": r.get("onnx") if isinstance(r, dict) else None})
    report_groups(ctx, groups)
    ctx.set("outcomes", stats)
    ctx.set("distinct_nontrivial", len(nontriv))
    ctx.set("traces_validated_against_impl", ctx.coverage.get("evaluations", 0))
    ctx.set("model_impl_mismatches", stats.get("model_mismatch", 0) + stats.get("spec_mismatch", 0))
    ctx.set("exhaustive", not ctx.quick)
    ctx.set("rule", "cases = 'done' states of AtenOps.tla (registered overload x argument tuple of the family menu inside the "
                    "operator's domain); non-trivial = the call has an argument besides self or a tensor of rank >= 1; distinct by (op, args)")
    ctx.assumptions += [
        "operator level: tensor operands of one call share an element type admitted by the function's declared type constraints, and python scalars are of a category not above the tensors' (the exporter's type-promotion pass establishes this before lowering); mixed types are exercised end to end only",
        "onnxruntime (optimizations disabled) is the runtime; a run-time refusal or a shape/value difference is only judged when onnx.reference.ReferenceEvaluator does not reproduce PyTorch's result on the same graph (otherwise the runtime, not the graph, is at fault); load-time rejections and element-type/structure differences are always judged",
        "NotImplementedError raised by a torch_lib function and NOT_IMPLEMENTED kernels of onnxruntime are counted, not judged",
        "values are small integers (also in float tensors): float kernels (softmax, norms, pooling, conv, mean, true division, transcendental unary) are specified in structure/dtype/shape only and compared torch-vs-onnx with rtol/atol f16 2e-2, f32 1e-3/1e-4, f64 1e-6/1e-8",
        "save_mean/save_invstd of _native_batch_norm_legit_no_training and mean/rstd of native_layer_norm on float16 are device dependent in PyTorch and not constrained",
    ]


def replay(ctx, path):
    import torch

    torch.set_num_threads(1)
    with open(path) as f:
        case = json.load(f)["case"]
    if "prog" in case:
        r = run_module({"env": case["env"], "prog": case["prog"]})
        bad = "err" in r.get("onnx", {}) or ("err" not in r["torch"] and diff_results(r["torch"], r["onnx"]) is not None)
        print(json.dumps({"module": case["module"], "torch": r.get("torch"), "onnx": r.get("onnx"), "reference": r.get("ref")}, indent=1, default=str))
        return 1 if bad else 0
    r = run_case(case)
    kind, detail = observe(case, r)
    print(json.dumps({"call": brief(case), "spec": case["exp"], "model": case["impl"], "deviations": case["why"],
                      "torch": r["torch"], "onnx": r["onnx"], "reference": r.get("ref"), "verdict": kind, "detail": detail}, indent=1, default=str))
    return 1 if kind in ("wrong", "refused") else 0


# ------------------------------------------------------------------ end to end: modules through torch.onnx.export(dynamo=True)
def translation_table():
    """every ATen/prims overload of the installed PyTorch -> the function THIS repository registers for it
    (torch 2.14 ships its own copy of torchlib and would otherwise dispatch to that)"""
    if "table" not in _STATE:
        import torch

        table = {}
        for q, fn in _registry().items():
            if not q.startswith(("aten::", "prims::")):
                continue
            try:
                tgt = _torch_target(q)
            except AttributeError:
                continue
            if isinstance(tgt, torch._ops.OpOverload):
                table[tgt] = fn
        _STATE["table"] = table
    return _STATE["table"]


def _mod_value(x, env):
    if x["k"] == "ref":
        return env[x["v"] - 1]
    if x["k"] == "tlist":
        return [_mod_value(y, env) for y in x["items"]]
    return _torch_arg(x)


def build_module(mod):
    import torch

    steps = []
    for st in mod["prog"]:
        pos, kw = _split_args(st["args"])
        steps.append((_torch_target(st["op"]), pos, kw))

    class M(torch.nn.Module):
        def forward(self, x0, x1):
            env = [x0, x1]
            for tgt, pos, kw in steps:
                env.append(tgt(*[_mod_value(x, env) for x in pos], **{k: _mod_value(v, env) for k, v in kw.items()}))
            return tuple(env[2:])

    def tens(t):
        return torch.from_numpy(_np({"s": t["dt"], "shape": t["shape"], "data": t["data"]}).copy())

    return M().eval(), (tens(mod["env"][0]), tens(mod["env"][1]))


def module_text(mod):
    lines = [f"x0: {mod['env'][0]['dt']}{list(mod['env'][0]['shape'])}, x1: {mod['env'][1]['dt']}{list(mod['env'][1]['shape'])}"]
    for k, st in enumerate(mod["prog"]):
        parts = []
        for x in st["args"]:
            nm = (x["nm"] + "=") if x["nm"] else ""
            if x["k"] == "ref":
                parts.append(f"{nm}x{x['v'] - 1}")
            elif x["k"] == "tl":
                parts.append("[")
            elif x["k"] in ("i", "f", "b"):
                parts.append(f"{nm}{ {'i': int, 'f': float, 'b': bool}[x['k']](x['v'])!r}")
            elif x["k"] == "il":
                parts.append(f"{nm}{list(x['data'])}")
            elif x["k"] == "n":
                parts.append(f"{nm}None")
            else:
                parts.append(f"{nm}{x['s']}")
        lines.append(f"x{k + 2} = {st['op']}({', '.join(parts)})")
    return "; ".join(lines)


def run_module(mod):
    import logging

    import numpy as np
    import torch

    torch.set_num_threads(1)
    logging.disable(logging.CRITICAL)
    out = {}
    try:
        m, inputs = build_module(mod)
        with torch.no_grad():
            eager = m(*inputs)
        out["torch"] = {"st": "many", "ts": [_enc_np(o.detach().cpu().numpy()) for o in eager]}
    except Exception as e:  # noqa: BLE001
        out["torch"] = {"err": "torch", "msg": f"{type(e).__name__}: {str(e)[:300]}"}
        return out
    try:
        with warnings.catch_warnings():
            warnings.simplefilter("ignore")
            import contextlib
            import io

            with contextlib.redirect_stdout(io.StringIO()), contextlib.redirect_stderr(io.StringIO()):
                prog = torch.onnx.export(m, inputs, dynamo=True, custom_translation_table=translation_table(),
                                         opset_version=OPSET, verbose=False)
        proto = prog.model_proto
    except Exception as e:  # noqa: BLE001
        chain = []
        ex = e
        while ex is not None and len(chain) < 6:
            chain.append(f"{type(ex).__name__}: {str(ex)[:160]}")
            ex = ex.__cause__ or ex.__context__
        names = " ".join(chain)
        kind = "dispatch" if "DispatchError" in names and "No ONNX function found" in names else "capture" if "TorchExportError" in names and "ConversionError" not in names and "GraphConstructionError" not in names and "DispatchError" not in names else "export"
        out["onnx"] = {"err": kind, "msg": " <- ".join(chain)[:700]}
        return out
    feeds = {}
    for gi, t in zip(proto.graph.input, inputs):
        feeds[gi.name] = t.numpy()
    try:
        sess = core.ort_session(proto)
        res = sess.run(None, feeds)
        out["onnx"] = {"st": "many", "ts": [_enc_np(o) for o in res]}
    except Exception as e:  # noqa: BLE001
        msg = str(e)
        out["onnx"] = {"err": "unsupported" if any(u in msg for u in _UNSUPPORTED) else "ort", "msg": f"{type(e).__name__}: {msg[:300]}"}
    if "err" in out["onnx"] or diff_results(out["torch"], out["onnx"]):
        out["ref"] = run_reference((proto, feeds, "many"))
    return out


def tlc_modules(ctx, reg_path, n):
    env = {"C08_REG": reg_path}
    design = "AtenModule_design_quick.cfg" if ctx.quick else "AtenModule_design.cfg"
    res = core.run_tlc("AtenModule", design, env=env, timeout=2400, workers=2 if ctx.quick else max(2, core.NCPU // 2), heap="4g")
    ctx.tlc(res, design)
    if not res.ok:
        raise core.MachineryError(f"TLC reports {res.violated} on {design}:\n" + "\n".join(l for l in res.out.splitlines() if not l.startswith('"C08'))[-2000:])
    if not ctx.quick:
        vac = core.run_tlc("AtenModule", "AtenModule_vacuity.cfg", env=env, timeout=600, workers=2, heap="2g")
        ctx.tlc(vac, "AtenModule_vacuity.cfg")
        if vac.ok:
            raise core.MachineryError("vacuity: no module step with operands of different element types is reachable in AtenModule.tla")
    w = 4
    simcfg = "AtenModule_sim.cfg" if ctx.quick else "AtenModule_sim_thorough.cfg"
    sim = core.run_tlc("AtenModule", simcfg, env=env, simulate=f"num={max(1, (n + w - 1) // w)}", depth=80,
                       seed=ctx.seed + 1, workers=w, timeout=2400, heap="4g")
    ctx.tlc(sim, simcfg + " (simulate)")
    if not sim.ok:
        raise core.MachineryError(f"TLC reports {sim.violated} in simulation of AtenModule:\n" + "\n".join(l for l in sim.out.splitlines() if not l.startswith('"C08'))[-2000:])
    mods, seen = [], set()
    for line in sim.out.splitlines():
        if line.startswith('"C08MOD '):
            txt = json.loads(line)[len("C08MOD "):]
            if txt not in seen:
                seen.add(txt)
                mods.append(json.loads(txt))
    if not mods:
        raise core.MachineryError("vacuity: the simulation of AtenModule.tla produced no finished module")
    mods.sort(key=lambda m: json.dumps(m, sort_keys=True))

    def mixed(m):      # vacuity witness read off TLC's output: a binary step over two different element types
        for st in m["prog"]:
            refs = [x["v"] for x in st["args"] if x["k"] == "ref"]
            if st["op"] in ("aten::add.Tensor", "aten::sub.Tensor", "aten::mul.Tensor", "aten::maximum", "aten::minimum", "aten::floor_divide",
                            "aten::eq.Tensor", "aten::lt.Tensor", "aten::ge.Tensor", "aten::ne.Tensor") and len(refs) == 2 \
                    and m["env"][refs[0] - 1]["dt"] != m["env"][refs[1] - 1]["dt"]:
                return True
        return False

    if not ctx.quick and not any(mixed(m) for m in mods):
        raise core.MachineryError("vacuity: no simulated module has a step over operands of different element types")
    return mods[:n]


def judge_modules(ctx, mods, results):
    stats: dict = {}
    for mod, r in zip(mods, results):
        ctx.add("evaluations")
        ctx.add("modules")
        text = module_text(mod)
        known = sorted(mod.get("known", []))
        if not isinstance(r, dict):
            stats["hang"] = stats.get("hang", 0) + 1
            print(f"SPEC-MISMATCH C08 module [{text}]: the export worker did not finish: {r!r}", flush=True)
            continue
        t = r["torch"]
        spec = {"st": "many", "vals": True, "ts": [{"dt": e["dt"], "shape": list(e["shape"]), "data": list(e["data"])} for e in mod["env"][2:]]}
        if "err" in t:
            stats["spec_mismatch"] = stats.get("spec_mismatch", 0) + 1
            print(f"SPEC-MISMATCH C08 module [{text}]: PyTorch refuses a module of the spec: {t['msg']}", flush=True)
            continue
        d = diff_spec(spec, t)
        if d:
            stats["spec_mismatch"] = stats.get("spec_mismatch", 0) + 1
            print(f"SPEC-MISMATCH C08 module [{text}]: TLC's values differ from torch eager: {d}", flush=True)
            continue
        o = r["onnx"]
        ref = r.get("ref")
        ref_ok = ref is not None and "err" not in ref
        case = {"module": text, "env": mod["env"], "prog": mod["prog"], "known": known, "torch": t, "onnx": o, "ref": ref}
        verdict, what = "ok", ""
        if "err" in o:
            if o["err"] in ("capture", "unsupported", "dispatch"):
                # torch.export could not capture the module / a kernel is missing in onnxruntime / the exporter's own passes
                # produced an overload that is not in the registry (e.g. aten.mul.Scalar): outside the quantifier
                verdict = "discarded"
                if o["err"] == "dispatch":
                    import re as _re

                    mm = _re.search(r"No ONNX function found for <OpOverload\(op='([^']+)', overload='([^']+)'\)", o["msg"])
                    key = f"{mm.group(1)}.{mm.group(2)}" if mm else "?"
                    stats.setdefault("unregistered_overloads_met", {})
                    stats["unregistered_overloads_met"][key] = stats["unregistered_overloads_met"].get(key, 0) + 1
            elif o["err"] == "ort" and "Non-zero status code returned while running" in o["msg"] and ref_ok and not diff_results(t, ref):
                verdict = "discarded"
            else:
                verdict = "refused"
                what = f"module [{text}]: torch.onnx.export(dynamo=True) with this repository's functions fails or yields a model onnxruntime rejects: {o['msg'][:300]}"
        else:
            d = diff_results(t, o)
            if d and ("shape" in d or "values" in d) and ref_ok and not diff_results(t, ref):
                verdict = "discarded"
            elif d:
                verdict = "wrong"
                what = f"module [{text}]: the exported model differs from the module - {d}"
        stats[verdict] = stats.get(verdict, 0) + 1
        if verdict in ("refused", "wrong"):
            ctx.report(case, what, finding=known[0] if known else None)
        elif verdict == "ok" and known:
            stats["model_mismatch"] = stats.get("model_mismatch", 0) + 1
            print(f"SPEC-MISMATCH C08 module [{text}]: impl: the model expects the export to fail ({known}) but it agrees with the module", flush=True)
    ctx.set("module_outcomes", stats)
    if mods:
        ctx.sample({"module": module_text(mods[0])})
    return stats


def run_item(item):
    kind, x = item
    return run_module(x) if kind == "module" else run_case(x)
