"""C09 - shape-based simplifications hold for every runtime binding of symbolic dims.

spec/SymShape.tla derives models whose inputs carry literal / named / unnamed dims and whose bodies
mix shape computations with data ops, runs ONE pass of the constant folder on them (one TLA+ action
per partial evaluator of onnxscript/optimizer/_constant_folding.py, with node-level ONNX shape
inference, _merge_shapes, _same_shape, get_shape_value transcribed), and evaluates original and
folded graph under EVERY binding of the free dims to {0,1,2,3,7}.  TLC checks the design-level
property (DesignSound) and prints one JSON line per model with the implementation model's
predictions: symbolic_value_map, static shapes, per-node decision, per-binding acceptance/outputs
and the bindings at which a named deviation makes the folded model depart.

This harness replays every printed model into the real code (direction A):
  * fold_constants(model, onnx_shape_inference=True) once -> the REAL symbolic_value_map, value
    shapes and per-node decisions are compared with the spec's (SPEC-MISMATCH only);
  * onnxscript.optimizer.optimize(model) ONCE -> original and optimized model are run on ONNX
    Runtime (optimizations off) at every binding; the PROPERTY is judged on these two real
    observables only: wherever the original accepts the input the optimized model must accept it
    and return identical outputs (VIOLATION otherwise; a departure the spec predicts through a named
    deviation is reported under that deviation id);
  * the original's real outputs are compared with the spec's Eval (SPEC-MISMATCH only);
  * models whose outputs include a data Reshape/Expand/Slice/Concat are optimized a second time in their
    "annotated" form (graph outputs declared with the int / named dims they really have at every judged
    binding, as exporters write them) so that the shape-driven rewrite rules of optimize()
    (MaterializeReshapeShape, collapse_slice2, ...) act on known output shapes; judged the same way.
Bindings at which ORT rejects the original, or at which ONNX leaves the original's meaning open (spec: UNSPEC),
are discarded.  TLC jobs run in forked helper processes; a finished job's models are replayed while others run.
"""
from __future__ import annotations

import itertools
import json
import os
import random
import re
import zlib

import numpy as np

from . import core

LEVEL = "model_checking"
UNK = 1000
BIG = 1000000
INT64_MAX = 2**63 - 1
SYMS = {1001: "N", 1002: "M", 1003: "K"}
NONE = 99


# ------------------------------------------------------------------ names
def vname(case, i):
    ni = len(case["ins"])
    return f"x{i}" if i <= ni else f"v{i - ni}"


def term_str(t):
    return SYMS[t] if t in SYMS else str(t)


def dim_of_terms(d):
    """spec dim (sequence of terms) -> what ir shows: int | symbol string | None"""
    if len(d) == 1 and d[0] < UNK:
        return d[0]
    if d == [UNK]:
        return None
    return "+".join(term_str(t) for t in d)


def decl_dim(c):
    if c < UNK:
        return c
    if c in SYMS:
        return SYMS[c]
    return None  # 2001..: unnamed


# ------------------------------------------------------------------ gamma: TLC case -> ModelProto
def build_model(case, variant=0, drop_abs=False):
    """variant 0: constants are initializers; 1: Constant nodes (value tensor); 2: Constant nodes (value_ints)
    drop_abs: every Abs becomes Identity (what the deviation abs_assumes_nonneg does; used to attribute a departure)"""
    from onnx import TensorProto as T
    from onnx import helper as h

    ni = len(case["ins"])
    inputs = [h.make_tensor_value_info(f"x{i + 1}", T.FLOAT, [decl_dim(c) for c in sh]) for i, sh in enumerate(case["ins"])]
    nodes, inits = [], []

    def const(name, vals, scalar=False):
        vals = [INT64_MAX if x == BIG else -INT64_MAX - 1 if x == -BIG else x for x in vals]
        if variant == 0:
            inits.append(h.make_tensor(name, T.INT64, [] if scalar else [len(vals)], vals))
        elif variant == 1 or scalar:
            nodes.append(h.make_node("Constant", [], [name], name="n_" + name,
                                     value=h.make_tensor(name, T.INT64, [] if scalar else [len(vals)], vals)))
        else:
            nodes.append(h.make_node("Constant", [], [name], name="n_" + name, value_ints=vals))
        return name

    for k, n in enumerate(case["nodes"], start=1):
        op, p = n["op"], n["p"]
        out = f"v{k}"
        names = []
        for j, o in enumerate(n["a"], start=1):
            if o["t"] == "r":
                names.append(vname(case, o["i"]))
            else:
                names.append(const(f"c{k}_{j}", o["v"], scalar=(op == "Gather" and p[0] == 1)))
        attrs = {}
        if op == "Shape":
            attrs["start"] = p[0]
            if p[1] != NONE:
                attrs["end"] = p[1]
        elif op == "Gather":
            if p[1] == 1:
                attrs["axis"] = 0
        elif op == "Cast":
            attrs["to"] = p[0]
        elif op == "Concat":
            attrs["axis"] = p[0]
        elif op == "Reshape":
            if p[0] == 1:
                attrs["allowzero"] = 1
        elif op == "Slice":
            names += [const(f"c{k}_s", [p[1]]), const(f"c{k}_e", [p[2]]), const(f"c{k}_a", [p[0]]), const(f"c{k}_k", [p[3]])]
        nodes.append(h.make_node("Identity" if drop_abs and op == "Abs" else op, names, [out], name=f"n{k}", **attrs))
    outs = []
    for i in case["outs"]:
        m = case["meta"][i - 1]
        outs.append(h.make_tensor_value_info(vname(case, i), {"f": T.FLOAT, "i": T.INT64, "j": T.INT32}[m["k"]], [None] * m["rank"]))
    g = h.make_graph(nodes, "c09", inputs, outs, initializer=inits)
    model = h.make_model(g, opset_imports=[h.make_opsetid("", 18)])
    model.ir_version = 9
    return model


def bindings(case):
    return [r["b"] for r in case["rep"]]


def feeds_for(case, b, rng):
    env = dict(zip(case["free"], b))
    out = {}
    for i, sh in enumerate(case["ins"]):
        shape = [c if c < UNK else env[c] for c in sh]
        out[f"x{i + 1}"] = rng.integers(-4, 5, size=shape).astype(np.float32)
    return out


# ------------------------------------------------------------------ alpha: the real abstract state
_SUFFIX = re.compile(r"^(v\d+)(_\d+)+$")


def fold_observe(model_proto):
    """Run the real fold_constants once (node-level shape inference on, as optimize() does) and project
    symbolic_value_map, value shapes and what became of every original node."""
    import onnx_ir as ir

    from onnxscript.optimizer import _constant_folding as cf

    m = ir.serde.deserialize_model(model_proto)
    orig = {}
    for v in m.graph.inputs:
        orig[id(v)] = v.name
    for name, v in m.graph.initializers.items():
        orig[id(v)] = name
    orig_nodes = {}
    for n in m.graph:
        for o in n.outputs:
            orig[id(o)] = o.name
            orig_nodes[o.name] = (n.op_type, len(n.inputs))
    keep_alive = list(m.graph) + list(m.graph.initializers.values())  # ids stay unique while we hold the objects
    res = cf.fold_constants(m, onnx_shape_inference=True)

    def nm(v):
        if id(v) in orig:
            return orig[id(v)]
        mm = _SUFFIX.match(v.name or "")
        return mm.group(1) if mm else v.name

    def dims(shape):
        if shape is None:
            return None
        return [d if isinstance(d, int) else d.value for d in shape]

    def const_of(v):
        c = v.const_value
        if c is None:
            return None
        a = c.numpy()
        return {"shape": list(a.shape), "data": [int(x) for x in a.reshape(-1)]}

    sym = {}
    for k, val in res.symbolic_value_map.items():
        if isinstance(val, ir.Shape):
            e = {"k": "shape", "d": dims(val)}
        elif isinstance(val, ir.Value):
            e = {"k": "val", "r": nm(val), "c": const_of(val)}
        else:
            e = {"k": "list"}
        sym.setdefault(nm(k), [])
        if e not in sym[nm(k)]:
            sym[nm(k)].append(e)
    shapes, decisions = {}, {}
    for v in m.graph.inputs:
        shapes[nm(v)] = dims(v.shape)
    produced = {}
    for n in m.graph:
        for o in n.outputs:
            produced.setdefault(nm(o), []).append((n, o))
    for name, (op, nin) in orig_nodes.items():
        if not name.startswith("v"):
            continue
        cands = produced.get(name, [])
        # the live producer: prefer a new (replacement) node over the original object
        new = [(n, o) for n, o in cands if id(o) not in orig]
        old = [(n, o) for n, o in cands if id(o) in orig]
        if new:
            n, o = new[-1]
        elif old:
            n, o = old[-1]
        else:
            init = [v for k2, v in m.graph.initializers.items() if nm(v) == name and id(v) not in orig]
            if init:
                decisions[name] = {"k": "fold", "c": const_of(init[0])}
                shapes[name] = dims(init[0].shape)
            else:
                decisions[name] = {"k": "gone"}
            continue
        shapes[name] = dims(o.shape)
        if n.op_type == "Constant" and op != "Constant":
            decisions[name] = {"k": "const", "c": const_of(o)}
        elif n.op_type == "Identity" and op != "Identity":
            decisions[name] = {"k": "ident", "r": nm(n.inputs[0]), "c": const_of(n.inputs[0])}
        elif n.op_type == op and len(n.inputs) != nin:
            decisions[name] = {"k": "concat", "ins": [nm(i) for i in n.inputs]}
        elif n.op_type == op:
            decisions[name] = {"k": "keep", "ins": [nm(i) for i in n.inputs]}
        else:
            decisions[name] = {"k": "other", "op": n.op_type}
    del keep_alive
    return {"sym": sym, "shapes": shapes, "dec": decisions}


def spec_view(case):
    """the same projection of the spec's implementation model"""
    nv = len(case["sym"])
    ni = len(case["ins"])

    def opnd(o):
        if o["t"] == "r":
            return {"r": vname(case, o["i"])}
        return {"c": {"shape": [len(o["v"])], "data": o["v"]}}

    sym = {}
    for i in range(1, nv + 1):
        s = case["sym"][i - 1]
        if s["k"] == "shape":
            sym[vname(case, i)] = {"k": "shape", "d": [dim_of_terms(d) for d in s["d"]]}
        elif s["k"] == "val":
            sym[vname(case, i)] = {"k": "val", **opnd(s["o"])}
    shapes = {}
    for i in range(1, nv + 1):
        sh = case["sshape"][i - 1]
        shapes[vname(case, i)] = None if sh in ([[-9999]], [[-9996]]) else [dim_of_terms(d) for d in sh]
    dec = {}
    for k, d in enumerate(case["dec"], start=1):
        name = f"v{k}"
        if d["k"] in ("const", "fold"):
            dec[name] = {"k": d["k"], "c": {"shape": d["n"]["c"]["shape"], "data": d["n"]["c"]["data"]}}
        elif d["k"] == "ident":
            dec[name] = {"k": "ident", **opnd(d["n"]["a"][0])}
        else:
            dec[name] = {"k": d["k"], "ins": [opnd(o) for o in d["n"]["a"]]}
    return {"sym": sym, "shapes": shapes, "dec": dec}


def compare_abstract(case, real):
    """list of human-readable differences between the real abstract state and the spec's"""
    sv = spec_view(case)
    diffs = []

    def same_target(spec_e, real_r, real_c):
        if "r" in spec_e:
            return spec_e["r"] == real_r
        return real_c is not None and real_c["data"] == spec_e["c"]["data"]

    names = sorted(set(sv["sym"]) | set(real["sym"]))
    for nme in names:
        s = sv["sym"].get(nme)
        rs = real["sym"].get(nme, [])
        if s is None:
            diffs.append(f"sym[{nme}]: code has {rs}, model has none")
            continue
        if not rs:
            diffs.append(f"sym[{nme}]: model has {s}, code has none")
            continue
        for r in rs:
            if r["k"] != s["k"] or (s["k"] == "shape" and r["d"] != s["d"]) or (s["k"] == "val" and not same_target(s, r["r"], r["c"])):
                diffs.append(f"sym[{nme}]: model {s} code {r}")
    for nme, sh in sv["shapes"].items():
        if nme in real["shapes"] and real["shapes"][nme] != sh:
            diffs.append(f"shape[{nme}]: model {sh} code {real['shapes'][nme]}")
    for nme, d in sv["dec"].items():
        r = real["dec"].get(nme)
        if r is None:
            diffs.append(f"dec[{nme}]: model {d} code none")
            continue
        if r["k"] == "gone" and d["k"] in ("const", "fold"):
            continue  # folded, consumed by further folding, and dropped as an unused initializer
        if r["k"] != d["k"]:
            diffs.append(f"dec[{nme}]: model {d} code {r}")
        elif d["k"] in ("const", "fold") and (r["c"] is None or r["c"]["data"] != d["c"]["data"] or r["c"]["shape"] != d["c"]["shape"]):
            diffs.append(f"dec[{nme}]: model {d} code {r}")
        elif d["k"] == "ident" and not same_target(d, r["r"], r["c"]):
            diffs.append(f"dec[{nme}]: model {d} code {r}")
        elif d["k"] in ("keep", "concat"):
            want = [x.get("r", "<const>") for x in d["ins"]]
            got = [x if not x.startswith("c") else "<const>" for x in r["ins"]][: len(want)]
            if want != got:
                diffs.append(f"dec[{nme}]: model inputs {want} code {r['ins']}")
    return diffs


# ------------------------------------------------------------------ worker
def enc(a):
    a = np.asarray(a)
    if a.dtype.kind == "i":
        return [list(a.shape), [int(x) for x in a.reshape(-1)]]
    return [list(a.shape), []]


def run_case(arg):
    """arg = (idx, case, seed, variant) -> result dict (everything JSON-able)"""
    import logging

    import onnx

    idx, case, seed, variant, annotate = arg[:5]
    orig_only = len(arg) > 5 and arg[5]
    logging.disable(logging.WARNING)
    out = {"idx": idx, "variant": variant}
    model = build_model(case, variant)
    try:
        onnx.checker.check_model(model)
    except Exception as e:  # the generator produced an invalid model: machinery
        out["machinery"] = f"checker rejects generated model: {str(e)[:300]}"
        return out
    try:
        sess0 = core.ort_session(model)
    except Exception as e:
        out["orig_load"] = str(e)[-200:]
        return out
    try:
        out["abstract"] = fold_observe(model)
    except Exception as e:
        out["fold_raised"] = f"{type(e).__name__}: {str(e)[:300]}"
    import onnxscript.optimizer

    m2 = onnx.ModelProto()
    m2.CopyFrom(model)
    sess1 = None
    opt = None
    if orig_only:
        out["orig_only"] = True
    else:
        try:
            opt = onnxscript.optimizer.optimize(m2)
            out["opt_ops"] = [n.op_type for n in opt.graph.node]
        except Exception as e:
            out["opt_raised"] = f"{type(e).__name__}: {str(e)[:300]}"
    if opt is not None:
        try:
            sess1 = core.ort_session(opt)
        except Exception as e:
            out["opt_load"] = str(e)[-300:]
    onames = [o.name for o in model.graph.output]
    runs = []
    kept = {}
    _abs = []

    def absless_session():
        if not _abs:
            _abs.append(core.ort_session(build_model(case, variant, drop_abs=True)))
        return _abs[0]

    absless = absless_session if any(n["op"] == "Abs" for n in case["nodes"]) else None
    for j, b in enumerate(bindings(case)):
        rng = np.random.default_rng([seed, zlib.crc32(case_key(case).encode()), j])
        feeds = feeds_for(case, b, rng)
        try:
            r0 = sess0.run(onames, feeds)
        except Exception as e:
            runs.append({"o": None, "err": str(e)[-120:]})
            continue
        rec = {"o": [enc(a) for a in r0]}
        rec["opt"] = compare_run(sess1, onames, feeds, r0, absless)
        sp = case["rep"][j]
        if sp["ok"] and not sp["un"]:
            kept[j] = (feeds, r0)
        runs.append(rec)
    out["runs"] = runs
    # ---- second form of the same model: graph outputs declared with the shapes they really have (exporters write
    # such annotations; rules like MaterializeReshapeShape / collapse_slice2 act on them).  A declared dim is an
    # int when the dim has that value at every judged binding, a named input symbol when it equals that symbol at
    # every judged binding, else unknown: the declaration is true wherever the model is judged.
    if annotate and not orig_only and len(kept) >= 2:
        decl = annotated_outputs(case, model, kept)
        if decl is not None:
            m3 = onnx.ModelProto()
            m3.CopyFrom(model)
            del m3.graph.output[:]
            m3.graph.output.extend(decl)
            out["annotated"] = {o.name: [d.dim_value if d.HasField("dim_value") else (d.dim_param or None) for d in o.type.tensor_type.shape.dim] for o in decl}
            sess2 = None
            try:
                onnx.checker.check_model(m3)
                core.ort_session(m3)  # the annotated original must itself be loadable, else the form is not used
            except Exception as e:
                out["annotated_rejected"] = str(e)[-200:]
                del out["annotated"]
                return out
            try:
                opt2 = onnxscript.optimizer.optimize(m3)
                out["opt2_ops"] = [n.op_type for n in opt2.graph.node]
                out["opt2_materialized"] = materialized_shapes(opt2)
                try:
                    sess2 = core.ort_session(opt2)
                except Exception as e:
                    out["opt2_load"] = str(e)[-300:]
            except Exception as e:
                out["opt2_raised"] = f"{type(e).__name__}: {str(e)[:300]}"
            for j, (feeds, r0) in kept.items():
                runs[j]["opt2"] = compare_run(sess2, onames, feeds, r0, absless)
    return out


def compare_run(sess, onames, feeds, r0, absless=None):
    """SAME | NOMODEL | ERR ... | DIFF ...; a DIFF gets the suffix ' [=abs-dropped]' when the optimized model returns
    exactly what the original returns once its Abs nodes are replaced by Identity (absless: lazy session factory)"""
    if sess is None:
        return "NOMODEL"
    try:
        used = {i.name for i in sess.get_inputs()}
        r1 = sess.run(onames, {k: v for k, v in feeds.items() if k in used})
    except Exception as e:
        return "ERR " + str(e)[-160:]
    for q in range(len(r0)):
        if not core.same_array(r0[q], r1[q]):
            msg = (f"DIFF {onames[q]}: original {r0[q].dtype}{list(r0[q].shape)} {r0[q].reshape(-1)[:6].tolist()} "
                   f"optimized {r1[q].dtype}{list(r1[q].shape)} {r1[q].reshape(-1)[:6].tolist()}")
            if absless is not None:
                try:
                    r2 = absless().run(onames, feeds)
                    if all(core.same_array(r1[k], r2[k]) for k in range(len(r1))):
                        msg += " [=abs-dropped]"
                except Exception:
                    pass
            return msg
    return "SAME"


def annotated_outputs(case, model, kept):
    from onnx import helper as h

    named = [(c, SYMS[c]) for c in case["free"] if c in SYMS]
    decl = []
    informative = False
    for q, o in enumerate(model.graph.output):
        shapes = [(case["rep"][j]["b"], r0[q].shape) for j, (_, r0) in kept.items()]
        rank = len(shapes[0][1])
        dims = []
        for ax in range(rank):
            vals = {sh[ax] for _, sh in shapes}
            if len(vals) == 1:
                dims.append(int(next(iter(vals))))
                informative = True
                continue
            sym = None
            for c, name in named:
                pos = case["free"].index(c)
                if all(b[pos] == sh[ax] for b, sh in shapes):
                    sym = name
                    break
            dims.append(sym)
            informative = informative or sym is not None
        decl.append(h.make_tensor_value_info(o.name, o.type.tensor_type.elem_type, dims))
    return decl if informative else None


def materialized_shapes(model):
    """constant shape operands of Reshape nodes that carry allowzero=1 in the optimized model"""
    from onnx import numpy_helper as nh

    consts = {i.name: nh.to_array(i).tolist() for i in model.graph.initializer}
    for n in model.graph.node:
        if n.op_type == "Constant":
            for a in n.attribute:
                if a.name == "value":
                    consts[n.output[0]] = nh.to_array(a.t).tolist()
                elif a.name == "value_ints":
                    consts[n.output[0]] = list(a.ints)
    out = []
    for n in model.graph.node:
        if n.op_type == "Reshape" and any(a.name == "allowzero" and a.i == 1 for a in n.attribute) and n.input[1] in consts:
            out.append(consts[n.input[1]])
    return out


# ------------------------------------------------------------------ TLC
_UNESC = re.compile(r"\\(.)")


def _tlc_child(job, conn):
    label, cfg, kw = job
    try:
        res = core.run_tlc("SymShape", cfg, **kw)
        res.dump = None
        res.printed = []
        conn.send((label, cfg, res))
    except core.MachineryError as e:
        conn.send((label, cfg, str(e)))
    except BaseException as e:  # noqa: BLE001
        conn.send((label, cfg, f"{type(e).__name__}: {e}"))
    finally:
        conn.close()


def tlc_stream(jobs, maxpar):
    """run the TLC jobs (each its own JVM) in forked helper processes, at most `maxpar` at a time, and yield
    (label, cfg, TLCResult) as they finish - no threads, so that the replay pools can fork safely meanwhile"""
    import multiprocessing as mp
    from multiprocessing.connection import wait

    ctx = mp.get_context("fork")
    pending = list(jobs)
    running = {}
    try:
        while pending or running:
            while pending and len(running) < maxpar:
                job = pending.pop(0)
                a, b = ctx.Pipe(False)
                p = ctx.Process(target=_tlc_child, args=(job, b), daemon=True)
                p.start()
                b.close()
                running[a] = (p, job)
            for conn in wait(list(running)):
                p, job = running.pop(conn)
                try:
                    msg = conn.recv()
                except EOFError:
                    msg = (job[0], job[1], "TLC helper process died")
                p.join()
                if isinstance(msg[2], str):
                    raise core.MachineryError(f"{msg[1]}: {msg[2]}")
                yield msg
    finally:
        for conn, (p, _) in running.items():
            p.kill()


def cases_of(res, cfg):
    if not res.ok:
        raise core.MachineryError(f"TLC reports {res.violated} on {cfg} (design-level property DesignSound/ShapesSound or a model error):\n{res.out[-2500:]}")
    out = []
    for line in res.out.splitlines():
        if line.startswith('"{') and line.endswith('}"'):
            out.append(json.loads(_UNESC.sub(r"\1", line[1:-1])))
    return out


def case_key(c):
    return json.dumps([c["ins"], c["nodes"]], sort_keys=True)


def text_of(case):
    def o(x):
        return vname(case, x["i"]) if x["t"] == "r" else str(x["v"])

    ins = ", ".join(f"x{i + 1}{[decl_dim(c) if c < 2000 else '?' for c in sh]}" for i, sh in enumerate(case["ins"]))
    body = "; ".join(f"v{k}={n['op']}({', '.join(o(x) for x in n['a'])}{'' if not n['p'] else ' ' + str(n['p'])})" for k, n in enumerate(case["nodes"], start=1))
    return f"({ins}) {body} -> {[vname(case, i) for i in case['outs']]}"


WITNESSES = {
    "a Reshape over symbolic dims replaced by Identity at an accepted binding":
        lambda c: any(n["op"] == "Reshape" and d["k"] == "ident" and any(len(t) != 1 or t[0] >= UNK for t in c["sshape"][n["a"][0]["i"] - 1])
                      for n, d in zip(c["nodes"], c["dec"])) and any(r["ok"] for r in c["rep"]),
    "an Expand over symbolic dims replaced by Identity":
        lambda c: any(n["op"] == "Expand" and d["k"] == "ident" and any(t[0] >= UNK for t in c["sshape"][n["a"][0]["i"] - 1])
                      for n, d in zip(c["nodes"], c["dec"])),
    "a composite symbol created by Add": lambda c: any(s["k"] == "shape" and any(len(t) > 1 for t in s["d"]) for s in c["sym"]),
    "a symbolic value holding an unknown dim": lambda c: any(s["k"] == "shape" and [UNK] in s["d"] for s in c["sym"]),
    "a Shape/Gather chain folded to a constant": lambda c: any(n["op"] == "Gather" and d["k"] in ("const", "fold") for n, d in zip(c["nodes"], c["dec"])),
    "a zero-size Concat operand dropped": lambda c: any(n["op"] == "Concat" and d["k"] in ("ident", "concat") for n, d in zip(c["nodes"], c["dec"])),
    "a binding with a dim of size 0 accepted": lambda c: any(r["ok"] and 0 in r["b"] for r in c["rep"]),
    "two free dims bound to equal values": lambda c: any(r["ok"] and len(r["b"]) >= 2 and r["b"][0] == r["b"][1] for r in c["rep"]),
    "a deviation step predicted to change an output": lambda c: bool(c["devs"]) and any(r["ok"] and not r["same"] for r in c["rep"]),
}


class Tally:
    def __init__(self):
        self.nontriv = set()
        self.mism = 0
        self.absm = 0
        self.traces_ok = 0
        self.discarded = 0
        self.dev_pred = 0
        self.dev_later = 0
        self.models = 0
        self.aborting = 0
        self.lines = []      # (sort key, text) of SPEC-MISMATCH lines
        self.reports = []    # (sort key, case blob, what, finding)
        self.samples = []


def run(ctx: core.Ctx):
    import time
    import onnx  # noqa: F401  (imported before the worker pools fork so that the workers do not each pay for it)
    import onnx_ir  # noqa: F401
    import onnxruntime  # noqa: F401

    import onnxscript.optimizer  # noqa: F401

    q = ctx.quick
    chain = "SymShape_chain3.cfg" if q else "SymShape_chain3t.cfg"
    jobs = [("vacuity: Sound under AllDevs must fail", "SymShape_vacuity.cfg", dict(timeout=1200, workers=2, heap="1g"))]
    for cfg in [chain, "SymShape_quick.cfg", "SymShape_attrs.cfg"] if q else [chain, "SymShape_quick.cfg", "SymShape_attrs.cfg", "SymShape_thorough.cfg", "SymShape_design.cfg"]:
        jobs.append((cfg, cfg, dict(timeout=3000, workers=8 if q else 6, heap="3g" if q else "6g")))
    nsim, num = (4, 200) if q else (12, 1000)
    for j in range(nsim):
        cfg = "SymShape_sim.cfg" if j % 2 == 0 else "SymShape_sim2.cfg"
        sd = ctx.seed * 100 + j + 1
        jobs.append((f"{cfg} -simulate num={num} seed={sd}", cfg, dict(timeout=3000, workers=1, simulate=f"num={num}", depth=60, seed=sd, heap="2g")))
    core.scratch()
    t0 = time.time()
    tally = Tally()
    seen = set()
    witnessed = set()
    n_exh = 0
    tlc_results = {}
    # the models of a finished TLC job are replayed while the other jobs still run
    for label, cfg, res in tlc_stream(jobs, 7 if q else 5):
        tlc_results[label] = res
        if cfg == "SymShape_vacuity.cfg":
            if res.ok or res.violated != "Sound":
                raise core.MachineryError(f"vacuity: invariant Sound did not fail with deviations enabled ({res.violated}): {res.out[-800:]}")
            continue
        cs = cases_of(res, cfg)
        res.out = ""
        if cfg == "SymShape_design.cfg":
            continue  # pure design run (Deviations = {}): only its invariant matters
        new = []
        for c in cs:
            k = case_key(c)
            if k not in seen:
                seen.add(k)
                new.append(c)
                for what, pred in WITNESSES.items():
                    if what not in witnessed and pred(c):
                        witnessed.add(what)
        if "simulate" not in label:
            n_exh += len(new)
        replay_batch(ctx, tally, new)
    for label, _, _ in jobs:   # evidence in a fixed order
        ctx.tlc(tlc_results[label], label)
    for what in WITNESSES:
        if what not in witnessed:
            raise core.MachineryError(f"vacuity: TLC reached no model with {what}")
    ctx.set("spec_cases", len(seen))
    ctx.set("spec_cases_exhaustive", n_exh)
    finish_tally(ctx, tally)
    ctx.set("tlc_and_replay_s", round(time.time() - t0, 1))
    ctx.set("exhaustive", False)
    ctx.assumptions += [
        "ONNX Runtime 1.30 with graph optimizations disabled is the meaning of both models; bindings at which it rejects the ORIGINAL model are discarded, not judged",
        "free dims are bound to {0,1,2,3,7}; input contents are small integers stored as float32 so equality is exact",
        "data tensors are abstracted to their shape inside the spec (no op of the menu changes contents except by a shape-preserving map); the verdict itself compares real tensors",
        "Reshape with allowzero=1 whose runtime target holds both -1 and 0, and Concat of empty operands with mismatching other dims, are left open by ONNX (ORT is lenient and returns uninitialised memory): the spec marks them UNSPEC and those bindings are not judged",
        "exhaustive part: all models of <= 2 nodes over the reduced menus, all 3-node chains over the chain input menu, and the attribute sweep (every Shape start/end in [-(rank+2), rank+2], every Gather index in [-len, len-1], Slice bounds below -dim / above dim / INT64_MIN / INT64_MAX and negative steps); longer models (<= 6 nodes, full menus) are a seeded TLC simulation sample",
        "the annotated form (graph outputs declared with the shapes observed at the judged bindings) is run for models whose outputs include a data Reshape/Expand/Slice/Concat (quick: half of them)",
    ]


def _h(case):
    return zlib.crc32(case_key(case).encode())


def wants_annotation(ctx, case):
    """the annotated form is run for models whose outputs include a data Reshape / Expand / Slice / Concat
    (quick: every second such model)"""
    ni = len(case["ins"])
    hit = any(case["nodes"][v - ni - 1]["op"] in ("Reshape", "Expand", "Slice", "Concat") and case["meta"][v - 1]["k"] == "f" for v in case["outs"])
    return hit and (not ctx.quick or (_h(case) + ctx.seed) % 2 == 0)


def judge(ctx, allcases):
    """replay + assess a list of cases in one go (used by experiments)"""
    t = Tally()
    replay_batch(ctx, t, allcases)
    finish_tally(ctx, t)


# ------------------------------------------------------------------ DimEq.tla: the equality tests shape-based conditions rely on
def dimeq_stage(ctx):
    """spec/DimEq.tla: literal / named / unnamed dims; the three equality tests of the code (rewriter._ir_utils.same_dim, same_shape,
    _constant_folding._same_shape) transcribed and checked against 'equal under every binding'; every case replayed into the real
    functions: a real answer 'same' on a pair that is not always equal is a violation (a shape-based simplification built on it is
    wrong for some binding), any other disagreement with the transcription a SPEC-MISMATCH."""
    import json

    from onnxscript import ir
    from onnxscript.optimizer import _constant_folding as cf
    from onnxscript.rewriter import _ir_utils

    res = core.run_tlc("DimEq", "DimEq_design.cfg", workers=1, timeout=600)
    ctx.tlc(res, "DimEq_design.cfg")
    if not res.ok:
        raise core.MachineryError(f"TLC reports {res.violated} on DimEq_design.cfg:\n{res.out[-1500:]}")
    cases = [json.loads(pr[1]) for pr in res.printed if pr and pr[0] == "CASE"]
    for cfg, what in (("DimEq_canfail.cfg", "the naive == reading is not refuted"), ("DimEq_vacuity.cfg", "no pair is ever judged the same")):
        r = core.run_tlc("DimEq", cfg, workers=1, timeout=600)
        if r.ok:
            raise core.MachineryError(f"DimEq {cfg}: {what} (vacuous)")
    if len(cases) < 500:
        raise core.MachineryError(f"DimEq: only {len(cases)} cases")

    def dim(t):
        return ir.SymbolicDim(None) if t == "?" else ir.SymbolicDim(t) if not t.lstrip("-").isdigit() else int(t)

    def shape_dim(t):
        return None if t == "?" else t if not t.lstrip("-").isdigit() else int(t)

    mism = 0
    for c in cases:
        ctx.add("evaluations")
        ctx.add("dimeq_cases")
        if c["kind"] == "dim":
            got = {"same_dim": bool(_ir_utils.same_dim(dim(c["a"][0]), dim(c["b"][0])))}
        else:
            s1, s2 = ir.Shape([shape_dim(t) for t in c["a"]]), ir.Shape([shape_dim(t) for t in c["b"]])
            got = {"same_shape": bool(_ir_utils.same_shape(s1, s2)), "folder_same_shape": bool(cf._same_shape(s1, s2))}
        for k, v in got.items():
            if v and not c["always_equal"]:
                fn = {"same_dim": "rewriter._ir_utils.same_dim", "same_shape": "rewriter._ir_utils.same_shape",
                      "folder_same_shape": "optimizer._constant_folding._same_shape"}[k]
                ctx.report({"kind": "dimeq", "case": c, "function": fn},
                           f"{fn}({c['a']}, {c['b']}) answers True ('?' = unnamed dim) although the two are not equal under every run-time binding: "
                           f"a simplification conditioned on it (ScatterND removal, Slice collapse, Reshape/Expand elimination) is wrong for some input shape")
            elif v != c[k]:
                mism += 1
                if mism <= 5:
                    print(f"SPEC-MISMATCH C09 DimEq: {k}({c['a']}, {c['b']}): model {c[k]} real {v}", flush=True)
    ctx.set("dimeq_model_impl_mismatches", mism)


def finish_tally(ctx, t):
    for _, line in sorted(t.lines)[:20]:
        print(line)
    for _, blob, what, finding in sorted(t.reports, key=lambda x: x[0]):
        ctx.report(blob, what, finding=finding)
    for _, smp in sorted(t.samples, key=lambda x: x[0])[:6]:
        ctx.sample(smp)
    dimeq_stage(ctx)
    # hand-built idioms with symbolic dims that SymShape.tla's menus do not derive (ScatterND over a Range of a sliced
    # Shape, Reshape with a run-time target whose output is annotated with a static 0 dim): one optimize(), several
    # concrete bindings per model (shared with C03/C04: optgen.family_models, names sym_*)
    from . import optgen

    for fam, res in optgen.direction_family(ctx, want_abs=False):
        name = fam[0]
        if not name.startswith("sym_"):
            continue
        if res is core.HANG or isinstance(res, core.MachineryErrorResult) or res.get("skip"):
            raise core.MachineryError(f"family {name}: {res if not isinstance(res, dict) else res['skip']}")
        for v in res["variants"]:
            ctx.add("evaluations")
            ctx.add("symbolic_family_runs")
            if v["exc"]:
                continue   # totality is C04's
            for k, symptom, detail in v["fail"]:
                ctx.report({"kind": "family", "name": name, "variant": v["name"], "binding": k, "symptom": symptom, "detail": detail},
                           f"symbolic-shape family {name}, {v['name']}: binding #{k}: {symptom}: {detail}")
                break
    ctx.set("distinct_nontrivial", len(t.nontriv))
    ctx.set("rule", "models = 'done' states of SymShape.tla (exhaustive cfgs + seeded simulation), each optimized ONCE (twice when the "
                    "annotated form is also run) and run at every binding of its free dims to {0,1,2,3,7}; evaluations = (model, binding) "
                    "pairs run on ORT; non-trivial = distinct models accepted at >= 1 binding in which the folder derived a symbolic value "
                    "or replaced a node")
    ctx.set("traces_validated_against_impl", t.traces_ok)
    ctx.set("models_replayed", t.models)
    ctx.set("models_never_accepted", t.discarded)
    ctx.set("models_aborting_onnxruntime", t.aborting)
    ctx.set("model_impl_mismatches", t.mism + t.absm)
    ctx.set("abstract_state_mismatches", t.absm)
    ctx.set("departures_predicted_by_deviation", t.dev_pred)
    ctx.set("departures_by_deviation_in_later_iteration", t.dev_later)


def replay_batch(ctx, t, cases):
    if not cases:
        return
    items = [(i, c, ctx.seed, (_h(c) + ctx.seed) % 3, wants_annotation(ctx, c)) for i, c in enumerate(cases)]
    results = core.pmap_safe(run_case, items, timeout=120)
    # a worker that died: ONNX Runtime aborted the process (it does so on some invalid models, e.g. a Slice
    # of an Expand with a negative target dim).  Re-run the original alone: if that dies too the model is
    # discarded, otherwise it is the OPTIMIZED model that kills the runtime although the original runs.
    died = [k for k, r in enumerate(results) if isinstance(r, core.MachineryErrorResult) and "died" in r.msg]
    if died:
        again = core.pmap_safe(run_case, [items[k] + (True,) for k in died], timeout=120, workers=min(4, len(died)))
        for k, r2 in zip(died, again):
            if isinstance(r2, dict):
                r2["opt_raised"] = "the process running the optimized model was aborted by ONNX Runtime"
                r2["runs"] = [dict(x, opt="NOMODEL") if x["o"] is not None else x for x in r2["runs"]]
                results[k] = r2
            else:
                results[k] = {"ort_abort": True}
                t.aborting += 1
    for (i, case, _, _, _), r in zip(items, results):
        assess(ctx, t, case, r)


def assess(ctx, t, case, r):
    txt = text_of(case)
    t.models += 1
    if r is core.HANG or isinstance(r, core.MachineryErrorResult):
        raise core.MachineryError(f"worker failed on {txt}: {r}")
    if "machinery" in r:
        raise core.MachineryError(f"{r['machinery']} for {txt}")
    if "ort_abort" in r:
        t.discarded += 1
        return
    if "orig_load" in r:
        t.discarded += 1
        if any(x["ok"] for x in case["rep"]):
            t.mism += 1
            t.lines.append((txt, f"SPEC-MISMATCH C09 load: model accepts some binding, ORT cannot load the original: {txt}: {r['orig_load']}"))
        return
    # ---- the real abstract state against the implementation model
    if "fold_raised" in r:
        t.absm += 1
        t.lines.append((txt, f"SPEC-MISMATCH C09 fold_constants raised on {txt}: {r['fold_raised']}"))
    else:
        d = compare_abstract(case, r["abstract"])
        if d:
            t.absm += 1
            t.lines.append((txt, f"SPEC-MISMATCH C09 abstract state: {txt}: " + " | ".join(d[:4])))
        else:
            t.traces_ok += 1
    simplified = any(x["k"] != "keep" for x in case["dec"]) or any(s["k"] != "none" for s in case["sym"])
    anyok = False
    for j, (sp, rr) in enumerate(zip(case["rep"], r["runs"])):
        ctx.add("evaluations")
        real_ok = rr["o"] is not None
        # spec vs ORT on the original
        if not sp["un"]:
            if sp["ok"] != real_ok:
                t.mism += 1
                t.lines.append((txt, f"SPEC-MISMATCH C09 acceptance: {txt} at {dict(zip(case['free'], sp['b']))}: model ok={sp['ok']} ORT {'ok' if real_ok else rr.get('err')}"))
            elif real_ok and sp["o"] != rr["o"]:
                t.mism += 1
                t.lines.append((txt, f"SPEC-MISMATCH C09 outputs: {txt} at {sp['b']}: model {sp['o']} ORT {rr['o']}"))
        if not real_ok:
            ctx.add("bindings_rejected_by_original")
            continue
        if sp["un"] or not sp["ok"]:
            # ORT ran the original although ONNX leaves the case open (it is lenient about empty Concat
            # operands and returns uninitialised memory): outside the property's domain
            ctx.add("bindings_outside_onnx_semantics")
            continue
        anyok = True
        bind = {("?" if c > 2000 else SYMS.get(c, c)) + (str(c - 2000) if c > 2000 else ""): v for c, v in zip(case["free"], sp["b"])}
        for form, k_raised, k_load, k_run in (("", "opt_raised", "opt_load", "opt"), ("with declared output shapes " + str(r.get("annotated")) + " ", "opt2_raised", "opt2_load", "opt2")):
            if k_run == "opt2" and "opt2" not in rr:
                continue
            ctx.add("judged_runs")
            finding = None
            if k_raised in r:
                what = f"optimize() raised {r[k_raised]}"
            elif k_load in r:
                what = f"ORT cannot load the optimized model: {r[k_load]}"
            elif rr[k_run] == "SAME":
                if k_run == "opt" and not sp["same"]:
                    t.mism += 1
                    t.lines.append((txt, f"SPEC-MISMATCH C09 predicted departure did not happen: {txt} at {sp['b']}"))
                continue
            else:
                what = rr[k_run]
            if not sp["same"] and case["devs"]:
                finding = sorted(case["devs"])[0]
                t.dev_pred += 1
            elif what.endswith("[=abs-dropped]") and abs_deviation_guard(case):
                # the deviation acting in a LATER iteration of optimize() (after a rewrite rule turned e.g. a full Slice
                # into Identity): the optimized model equals the original with its Abs dropped, and the guard of the
                # deviation holds statically for an Abs of the model
                finding = "abs_assumes_nonneg"
                t.dev_later += 1
            elif k_run == "opt2" and any(-1 in sh and 0 in sh for sh in r.get("opt2_materialized", [])) and not rr[k_run].startswith("DIFF"):
                # guard of the known deviation of MaterializeReshapeShape: a constant shape holding -1 and 0 next to allowzero=1
                finding = "materialize_allowzero"
            t.reports.append(((txt, k_run, sp["b"]),
                              {"model": txt, "ins": case["ins"], "nodes": case["nodes"], "binding": bind, "free": case["free"], "b": sp["b"],
                               "variant": r["variant"], "form": k_run, "declared_outputs": r.get("annotated") if k_run == "opt2" else None,
                               "opt_ops": r.get("opt_ops" if k_run == "opt" else "opt2_ops"), "case": case_min(case)},
                              f"{txt} {form}at {bind}: the original model runs, the optimized one does not agree: {what}", finding))
    if not anyok:
        t.discarded += 1
    elif simplified:
        t.nontriv.add(case_key(case))
        if len(t.samples) < 200:
            t.samples.append((_h(case), {"model": txt, "symbolic_value_map": spec_view(case)["sym"], "decisions": [d["k"] for d in case["dec"]],
                                         "bindings": len(case["rep"]), "accepted": sum(1 for x in r["runs"] if x["o"] is not None)}))


PASS_THROUGH = ("Slice", "Identity", "Cast", "Reshape", "Squeeze", "Gather", "Concat", "Abs")


def abs_deviation_guard(case):
    """the guard of deviation abs_assumes_nonneg, evaluated on the spec's symbolic values: some Abs operand is (or is
    computed by value-selecting ops from) a value whose symbolic dims include a composite symbol with a negative
    term while none of its dims is a negative literal (the code's own guard passes, the design's does not)"""
    ni = len(case["ins"])

    def ancestors(i, seen):
        if i in seen:
            return
        seen.add(i)
        if i > ni:
            n = case["nodes"][i - ni - 1]
            if n["op"] in PASS_THROUGH:
                for o in n["a"]:
                    if o["t"] == "r":
                        ancestors(o["i"], seen)

    for n in case["nodes"]:
        if n["op"] != "Abs":
            continue
        seen = set()
        ancestors(n["a"][0]["i"], seen)
        for i in seen:
            s = case["sym"][i - 1]
            if s["k"] == "shape" and any(len(d) > 1 and any(t < 0 for t in d) for d in s["d"]) \
                    and not any(len(d) == 1 and d[0] < 0 for d in s["d"]):
                return True
    return False


def case_min(case):
    return {k: case[k] for k in ("ins", "nodes", "outs", "free", "meta", "sym", "sshape", "dec", "devs", "rep")}


def replay(ctx, path):
    with open(path) as f:
        blob = json.load(f)["case"]
    case = blob["case"]
    j = [r["b"] for r in case["rep"]].index(blob["b"])
    r = run_case((0, case, ctx.seed, blob.get("variant", 0), True))
    rr = r.get("runs", [None] * len(case["rep"]))[j]
    print(json.dumps({"model": blob["model"], "binding": blob["binding"], "form": blob.get("form"), "spec": case["rep"][j],
                      "abstract_real": r.get("abstract"), "abstract_spec": spec_view(case),
                      "optimized_ops": r.get("opt_ops"), "declared_outputs": r.get("annotated"), "optimized_ops_annotated": r.get("opt2_ops"),
                      "now": rr, "opt_raised": r.get("opt_raised"), "opt_load": r.get("opt_load"),
                      "opt2_raised": r.get("opt2_raised"), "opt2_load": r.get("opt2_load")}, indent=1, default=str))
    if rr is None or rr["o"] is None:
        return 0
    if blob.get("form") == "opt2":
        bad = "opt2_raised" in r or "opt2_load" in r or rr.get("opt2", "SAME") != "SAME"
    else:
        bad = "opt_raised" in r or "opt_load" in r or rr.get("opt") != "SAME"
    return 1 if bad else 0
