"""C14 - results are deterministic and independent of what the process did before.

spec/History.tla models the PROCESS: every piece of state that outlives a call (Opset.cache, the
_pattern_builder global, fields rule objects set in check() and read in rewrite(), the lazily compiled
pattern of a PatternBase, FoldConstantsPass state, the default evaluator, Parameter._realized, the globals
a script captured) and a catalogue of concrete operations (translate ok/raising, to_model_proto repeated,
mutate globals, optimize, rewrite with rules raising in check()/rewrite(), build a pattern ok/raising,
convert_version, build a module tree) as sequences of critical steps.  TLC enumerates histories, checks
Result(T after H) = Result(T fresh) at design level and predicts, for the implementation model (named
deviations), which operation of which history differs and what the persistent state is after every step.

This harness replays every selected history in ONE process whose state is that of a freshly started
interpreter (a forked copy of a just-imported zygote per PYTHONHASHSEED; the reference results come from
really fresh interpreters), compares the sha1 of the serialized result of every operation with the result
of the same operation alone in a fresh interpreter, for several hash seeds, and compares a snapshot of the
real persistent state after every operation with the spec's state variables.
"""
from __future__ import annotations

import hashlib
import json
import os
import random
import subprocess
import sys
import time

from . import core

LEVEL = "model_checking"

# =================================================================================================
# PART 1 - code that runs INSIDE the observed process (zygote / fresh interpreter / forked child).
# Nothing here may import the harness' heavy helpers: the process must look like a user's process.
# =================================================================================================

SCRIPT_SOURCES = {
    # If with 6 live definitions, Loop with 6 carried variables, nested control flow, a while loop:
    # every list(set) site of the converter decides an order here.
    "c14s_ctl": '''
from typing import Tuple
from onnxscript import script, INT64, BOOL
from onnxscript import opset18 as op

@script(default_opset=op)
def ctl(a: INT64, n: INT64) -> Tuple[INT64, INT64, INT64, INT64, INT64, INT64]:
    alpha = a + 1
    beta = a + 2
    gamma = a + 3
    delta = a + 4
    eps = a + 5
    zeta = a + 6
    if a > 0:
        alpha = beta * 2
        gamma = delta * 3
        eps = zeta + alpha
        zeta = gamma - 1
        beta = eps + 1
        delta = beta + gamma
    else:
        zeta = alpha - 1
        eps = beta - 2
        delta = gamma - 3
        gamma = delta * 2
        beta = eps * 2
        alpha = zeta * 2
    for i in range(n):
        alpha = alpha + beta
        beta = beta + gamma
        gamma = gamma + delta
        delta = delta + eps
        eps = eps + zeta
        zeta = zeta + i
        if gamma > 10:
            theta = alpha - 1
            kappa = beta - 1
        else:
            kappa = alpha + 1
            theta = beta + 1
        alpha = theta + kappa
    cond = alpha < 100
    while cond:
        alpha = alpha + delta + 1
        delta = delta + 1
        zeta = zeta + alpha
        cond = alpha < 100
    # a for variable that is read after its loop is carried too (with five other carried variables)
    idx = a * 0
    for idx in range(n):
        beta = beta + idx
        gamma = gamma + 1
        delta = delta + 2
        eps = eps + 3
        zeta = zeta + 4
    alpha = alpha + idx
    return alpha, beta, gamma, delta, eps, zeta
''',
    # script-time constants from globals of three kinds (rebindable int, list, numpy array), a
    # sub-function in a custom opset (Opset.cache) and an attribute parameter
    "c14s_glob": '''
import numpy as np
from onnxscript import script, FLOAT, INT64, opset18 as op
from onnxscript import values

K = 3
L = [1, 2, 3]
A = np.array([1.0, 2.0, 3.0], dtype=np.float32)
custom = values.Opset("c14.custom", 2)

@script(custom)
def sub(x: FLOAT[3], scale: float = 2.0) -> FLOAT[3]:
    return op.Mul(x, op.Constant(value_float=scale))

@script(default_opset=op)
def glob(x: FLOAT[3]) -> FLOAT[3]:
    a = op.Constant(value=A)
    y = x + a
    w = sub(y, scale=4.0) * K
    return w + op.Cast(op.Constant(value_ints=L), to=1)
''',
    # functions WITHOUT a node of the standard domain: the model's standard opset import is computed by
    # to_model_proto (from the called function / from opset_version=), it is not recorded in the function
    "c14s_outer": '''
from onnxscript import script, FLOAT, values
from onnxscript import opset18 as op
inner_domain = values.Opset("c14.inner", 1)

@script(inner_domain)
def inner(x):
    return op.Relu(x)

@script()
def outer(x: FLOAT[3]) -> FLOAT[3]:
    return inner(x)

@script(default_opset=op)
def only_custom(x: FLOAT[3]) -> FLOAT[3]:
    return inner_domain.Foo(x)

# four custom domains of which three are reached only TRANSITIVELY (through mid): the order of the model's opset imports and
# functions must not depend on set iteration order (session 6, seeded C14-m11)
d_alpha = values.Opset("c14.alpha", 1)
d_beta = values.Opset("c14.beta", 1)
d_gamma = values.Opset("c14.gamma", 1)
d_delta = values.Opset("c14.delta", 1)

@script(d_beta)
def leaf_b(x):
    return op.Relu(x)

@script(d_gamma)
def leaf_g(x):
    return op.Neg(x)

@script(d_delta)
def leaf_d(x):
    return op.Abs(x)

@script(d_alpha)
def mid(x):
    return leaf_d(leaf_g(leaf_b(x)))

@script()
def chain(x: FLOAT[3]) -> FLOAT[3]:
    return mid(x)
''',
    # refused inside an if-branch nested in a loop, after nodes were emitted and scopes were opened
    "c14s_bad1": '''
from onnxscript import script, INT64
from onnxscript import opset18 as op

@script(default_opset=op)
def bad1(a: INT64, n: INT64) -> INT64:
    x = a + 1
    for i in range(n):
        x = x + i
        if x > 3:
            x = x + undefined_name_c14
        else:
            x = x - 1
    return x
''',
    # refused because two versions of the standard opset are used, after one opset was cached
    "c14s_bad2": '''
from onnxscript import script, INT64, values
from onnxscript import opset18 as op
from onnxscript import opset17 as op17
other = values.Opset("c14.custom", 3)       # another VERSION of the domain the glob script uses

@script(other)
def bad2(a: INT64) -> INT64:
    x = op.Add(a, a)
    y = op17.Mul(x, a)
    return y
''',
}

# alphabet of operations (names are the ones spec/History.tla uses)
OPS = [
    "TrCtl", "TrGlob", "TrBad1", "TrBad2", "ProtoGlob", "MutGlob", "ProtoOuter17", "ProtoOuter19",
    "OptOld", "OptNew", "OptA", "OptB", "OptRaise", "RwX", "RwY", "RwZ", "RwW", "RoX", "RoY", "RoZ", "RoW", "RwAsFunc",
    "RwCheckRaise", "RwRewriteRaise",
    "FoldA", "FoldNoop", "FoldRaise", "PatOk", "PatFree", "PatRaiseDefault", "PatRaiseCustom", "PmMatch",
    "ConvA", "ConvRaise", "ModBuild", "EvRaise",
]


class _Proc:
    """Everything the observed process keeps between operations *on the harness side* (the objects a user
    program would keep: decorated functions, its own rule set / pass / module tree singletons)."""

    def __init__(self, srcdir):
        self.srcdir = srcdir
        self.mods = {}          # script module name -> module object of the latest decoration
        self.singletons = None
        self.base_opsets = None
        self.base_types = None
        self.events = None      # list when instrumented
        self.flags = {}
        self.tracked = {}       # rule name -> rule instance (class-based rules with per-match fields)
        self.scan0 = None


def _ev(P, *e):
    """critical steps of the harness' own operations (the rest is recorded by instrument())"""
    if P.events is not None:
        P.events.append(list(e))


def _sha(b: bytes) -> str:
    return hashlib.sha1(b).hexdigest()[:16]


def preimport():
    """what the observed program imports before its first operation"""
    import numpy  # noqa: F401
    import onnx  # noqa: F401
    import onnxscript  # noqa: F401
    import onnxscript.nn  # noqa: F401
    import onnxscript.optimizer  # noqa: F401
    import onnxscript.rewriter  # noqa: F401
    import onnxscript.version_converter  # noqa: F401
    from onnxscript.rewriter import pattern  # noqa: F401
    from onnxscript.rewriter.rules.fusion import _layer_norm, _rms_normalization  # noqa: F401


# ------------------------------------------------------------------------------------------ models
def _mk(nodes, ins, outs, inits=(), vis=(), opset=18, extra_imports=()):
    from onnx import helper as oh

    g = oh.make_graph(list(nodes), "g", list(ins), list(outs), list(inits), value_info=list(vis))
    return oh.make_model(g, opset_imports=[oh.make_opsetid("", opset)] + [oh.make_opsetid(d, v) for d, v in extra_imports], ir_version=10)


def _vi(name, shape, dt=1):
    from onnx import helper as oh

    return oh.make_tensor_value_info(name, dt, shape)


def _init(name, arr):
    from onnx import numpy_helper as nh

    return nh.from_array(arr, name)


def model_A():
    """one match of every rule that keeps per-match fields, all checks pass"""
    import numpy as np
    from onnx import helper as oh

    i64 = np.int64
    nodes = [
        oh.make_node("Reshape", ["x", "s1"], ["r1"]),
        oh.make_node("Reshape", ["r1", "s2"], ["r2"]),                 # ReshapeReshape -> [4, 6]
        oh.make_node("Flatten", ["r2"], ["f1"], axis=1),               # Flatten2Reshape
        oh.make_node("Reshape", ["f1", "dyn"], ["m1"]),                # MaterializeReshapeShape -> [8, 3]
        oh.make_node("Pad", ["img", "pads"], ["p1"]),
        oh.make_node("Conv", ["p1", "w"], ["c1"]),                     # FuseConvPad
        oh.make_node("Shape", ["x"], ["shp"]),                         # folded
        oh.make_node("Cast", ["shp"], ["shpf"], to=1),
        oh.make_node("ReduceSum", ["m1"], ["rs"], keepdims=0),
        oh.make_node("Mul", ["rs", "shpf"], ["o2"]),
        oh.make_node("Slice", ["x", "b1", "e1", "ax2"], ["sl1"]),      # SlicesSplit: a pattern with two output nodes,
        oh.make_node("Relu", ["sl1"], ["rl1"]),
        oh.make_node("Slice", ["x", "b0", "e0", "ax2"], ["sl0"]),      # met in the "wrong" order
        oh.make_node("Add", ["sl0", "rl1"], ["o3"]),
    ]
    return _mk(
        nodes,
        [_vi("x", [2, 3, 4]), _vi("dyn", [2], 7), _vi("img", [1, 2, 5, 5])],
        [_vi("m1", [8, 3]), _vi("c1", [1, 3, 5, 5]), _vi("o2", [3]), _vi("o3", [2, 3, 2])],
        [_init("b0", np.array([0], i64)), _init("e0", np.array([2], i64)), _init("b1", np.array([2], i64)),
         _init("e1", np.array([4], i64)), _init("ax2", np.array([2], i64)),
         _init("s1", np.array([6, 4], i64)), _init("s2", np.array([4, 6], i64)),
         _init("pads", np.array([0, 0, 1, 1, 0, 0, 1, 1], i64)),
         _init("w", np.arange(54, dtype=np.float32).reshape(3, 2, 3, 3))],
        [_vi("r1", [6, 4]), _vi("r2", [4, 6]), _vi("f1", [4, 6]), _vi("p1", [1, 2, 7, 7])],
    )


def model_B():
    """the same rules with other shapes and attributes; checks that fail AFTER having written a field;
    a symbolic dimension; two matches of the same rule in one model"""
    import numpy as np
    from onnx import helper as oh

    i64 = np.int64
    nodes = [
        oh.make_node("Reshape", ["x", "s1"], ["r1"]),
        oh.make_node("Reshape", ["r1", "s2"], ["r2"], allowzero=1),    # ReshapeReshape, allowzero kept
        oh.make_node("Reshape", ["y", "s3"], ["r3"]),
        oh.make_node("Reshape", ["r3", "s4"], ["r4"]),                 # check fails: 0 and -1
        oh.make_node("Reshape", ["y", "s5"], ["r5"]),
        oh.make_node("Reshape", ["r5", "s6"], ["r6"]),                 # ReshapeReshape -> [-1, 2] after the failure
        oh.make_node("Flatten", ["r6"], ["f1"], axis=0),               # Flatten2Reshape axis 0
        oh.make_node("Flatten", ["u"], ["f2"], axis=2),                # Flatten2Reshape, unknown input shape
        oh.make_node("Reshape", ["f1", "dyn"], ["m1"]),                # Materialize: one symbolic dim -> -1
        oh.make_node("Reshape", ["f2", "dyn"], ["m2"]),                # Materialize refused: two symbolic dims
        oh.make_node("Pad", ["img", "padsbad"], ["p0"]),
        oh.make_node("Conv", ["p0", "w"], ["c0"]),                     # FuseConvPad refused: channel padding
        oh.make_node("Pad", ["img", "pads", "", "axes"], ["p1"]),
        oh.make_node("Conv", ["p1", "w"], ["c1"], pads=[1, 0, 1, 0]),  # FuseConvPad with axes and own pads
    ]
    return _mk(
        nodes,
        [_vi("x", [2, 0, 4]), _vi("y", ["N", 4]), _vi("u", ["UA", "UB", "UC", "UD"]), _vi("dyn", [2], 7), _vi("img", [1, 2, 6, 6])],
        [_vi("r2", [0, 8]), _vi("r4", ["R4A", "R4B"]), _vi("m1", ["N", 4]), _vi("m2", ["P", "Q"]), _vi("c0", ["C0A", "C0B", "C0C", "C0D"]), _vi("c1", ["C1A", "C1B", "C1C", "C1D"])],
        [_init("s1", np.array([0, 4], i64)), _init("s2", np.array([0, 8], i64)),
         _init("s3", np.array([4, -1], i64)), _init("s4", np.array([0, -1], i64)),
         _init("s5", np.array([2, -1], i64)), _init("s6", np.array([-1, 2], i64)),
         _init("padsbad", np.array([0, 1, 0, 0, 0, 1, 0, 0], i64)),
         _init("pads", np.array([2, 1, 0, 3], i64)), _init("axes", np.array([2, 3], i64)),
         _init("w", np.ones((3, 2, 3, 3), np.float32))],
        [_vi("r1", [0, 4]), _vi("r6", ["M", 2]), _vi("f1", [1, "K"]), _vi("p1", [1, 2, 8, 10])],
    )


def model_raise():
    """CastConstantOfShape with a value that does not fit the target type: the shipped rule raises"""
    from onnx import helper as oh

    nodes = [
        oh.make_node("Reshape", ["x", "s1"], ["r1"]),
        oh.make_node("Reshape", ["r1", "s2"], ["r2"]),                 # a ReshapeReshape match first
        oh.make_node("Shape", ["r2"], ["s"]),
        oh.make_node("ConstantOfShape", ["s"], ["c"], value=oh.make_tensor("v", 7, [1], [300])),
        oh.make_node("Cast", ["c"], ["y"], to=2),
    ]
    import numpy as np

    return _mk(nodes, [_vi("x", ["N", 6])], [_vi("y", ["Y0", "Y1"], 2)],
               [_init("s1", np.array([-1, 3], np.int64)), _init("s2", np.array([3, -1], np.int64))])


def model_X():
    """RMS normalisation + layer normalisation + ReshapeReshape for the harness' own rule set"""
    import numpy as np
    from onnx import helper as oh

    f32 = np.float32
    nodes = [
        oh.make_node("Pow", ["x", "two"], ["xsq"]),
        oh.make_node("ReduceMean", ["xsq", "axm1"], ["ms"], keepdims=1, noop_with_empty_axes=0),
        oh.make_node("Add", ["ms", "eps1"], ["mse"]),
        oh.make_node("Sqrt", ["mse"], ["rms"]),
        oh.make_node("Reciprocal", ["rms"], ["rrms"]),
        oh.make_node("Mul", ["x", "rrms"], ["nrm"]),
        oh.make_node("Mul", ["nrm", "scale"], ["rmsout"]),              # RmsNormFusion1 (eps 1e-5, FLOAT)
        oh.make_node("ReduceMean", ["h", "axm1"], ["mean"], keepdims=1),
        oh.make_node("Sub", ["h", "mean"], ["dev"]),
        oh.make_node("Mul", ["dev", "dev"], ["dd"]),
        oh.make_node("ReduceMean", ["dd", "axm1"], ["var"], keepdims=1),
        oh.make_node("Add", ["var", "eps2"], ["vare"]),
        oh.make_node("Sqrt", ["vare"], ["sd"]),
        oh.make_node("Reciprocal", ["sd"], ["isd"]),
        oh.make_node("Mul", ["dev", "isd"], ["ln"]),
        oh.make_node("Mul", ["ln", "scale"], ["lnout"]),                # LayerNormFusion (eps 1e-3, FLOAT)
        oh.make_node("Reshape", ["rmsout", "s1"], ["r1"]),
        oh.make_node("Reshape", ["r1", "s2"], ["r2"]),                  # ReshapeReshape -> [2, 8]
        oh.make_node("Add", ["r2", "r2"], ["o"]),
    ]
    return _mk(
        nodes, [_vi("x", [4, 4]), _vi("h", [4, 4])], [_vi("lnout", [4, 4]), _vi("o", [2, 8])],
        [_init("two", np.array(2.0, f32)), _init("axm1", np.array([-1], np.int64)), _init("eps1", np.array(1e-5, f32)),
         _init("eps2", np.array(1e-3, f32)), _init("scale", np.array([1, 2, 3, 4], f32)),
         _init("s1", np.array([8, 2], np.int64)), _init("s2", np.array([2, 8], np.int64))],
        [_vi(n, [4, 4]) for n in ("xsq", "nrm", "rmsout", "dev", "dd", "ln")] + [_vi(n, [4, 1]) for n in ("ms", "mse", "rms", "rrms", "mean", "var", "vare", "sd", "isd")]
        + [_vi("r1", [8, 2]), _vi("r2", [2, 8])],
        opset=23,
    )


def model_Y():
    """the same patterns in DOUBLE with other epsilons, the other operand order, and a Reshape with 0"""
    import numpy as np
    from onnx import helper as oh

    f64 = np.float64
    nodes = [
        oh.make_node("ReduceMean", ["h", "axm1"], ["mean"], keepdims=1),
        oh.make_node("Sub", ["h", "mean"], ["dev"]),
        oh.make_node("Pow", ["dev", "two"], ["dd"]),
        oh.make_node("ReduceMean", ["dd", "axm1"], ["var"], keepdims=1),
        oh.make_node("Add", ["var", "eps2"], ["vare"]),
        oh.make_node("Sqrt", ["vare"], ["sd"]),
        oh.make_node("Div", ["dev", "sd"], ["ln"]),
        oh.make_node("Mul", ["ln", "scale"], ["lnout"]),                # LayerNormFusion (eps 0.25, DOUBLE)
        oh.make_node("Pow", ["x", "two"], ["xsq"]),
        oh.make_node("ReduceMean", ["xsq", "axm1"], ["ms"], keepdims=1, noop_with_empty_axes=0),
        oh.make_node("Add", ["ms", "eps1"], ["mse"]),
        oh.make_node("Sqrt", ["mse"], ["rms"]),
        oh.make_node("Reciprocal", ["rms"], ["rrms"]),
        oh.make_node("Mul", ["x", "rrms"], ["nrm"]),
        oh.make_node("Mul", ["scale", "nrm"], ["rmsout"]),              # RmsNormFusion2 (eps 0.5, DOUBLE)
        oh.make_node("Reshape", ["h", "s3"], ["r3"]),
        oh.make_node("Reshape", ["r3", "s4"], ["r4"]),                  # ReshapeReshape refused AFTER writing its fields (0 and -1)
        oh.make_node("Reshape", ["rmsout", "s1"], ["r1"]),
        oh.make_node("Reshape", ["r1", "s2"], ["r2"]),                  # ReshapeReshape, 0 -> -1
        oh.make_node("Flatten", ["r2"], ["o"], axis=1),
    ]
    return _mk(
        nodes, [_vi("x", [4, 4], 11), _vi("h", [4, 4], 11)],
        [_vi("lnout", [4, 4], 11), _vi("o", ["O0", "O1"], 11), _vi("r4", ["R4A", "R4B"], 11)],
        [_init("two", np.array(2.0, f64)), _init("axm1", np.array([-1], np.int64)), _init("eps1", np.array(0.5, f64)),
         _init("eps2", np.array(0.25, f64)), _init("scale", np.array([4, 3, 2, 1], f64)),
         _init("s1", np.array([16], np.int64)), _init("s2", np.array([0, 1], np.int64)),
         _init("s3", np.array([2, 8], np.int64)), _init("s4", np.array([0, -1], np.int64))],
        [_vi(n, [4, 4], 11) for n in ("xsq", "nrm", "rmsout", "dev", "dd", "ln")] + [_vi(n, [4, 1], 11) for n in ("ms", "mse", "rms", "rrms", "mean", "var", "vare", "sd")]
        + [_vi("r1", [16], 11)],
        opset=23,
    )


class _Parts:
    """composable sub-graphs for the rule catalogue: every shipped rule class that keeps fields between check() and
    rewrite() gets matches that are accepted (with different values), refused BEFORE the fields are assigned, and
    refused AFTER they were assigned"""

    def __init__(self):
        self.nodes, self.ins, self.outs, self.inits, self.vis = [], [], [], [], []

    def model(self):
        return _mk(self.nodes, self.ins, self.outs, self.inits, self.vis, opset=23, extra_imports=[("com.microsoft", 1)])

    def rms(self, p, dt, order, eps, cast=False):
        """RMS normalisation of a [4,4] input of onnx dtype dt; order 1: Mul(normalized, scale), 2: Mul(scale, normalized);
        cast: computed in FLOAT around Casts (compute_dtype bound)"""
        import numpy as np
        from onnx import helper as oh

        npdt = {1: np.float32, 10: np.float16, 11: np.float64}
        cdt = 1 if cast else dt
        N = self.nodes
        x = p + "x"
        self.ins += [_vi(x, [4, 4], dt)]
        self.inits += [_init(p + "two", np.array(2.0, npdt[cdt])), _init(p + "ax", np.array([-1], np.int64)),
                       _init(p + "eps", np.array(eps, npdt[cdt])), _init(p + "scale", np.array([1, 2, 3, 4], npdt[dt]))]
        xin = x
        if cast:
            N.append(oh.make_node("Cast", [x], [p + "xc"], to=1))
            xin = p + "xc"
            self.vis.append(_vi(xin, [4, 4], 1))
        N += [oh.make_node("Pow", [xin, p + "two"], [p + "sq"]),
              oh.make_node("ReduceMean", [p + "sq", p + "ax"], [p + "ms"], keepdims=1, noop_with_empty_axes=0),
              oh.make_node("Add", [p + "ms", p + "eps"], [p + "mse"]),
              oh.make_node("Sqrt", [p + "mse"], [p + "rms"]),
              oh.make_node("Reciprocal", [p + "rms"], [p + "rr"]),
              oh.make_node("Mul", [xin, p + "rr"], [p + "n"])]
        self.vis += [_vi(p + "sq", [4, 4], cdt), _vi(p + "n", [4, 4], cdt)] + [_vi(p + k, [4, 1], cdt) for k in ("ms", "mse", "rms", "rr")]
        nrm = p + "n"
        if cast:
            N.append(oh.make_node("Cast", [nrm], [p + "nc"], to=dt))
            nrm = p + "nc"
            self.vis.append(_vi(nrm, [4, 4], dt))
        N.append(oh.make_node("Mul", [nrm, p + "scale"] if order == 1 else [p + "scale", nrm], [p + "out"]))
        self.outs.append(_vi(p + "out", [4, 4], dt))

    def ln(self, p, dt, variant, eps, eps_const=True):
        """layer normalisation; variant 1: Mul(d,d) / Reciprocal, 2: Pow(d,2) / Div"""
        import numpy as np
        from onnx import helper as oh

        npdt = {1: np.float32, 10: np.float16, 11: np.float64}[dt]
        N = self.nodes
        h = p + "h"
        self.ins.append(_vi(h, [4, 4], dt))
        self.inits += [_init(p + "ax", np.array([-1], np.int64)), _init(p + "scale", np.array([4, 3, 2, 1], npdt)), _init(p + "two", np.array(2.0, npdt))]
        if eps_const:
            self.inits.append(_init(p + "eps", np.array(eps, npdt)))
        else:
            self.ins.append(_vi(p + "eps", [], dt))
        N += [oh.make_node("ReduceMean", [h, p + "ax"], [p + "mean"], keepdims=1),
              oh.make_node("Sub", [h, p + "mean"], [p + "d"]),
              oh.make_node("Mul", [p + "d", p + "d"], [p + "dd"]) if variant == 1 else oh.make_node("Pow", [p + "d", p + "two"], [p + "dd"]),
              oh.make_node("ReduceMean", [p + "dd", p + "ax"], [p + "var"], keepdims=1),
              oh.make_node("Add", [p + "var", p + "eps"], [p + "ve"]),
              oh.make_node("Sqrt", [p + "ve"], [p + "sd"])]
        if variant == 1:
            N += [oh.make_node("Reciprocal", [p + "sd"], [p + "isd"]), oh.make_node("Mul", [p + "d", p + "isd"], [p + "ln"])]
        else:
            N.append(oh.make_node("Div", [p + "d", p + "sd"], [p + "ln"]))
        N.append(oh.make_node("Mul", [p + "ln", p + "scale"], [p + "out"]))
        self.vis += [_vi(p + k, [4, 4], dt) for k in ("d", "dd", "ln")] + [_vi(p + k, [4, 1], dt) for k in ("mean", "var", "ve", "sd")]
        self.outs.append(_vi(p + "out", [4, 4], dt))

    def reshape2(self, p, shape1, shape2, const2=True, allowzero=None, out_shape=None):
        import numpy as np
        from onnx import helper as oh

        self.ins.append(_vi(p + "x", [4, 6]))
        self.inits.append(_init(p + "s1", np.array(shape1, np.int64)))
        if const2:
            self.inits.append(_init(p + "s2", np.array(shape2, np.int64)))
        else:
            self.ins.append(_vi(p + "s2", [len(shape2)], 7))
        self.nodes += [oh.make_node("Reshape", [p + "x", p + "s1"], [p + "r1"]),
                       oh.make_node("Reshape", [p + "r1", p + "s2"], [p + "r2"], **({"allowzero": allowzero} if allowzero is not None else {}))]
        self.vis.append(_vi(p + "r1", shape1))
        self.outs.append(_vi(p + "r2", out_shape or [p + "A", p + "B"]))

    def padconv(self, p, pads, mode="constant", auto_pad=None):
        import numpy as np
        from onnx import helper as oh

        self.ins.append(_vi(p + "img", [1, 2, 5, 5]))
        self.inits += [_init(p + "pads", np.array(pads, np.int64)), _init(p + "w", np.ones((3, 2, 3, 3), np.float32))]
        self.nodes += [oh.make_node("Pad", [p + "img", p + "pads"], [p + "p"], mode=mode),
                       oh.make_node("Conv", [p + "p", p + "w"], [p + "c"], **({"auto_pad": auto_pad} if auto_pad else {}))]
        self.outs.append(_vi(p + "c", [p + "A", p + "B", p + "C", p + "D"]))

    def mha(self, p, scale, num_heads=2):
        """Mul(query, scale) -> com.microsoft MultiHeadAttention (FuseMHAScale); scale None: not a constant"""
        import numpy as np
        from onnx import helper as oh

        self.ins += [_vi(p + "q", [1, 4, 8]), _vi(p + "k", [1, 4, 8]), _vi(p + "v", [1, 4, 8])]
        if scale is None:
            self.ins.append(_vi(p + "scale", []))
        else:
            self.inits.append(_init(p + "scale", np.array(scale, np.float32)))
        self.nodes += [oh.make_node("Mul", [p + "q", p + "scale"], [p + "qs"]),
                       oh.make_node("MultiHeadAttention", [p + "qs", p + "k", p + "v"], [p + "o"], domain="com.microsoft", num_heads=num_heads)]
        self.vis.append(_vi(p + "qs", [1, 4, 8]))
        self.outs.append(_vi(p + "o", [1, 4, 8]))

    def extractdim(self, p, start, end, const_start=True):
        """Slice(Shape(Transpose(Reshape(x, Concat(d0..d3), allowzero=1)))) (ort_fusions ExtractDim)"""
        import numpy as np
        from onnx import helper as oh

        self.ins += [_vi(p + "x", [p + "N"])] + [_vi(p + f"d{i}", [1], 7) for i in range(4)]
        if const_start:
            self.inits.append(_init(p + "st", np.array([start], np.int64)))
        else:
            self.ins.append(_vi(p + "st", [1], 7))
        self.inits.append(_init(p + "en", np.array([end], np.int64)))
        self.nodes += [oh.make_node("Concat", [p + f"d{i}" for i in range(4)], [p + "shape"], axis=0),
                       oh.make_node("Reshape", [p + "x", p + "shape"], [p + "r"], allowzero=1),
                       oh.make_node("Transpose", [p + "r"], [p + "t"], perm=[0, 2, 1, 3]),
                       oh.make_node("Shape", [p + "t"], [p + "fs"]),
                       oh.make_node("Slice", [p + "fs", p + "st", p + "en"], [p + "dim"])]
        self.outs.append(_vi(p + "dim", [p + "K"], 7))


def model_W():
    """further ACCEPTED matches with other values: RMS norm in float16 around Casts (compute_dtype bound), float32 in the other
    operand order, layer norm (Pow/Div form), ReshapeReshape, Pad+Conv, MHA scale, ExtractDim"""
    m = _Parts()
    m.rms("a_", 10, 1, 0.125, cast=True)
    m.rms("b_", 1, 2, 0.75)
    m.rms("c_", 11, 1, 0.0625)
    m.ln("d_", 1, 2, 0.125)
    m.reshape2("e_", [3, 8], [12, 2], out_shape=[12, 2])
    m.padconv("f_", [0, 0, 2, 1, 0, 0, 1, 2])
    m.mha("g_", 0.5)
    m.extractdim("h_", 1, 2)
    return m.model()


def model_Z():
    """matches that are REFUSED: where check() takes a branch that does not (re)assign the fields, or assigns them and then
    refuses - float16 RMS norm / layer norm without Casts, non-constant epsilon / shape / scale / slice start, reflect padding,
    auto_pad - preceded by one accepted match of the rules that take part in other models too"""
    m = _Parts()
    m.rms("a_", 10, 1, 0.25)                    # float16, no Cast: precision refused (both operand orders)
    m.rms("b_", 10, 2, 0.25)
    m.ln("c_", 10, 1, 0.5)                      # float16: refused before any field is assigned
    m.ln("d_", 1, 1, 0.5, eps_const=False)      # epsilon is a graph input: refused between the two assignments
    m.reshape2("e_", [3, 8], [6, 4], const2=False)          # second shape not constant: refused before assigning
    m.reshape2("f_", [2, 12], [0, -1])                      # 0 and -1: refused after assigning
    m.padconv("g_", [0, 0, 1, 1, 0, 0, 1, 1], mode="reflect")          # refused before assigning
    m.padconv("h_", [0, 0, 1, 1, 0, 0, 1, 1], auto_pad="SAME_UPPER")   # refused after assigning
    m.padconv("i_", [0, 1, 0, 0, 0, 1, 0, 0])                          # channel padding: assigned, reset to None, refused
    m.mha("j_", 0.25, num_heads=4)              # accepted, other value
    m.mha("k_", None)                           # scale not constant: refused before assigning
    m.extractdim("l_", 0, 2)                    # accepted, other slice
    m.extractdim("m_", 0, 2, const_start=False)  # start not constant: assigned (None) and refused
    return m.model()


def model_multidomain():
    """a chain of nodes from five domains, extracted into a model-local function by an as_function rule"""
    from onnx import helper as oh

    nodes = [oh.make_node("Gelu", ["x"], ["t1"], domain="com.microsoft"),
             oh.make_node("Relu", ["t1"], ["t2"]),
             oh.make_node("Scale", ["t2"], ["t3"], domain="ai.onnx.contrib"),
             oh.make_node("Foo", ["t3"], ["t4"], domain="c14.d1"),
             oh.make_node("Bar", ["t4"], ["y"], domain="c14.d2")]
    return _mk(nodes, [_vi("x", [4, 8])], [_vi("y", [4, 8])], opset=18,
               extra_imports=[("com.microsoft", 1), ("ai.onnx.contrib", 1), ("c14.d1", 1), ("c14.d2", 1)])


def model_poison(kind):
    """a ReshapeReshape match, then the harness' poison node (raises in check() or in rewrite()), then
    another ReshapeReshape match that is never reached"""
    import numpy as np
    from onnx import helper as oh

    nodes = [
        oh.make_node("Reshape", ["x", "s1"], ["r1"]),
        oh.make_node("Reshape", ["r1", "s2"], ["r2"]),
        oh.make_node("Neg" if kind == "check" else "Abs", ["r2"], ["q"]),
        oh.make_node("Reshape", ["q", "s1"], ["r3"]),
        oh.make_node("Reshape", ["r3", "s3"], ["o"]),
    ]
    return _mk(nodes, [_vi("x", [3, 10])], [_vi("o", [2, 15])],
               [_init("s1", np.array([5, 6], np.int64)), _init("s2", np.array([10, 3], np.int64)), _init("s3", np.array([2, 15], np.int64))],
               [_vi("r1", [5, 6]), _vi("r2", [10, 3]), _vi("q", [10, 3])], opset=23)


def model_fold(poison=False):
    """constant folding with symbolic shape values (Shape/Gather/Concat) and an If with a constant condition"""
    import numpy as np
    from onnx import helper as oh

    then_g = oh.make_graph([oh.make_node("Add", ["x", "x"], ["t"])], "then", [], [_vi("t", ["N", 3])])
    else_g = oh.make_graph([oh.make_node("Mul", ["x", "x"], ["e"])], "else", [], [_vi("e", ["N", 3])])
    nodes = [
        oh.make_node("Shape", ["x"], ["shp"]),
        oh.make_node("Gather", ["shp", "i0"], ["d0"]),
        oh.make_node("Gather", ["shp", "i1"], ["d1"]),
        oh.make_node("Unsqueeze", ["d0", "ax0"], ["u0"]),
        oh.make_node("Unsqueeze", ["d1", "ax0"], ["u1"]),
        oh.make_node("Concat", ["u1", "u0"], ["tshape"], axis=0),
        oh.make_node("Add", ["c2", "c3"], ["c5"]),
        oh.make_node("Mul", ["c5", "c3"], ["c15"], name="poison" if poison else "mulc"),
        oh.make_node("Less", ["c2", "c3"], ["cnd"]),
        oh.make_node("If", ["cnd"], ["br"], then_branch=then_g, else_branch=else_g),
        oh.make_node("Reshape", ["br", "tshape"], ["rr"]),
        oh.make_node("Add", ["rr", "c15"], ["o"]),
    ]
    return _mk(nodes, [_vi("x", ["N", 3])], [_vi("o", ["F0", "F1"])],
               [_init("i0", np.array(0, np.int64)), _init("i1", np.array(1, np.int64)), _init("ax0", np.array([0], np.int64)),
                _init("c2", np.array(2.0, np.float32)), _init("c3", np.array(3.0, np.float32))])


def model_noop():
    """nothing to fold, unnamed nodes: FoldConstantsPass must leave it alone (no NameFixPass) - unless _modified is stale"""
    from onnx import helper as oh

    return _mk([oh.make_node("Add", ["x", "x"], ["t"]), oh.make_node("Relu", ["t"], ["o"])], [_vi("x", ["N", 3])], [_vi("o", ["N", 3])])


def model_reduce(opset):
    """a version-split operator folded through the generic reference-evaluator path: ReduceSum / Unsqueeze take their
    axes as an attribute up to opset 12 and as an input from opset 13"""
    import numpy as np
    from onnx import helper as oh

    c = _init("c", np.arange(6 if opset >= 13 else 8, dtype=np.float32).reshape(2, -1))
    n = 3 if opset >= 13 else 4
    if opset >= 13:
        nodes = [oh.make_node("ReduceSum", ["c", "axes"], ["s"], keepdims=0),
                 oh.make_node("Unsqueeze", ["s", "axes"], ["u"])]
        inits = [c, _init("axes", np.array([0], np.int64))]
    else:
        nodes = [oh.make_node("ReduceSum", ["c"], ["s"], axes=[0], keepdims=0),
                 oh.make_node("Unsqueeze", ["s"], ["u"], axes=[0])]
        inits = [c]
    nodes.append(oh.make_node("Add", ["x", "u"], ["y"]))
    m = _mk(nodes, [_vi("x", [n])], [_vi("y", [1, n])], inits, opset=opset)
    m.ir_version = 7 if opset >= 13 else 6
    return m


def model_muladd():
    from onnx import helper as oh

    return _mk([oh.make_node("Mul", ["x", "y"], ["t"]), oh.make_node("Add", ["t", "y"], ["z"]),
                oh.make_node("Mul", ["z", "x"], ["t2"]), oh.make_node("Add", ["t2", "x"], ["z2"])],
               [_vi("x", [3]), _vi("y", [3])], [_vi("z2", [3])])


def model_conv():
    """opset 19 -> 21: the DFT and GridSample adapters fire, the other nodes are carried over"""
    import numpy as np
    from onnx import helper as oh

    nodes = [
        oh.make_node("ReduceMax", ["x", "ax"], ["rm"], keepdims=1),
        oh.make_node("Sub", ["x", "rm"], ["d"]),
        oh.make_node("DFT", ["d"], ["ft"], axis=1),
        oh.make_node("GridSample", ["img", "grid"], ["gs"], mode="bilinear"),
        oh.make_node("Softmax", ["gs"], ["sm"], axis=-1),
        oh.make_node("DFT", ["d", "", ], ["ft2"], axis=1, inverse=0, onesided=1),
    ]
    return _mk(nodes, [_vi("x", [1, 4, 1]), _vi("img", [1, 1, 4, 4]), _vi("grid", [1, 2, 2, 2])],
               [_vi("ft", [1, 4, 2]), _vi("sm", [1, 1, 2, 2]), _vi("ft2", [1, 3, 2])],
               [_init("ax", np.array([1], np.int64))], opset=19)


# ------------------------------------------------------------------------------------- singletons
INIT_ATTRS = {"name", "remove_nodes", "as_function", "_compiled_pattern", "_pattern_kwargs", "_mul_order"}


def make_singletons(P: _Proc):
    """module-level objects of the observed program: its rule set, passes, lazily compiled pattern, module tree"""
    import numpy as np
    import onnx_ir as ir

    from onnxscript.nn import Module, ModuleList, Parameter
    from onnxscript.optimizer import _constant_folding
    from onnxscript.rewriter import pattern
    from onnxscript.rewriter.rules.common import _basic_rules, _fuse_pad_into_conv, _materialize_reshape_shape
    from onnxscript.rewriter.rules.fusion import _layer_norm, _rms_normalization
    from onnxscript.rewriter.ort_fusions import mha_scale as _ort_mha_scale
    from onnxscript.rewriter.ort_fusions import rms_normalization as _ort_rms
    from onnxscript.rewriter.ort_fusions import shape_optimization as _ort_shape
    from onnxscript.version_converter import ConvertVersionPass

    class PoisonCheck(pattern.RewriteRuleClassBase):
        def pattern(self, op, x):
            return op.Neg(x)

        def check(self, context, x):
            self._seen = x.name
            raise RuntimeError("c14: poison in check()")

        def rewrite(self, op, x):
            return op.Identity(x)

    class PoisonRewrite(pattern.RewriteRuleClassBase):
        def pattern(self, op, x):
            return op.Abs(x)

        def check(self, context, x):
            self._seen = x.name
            return True

        def rewrite(self, op, x):
            raise RuntimeError("c14: poison in rewrite() of " + self._seen)

    class MulAddPattern(pattern.PatternBase):
        def pattern(self, op, x, y):
            _ev(P, "pb_use", "", "compile")
            return op.Mul(x, y) + y

    class Lin(Module):
        def __init__(self, n, m):
            super().__init__()
            self.weight = Parameter([n, m], data=ir.tensor(np.arange(n * m, dtype=np.float32).reshape(n, m)))
            self.bias = Parameter([m], data=ir.tensor(np.ones(m, dtype=np.float32)))

        def forward(self, op, x):
            return op.Add(op.MatMul(x, self.weight), self.bias)

    class Net(Module):
        def __init__(self):
            super().__init__()
            self.fc1 = Lin(3, 4)
            self.layers = ModuleList([Lin(4, 4), Lin(4, 2)])

        def forward(self, op, x):
            y = op.Relu(self.fc1(op, x))
            for layer in self.layers:
                y = layer(op, y)
            return op.Mul(y, 2.0)

    def should_fold(node):
        if node.name == "poison":
            raise RuntimeError("c14: poison in should_fold")
        return None

    S = {}
    S["poison_check"] = PoisonCheck.rule()
    S["poison_rewrite"] = PoisonRewrite.rule()
    tracked_rules = [
        ("PoisonCheck", S["poison_check"]),
        ("PoisonRewrite", S["poison_rewrite"]),
        ("ReshapeReshape", _basic_rules.reshape_reshape_rule),
        ("Flatten2Reshape", _basic_rules.flatten_to_reshape_rule),
        ("MaterializeReshapeShape", _materialize_reshape_shape.materialize_reshape_shape_rule),
        ("FuseConvPad", _fuse_pad_into_conv.fuse_pad_into_conv_rule),
        ("RmsNormFusion1", _rms_normalization._rule1),
        ("RmsNormFusion2", _rms_normalization._rule2),
        ("LayerNormFusion", _layer_norm._layer_norm_rule),
    ]
    S["RS_H"] = pattern.RewriteRuleSet([r for _, r in tracked_rules])
    ort_rules = [
        ("OrtRmsNormFusion1", _ort_rms._rule1),
        ("OrtRmsNormFusion2", _ort_rms._rule2),
        ("OrtFuseMHAScale", _ort_mha_scale._mha_scale_rules.rules[0]),
        ("OrtExtractDim", _ort_shape.rules.rules[0]),
    ]
    S["RS_O"] = pattern.RewriteRuleSet([r for _, r in ort_rules])
    tracked_rules = tracked_rules + ort_rules
    S["tracked_rules"] = tracked_rules

    def chain(op, x):
        t = op.Gelu(x, _domain="com.microsoft")
        t = op.Relu(t)
        t = op.Scale(t, _domain="ai.onnx.contrib")
        t = op.Foo(t, _domain="c14.d1")
        return op.Bar(t, _domain="c14.d2")

    S["RS_F"] = pattern.RewriteRuleSet([pattern.RewriteRule(chain, lambda op, x: op.Chain(x, _domain="c14.fused"), as_function=True)])
    S["FOLD"] = _constant_folding.FoldConstantsPass(
        shape_inference=True,
        input_size_limit=_constant_folding.DEFAULT_CONSTANT_FOLD_INPUT_SIZE_LIMIT,
        output_size_limit=_constant_folding.DEFAULT_CONSTANT_FOLD_OUTPUT_SIZE_LIMIT,
        should_fold=should_fold,
    )
    S["PM"] = MulAddPattern()
    S["CONV"] = ConvertVersionPass(target_version=21)
    S["CONV_BAD"] = ConvertVersionPass(target_version=17)
    S["NET"] = Net()
    P.singletons = S
    for name, rule in tracked_rules:
        P.tracked[name] = rule._condition_function.__self__


# ------------------------------------------------------------------------------------------- ops
def _load_script(P, name):
    import importlib.util

    path = os.path.join(P.srcdir, name + ".py")
    _ev(P, "modexec", name)
    spec = importlib.util.spec_from_file_location(name, path)
    mod = importlib.util.module_from_spec(spec)
    sys.modules[name] = mod
    spec.loader.exec_module(mod)
    P.mods[name] = mod
    return mod


def _ser(m) -> bytes:
    return m.SerializeToString(deterministic=True)


def _ir_bytes(irmodel) -> bytes:
    import onnx_ir as ir

    return _ser(ir.serde.serialize_model(irmodel))


def _listset_sites(P, graph):
    for node in graph:
        if node.op_type in ("If", "Loop"):
            _ev(P, "listset", node.op_type)      # one list(set)/sorted(set) site of the converter per construct
            for a in node.attributes.values():
                if a.type.name == "GRAPH":
                    _listset_sites(P, a.as_graph())


def _protos(P, fn):
    """to_function_proto / to_model_proto called repeatedly: identical results, function untouched"""
    f0 = _ser(fn.to_function_proto())
    p1 = _ser(fn.to_model_proto())
    p2 = _ser(fn.to_model_proto())
    f1 = _ser(fn.to_function_proto())
    p3 = _ser(fn.to_model_proto())
    if not (p1 == p2 == p3 and f0 == f1):
        P.flags["not_idempotent"] = f"{fn.name}: model protos {_sha(p1)},{_sha(p2)},{_sha(p3)} function protos {_sha(f0)},{_sha(f1)}"
    return p1 + b"|" + f0


def op_TrCtl(P):
    m = _load_script(P, "c14s_ctl")
    if P.events is not None:
        _listset_sites(P, m.ctl.function_ir.graph)
    return _protos(P, m.ctl)


def op_TrGlob(P):
    m = _load_script(P, "c14s_glob")
    return _protos(P, m.glob) + b"|" + _ser(m.sub.to_function_proto())


def op_TrBad1(P):
    _load_script(P, "c14s_bad1")
    return b"accepted"


def op_TrBad2(P):
    _load_script(P, "c14s_bad2")
    return b"accepted"


def _glob(P):
    if "c14s_glob" not in P.mods:
        _load_script(P, "c14s_glob")
    return P.mods["c14s_glob"]


def op_ProtoGlob(P):
    m = _glob(P)
    _ev(P, "ensured")
    for _ in range(3):
        _ev(P, "toproto", "glob")
    return _protos(P, m.glob) + b"|" + _ser(m.sub.to_function_proto())


def op_MutGlob(P):
    m = _glob(P)
    _ev(P, "ensured")
    _ev(P, "mutate", "glob")
    m.K = 7                 # rebind
    m.L.append(9)           # mutate a list in place
    m.L[0] = 5
    m.A[0] = 42.0           # mutate an array in place
    return b"ok"


def _outer(P):
    if "c14s_outer" not in P.mods:
        _load_script(P, "c14s_outer")
    return P.mods["c14s_outer"]


def _proto_outer(P, version):
    m = _outer(P)
    _ev(P, "ensured")
    _ev(P, "toproto_pure", "outer")
    a = _protos(P, m.outer)                          # function proto before/after model proto, model proto three times
    a += b"|" + _protos(P, m.chain)
    _ev(P, "toproto_ver", str(version))
    g0 = _ser(m.only_custom.to_function_proto())
    b = _ser(m.only_custom.to_model_proto(opset_version=version))
    g1 = _ser(m.only_custom.to_function_proto())
    if g0 != g1:
        P.flags["not_idempotent"] = f"only_custom: to_function_proto() {_sha(g0)} before, {_sha(g1)} after to_model_proto(opset_version={version})"
    return a + b"|" + b + b"|" + g1


def op_ProtoOuter17(P):
    return _proto_outer(P, 17)


def op_ProtoOuter19(P):
    return _proto_outer(P, 19)


def op_OptOld(P):
    import onnxscript.optimizer

    return _ser(onnxscript.optimizer.optimize(model_reduce(11)))


def op_OptNew(P):
    import onnxscript.optimizer

    return _ser(onnxscript.optimizer.optimize(model_reduce(13)))


def op_OptA(P):
    import onnxscript.optimizer

    return _ser(onnxscript.optimizer.optimize(model_A()))


def op_OptB(P):
    import onnxscript.optimizer

    return _ser(onnxscript.optimizer.optimize(model_B()))


def op_OptRaise(P):
    import onnxscript.optimizer

    return _ser(onnxscript.optimizer.optimize(model_raise()))


def _rw(P, model):
    import onnxscript.rewriter

    return _ser(onnxscript.rewriter.rewrite(model, pattern_rewrite_rules=P.singletons["RS_H"]))


def op_RwX(P):
    return _rw(P, model_X())


def op_RwY(P):
    return _rw(P, model_Y())


def op_RwZ(P):
    return _rw(P, model_Z())


def op_RwW(P):
    return _rw(P, model_W())


def _ro(P, model):
    """the shipped onnxruntime fusion rule objects that keep fields between check() and rewrite()"""
    import onnxscript.rewriter

    return _ser(onnxscript.rewriter.rewrite(model, pattern_rewrite_rules=P.singletons["RS_O"]))


def op_RoX(P):
    return _ro(P, model_X())


def op_RoY(P):
    return _ro(P, model_Y())


def op_RoZ(P):
    return _ro(P, model_Z())


def op_RoW(P):
    return _ro(P, model_W())


def op_RwAsFunc(P):
    """rewrite with an as_function rule over a match whose nodes come from five domains: the extracted function's
    opset imports are a filtered copy of the parent's (ordered) imports, not an iteration over the set of used domains"""
    import onnxscript.rewriter

    _ev(P, "listset", "as_function")
    return _ser(onnxscript.rewriter.rewrite(model_multidomain(), pattern_rewrite_rules=P.singletons["RS_F"]))


def op_RwCheckRaise(P):
    return _rw(P, model_poison("check"))


def op_RwRewriteRaise(P):
    return _rw(P, model_poison("rewrite"))


def _fold(P, model):
    import onnx_ir as ir

    im = ir.serde.deserialize_model(model)
    P.singletons["FOLD"](im)
    return _ir_bytes(im)


def op_FoldA(P):
    return _fold(P, model_fold())


def op_FoldNoop(P):
    return _fold(P, model_noop())


def op_FoldRaise(P):
    return _fold(P, model_fold(poison=True))


def _apply_rule(rule):
    import onnx_ir as ir

    im = ir.serde.deserialize_model(model_muladd())
    n = rule.apply_to_model(im)
    return str(n).encode() + b"|" + _ir_bytes(im)


def op_PatOk(P):
    from onnxscript.rewriter import pattern

    def target(op, x, y):
        _ev(P, "pb_use", "")
        return x * y + y          # operator overloads inside a pattern function: read the builder global

    def repl(op, x, y):
        return op.Mul(op.Add(x, y), y)

    return _apply_rule(pattern.RewriteRule(target, repl))


def op_PatFree(P):
    """a pattern written with operator overloads outside any pattern function: uses the builder global"""
    from onnxscript.rewriter import _pattern_ir, pattern

    x = _pattern_ir.Var("x")
    y = _pattern_ir.Var("y")
    _ev(P, "pb_use", "")
    t = x * y
    out = t + y
    gp = _pattern_ir.GraphPattern([x, y], [out], [t.producer(), out.producer()])
    return _apply_rule(pattern.RewriteRule(gp, lambda op, x, y: op.Mul(op.Add(x, y), y)))


def op_PatRaiseDefault(P):
    from onnxscript.rewriter import pattern

    def target(op, x, y):
        t = op.Mul(x, y)
        raise RuntimeError("c14: pattern construction fails after " + str(t))

    pattern.RewriteRule(target, lambda op, x, y: x)
    return b"accepted"


def op_PatRaiseCustom(P):
    from onnxscript.rewriter import _pattern_ir, pattern

    with pattern.pattern_builder(_pattern_ir.OpsetPatternBuilder("c14.custom")):
        x = _pattern_ir.Var("x")
        _ev(P, "pb_use", "")
        t = x * x
        raise RuntimeError("c14: pattern construction fails after " + str(t))


def op_PmMatch(P):
    import onnx_ir as ir

    im = ir.serde.deserialize_model(model_muladd())
    out = []
    was = P.singletons["PM"]._compiled_pattern is not None
    for node in im.graph:
        r = P.singletons["PM"].match(im, im.graph, node)
        out.append(f"{node.op_type}:{bool(r)}:{sorted(r.bindings) if r else ''}")
    if not was:
        _ev(P, "compiled", "")
    _ev(P, "pm_match", "")
    return ";".join(out).encode()


def op_ConvA(P):
    import onnx_ir as ir

    im = ir.serde.deserialize_model(model_conv())
    _ev(P, "convert", "21")
    P.singletons["CONV"](im)
    return _ir_bytes(im)


def op_ConvRaise(P):
    import onnx_ir as ir

    im = ir.serde.deserialize_model(model_conv())
    P.singletons["CONV_BAD"](im)
    return _ir_bytes(im)


def op_ModBuild(P):
    import onnx_ir as ir

    from onnxscript._internal.builder import GraphBuilder

    x = ir.Value(name="x", type=ir.TensorType(ir.DataType.FLOAT), shape=ir.Shape([1, 3]))
    g = ir.Graph(name="g", inputs=[x], outputs=[], nodes=[], opset_imports={"": 21})
    gb = GraphBuilder(g)
    y = P.singletons["NET"](gb.op, x)
    g.outputs.append(y)
    return _ir_bytes(ir.Model(g, ir_version=10))


def op_EvRaise(P):
    from onnxscript._internal import evaluator

    with evaluator.default_as(evaluator.OnnxReferenceRuntimeEvaluator() if hasattr(evaluator, "OnnxReferenceRuntimeEvaluator") else evaluator.ort_evaluator):
        _ev(P, "ev_enter", "")
        raise RuntimeError("c14: failure while the default evaluator is swapped")


# ---------------------------------------------------------------------------------- state snapshot
def _digest(v):
    try:
        import numpy as np

        if isinstance(v, np.ndarray):
            return f"nd{v.dtype}{v.tolist()}"
    except Exception:  # noqa: BLE001
        pass
    r = repr(v)
    return r if len(r) < 80 else _sha(r.encode())


def _scan():
    """fingerprint of every module-level global and class-level container of the onnxscript package (minus
    the generated opset classes): name -> cheap fingerprint.  Used to detect persistent state the spec does
    not model."""
    import logging
    import types

    out = {}
    for mname, mod in list(sys.modules.items()):
        if mod is None or not (mname == "onnxscript" or mname.startswith("onnxscript.")):
            continue
        if mname.startswith("onnxscript.onnx_opset.") or mname.startswith("onnxscript.function_libs"):
            continue
        for k, v in list(vars(mod).items()):
            if k.startswith("__") or isinstance(v, (types.ModuleType, types.FunctionType, types.BuiltinFunctionType)):
                continue
            if isinstance(v, type):
                if getattr(v, "__module__", None) != mname:
                    continue
                for ck, cv in list(vars(v).items()):
                    if isinstance(cv, (dict, list, set)):
                        out[f"{mname}.{k}.{ck}"] = (id(cv), len(cv))
                continue
            if isinstance(v, (dict, list, set, tuple, frozenset)):
                out[f"{mname}.{k}"] = (id(v), len(v))
            elif isinstance(v, (int, float, str, bool, type(None))):
                out[f"{mname}.{k}"] = v
            elif isinstance(v, logging.Logger):
                continue                     # a logger's level cache is not program state
            else:
                d = getattr(v, "__dict__", None)
                sizes = tuple(sorted((a, len(x)) for a, x in d.items() if isinstance(x, (dict, list, set)))) if isinstance(d, dict) else ()
                out[f"{mname}.{k}"] = (id(v), len(d) if isinstance(d, dict) else -1, sizes)
    return out


MODELLED_GLOBALS = {
    "onnxscript._internal.values.Opset.cache",          # opsetCache
    "onnxscript.rewriter._pattern_ir._pattern_builder",  # patBuilder
    "onnxscript._internal.evaluator._default_evaluator",  # evalDefault
    "onnxscript.onnx_types._tensor_type_shape_cache",     # types
}


def snapshot(P: _Proc) -> dict:
    from onnxscript._internal import evaluator, values
    from onnxscript.rewriter import _pattern_ir

    S = P.singletons
    snap = {}
    from onnxscript import onnx_types

    snap["types"] = sorted(f"{v.__name__}|{k[1]}" for k, v in onnx_types._tensor_type_shape_cache.items() if k not in P.base_types)
    snap["opsets"] = sorted("|".join([getattr(k[0], "__name__", str(k[0]))] + [str(x) for x in k[1:]]) if isinstance(k, tuple) else str(k)
                            for k in values.Opset.cache if k not in P.base_opsets)
    pb = _pattern_ir._pattern_builder
    snap["patBuilder"] = "onnxop" if pb is _pattern_ir.onnxop else "leaked:" + str(pb)
    snap["stash"] = {
        name: {a: _digest(v) for a, v in sorted(vars(inst).items()) if a not in INIT_ATTRS}
        for name, inst in P.tracked.items()
    }
    F = S["FOLD"]
    dirty = bool(F._counts or F._sizes or F._modified or F._state.symbolic_value_map or F._opset_imports)
    snap["fold"] = "dirty" if dirty else "clean"
    snap["compiled"] = S["PM"]._compiled_pattern is not None
    snap["evalDefault"] = "ort" if evaluator.default() is evaluator.ort_evaluator else "other"
    snap["realized"] = sorted(n for n, p in S["NET"].named_parameters() if p._realized)
    g = P.mods.get("c14s_glob")
    snap["decoratedOuter"] = "c14s_outer" in P.mods
    snap["decorated"] = g is not None
    snap["globalsMutated"] = bool(g is not None and g.K != 3)
    now = _scan()
    changed = sorted(k for k, v in now.items() if k in P.scan0 and P.scan0[k] != v and k not in MODELLED_GLOBALS)
    snap["unmodelled"] = changed
    return snap


# -------------------------------------------------------------------------------- instrumentation
def instrument(P: _Proc):
    """record the critical steps (events) of every operation by wrapping the real functions from outside"""
    import contextlib

    from onnxscript._internal import converter, values
    from onnxscript.nn import _parameter
    from onnxscript.optimizer import _constant_folding
    from onnxscript.rewriter import _pattern_ir

    P.events = []
    ev = P.events

    orig_new = values.Opset.__new__

    def new(cls, domain, version):
        key = (cls, domain, version)
        hit = key in cls.cache
        if domain not in ("", "ai.onnx.ml", "ai.onnx.preview.training", "com.microsoft", "ai.onnx.preview") or not hit:
            e = ["opset", cls.__name__, domain, version]
            if e not in ev:
                ev.append(e)
        return orig_new(cls, domain, version)

    values.Opset.__new__ = staticmethod(new)

    from onnxscript import onnx_types

    orig_cgi = onnx_types.TensorType.__dict__["__class_getitem__"].__func__

    def class_getitem(cls, shape):
        if cls.shape is None:
            e = ["typecache", f"{cls.__name__}|{(None,) if shape is None else shape}"]
            if e not in ev:
                ev.append(e)
        return orig_cgi(cls, shape)

    onnx_types.TensorType.__class_getitem__ = classmethod(class_getitem)

    orig_tr = converter.Converter.translate_function_def

    def translate_function_def(self, fn):
        ev.append(["translate", fn.name])
        try:
            r = orig_tr(self, fn)
        except BaseException:
            ev.append(["translate_raise", fn.name])
            raise
        ev.append(["translated", fn.name])
        return r

    converter.Converter.translate_function_def = translate_function_def

    orig_reset = _constant_folding.FoldConstantsPass._reset
    orig_call = _constant_folding.FoldConstantsPass.call
    fold = P.singletons["FOLD"]

    def _reset(self):
        if self is fold:
            ev.append(["fold_reset"])
        return orig_reset(self)

    def call(self, model):
        if self is not fold:
            return orig_call(self, model)
        try:
            r = orig_call(self, model)
        except BaseException:
            ev.append(["fold_raise"])
            raise
        ev.append(["fold_done"])
        return r

    _constant_folding.FoldConstantsPass._reset = _reset
    _constant_folding.FoldConstantsPass.call = call

    orig_get = _constant_folding.ReferenceEvaluator.get_evaluator

    def get_evaluator(self, domain, op, version):
        e = ["refop", op if not domain else f"{domain}::{op}", str(version)]
        if e not in ev:
            ev.append(e)
        return orig_get(self, domain, op, version)

    _constant_folding.ReferenceEvaluator.get_evaluator = get_evaluator

    orig_pb = _pattern_ir.pattern_builder

    @contextlib.contextmanager
    def pattern_builder(builder):
        ev.append(["pb_enter", str(builder)])
        with orig_pb(builder):
            yield
        ev.append(["pb_exit"])

    _pattern_ir.pattern_builder = pattern_builder
    from onnxscript.rewriter import pattern as _pattern_mod

    _pattern_mod.pattern_builder = pattern_builder

    orig_realize = _parameter.Parameter._realize

    def _realize(self, builder):
        before = self._realized
        r = orig_realize(self, builder)
        ev.append(["realize", self.name, "skipped" if before else "registered"])
        return r

    _parameter.Parameter._realize = _realize

    # rule objects: which fields check() writes and rewrite() reads
    cur = {"phase": None, "reads": None, "writes": None}
    for name, rule in P.singletons["tracked_rules"]:
        inst = P.tracked[name]
        base = type(inst)

        def mk(base):
            class Traced(base):
                def __setattr__(self, k, v):
                    if cur["phase"] and k not in INIT_ATTRS and cur["writes"] is not None and k not in cur["writes"]:
                        cur["writes"].append(k)
                    object.__setattr__(self, k, v)

                def __getattribute__(self, k):
                    if k[:1] == "_" and k[:2] != "__" and k not in INIT_ATTRS and cur["phase"] and cur["reads"] is not None:
                        if k in object.__getattribute__(self, "__dict__") and k not in cur["reads"] and k not in (cur["writes"] or ()):
                            cur["reads"].append(k)
                    return object.__getattribute__(self, k)

            Traced.__name__ = base.__name__
            Traced.__qualname__ = base.__qualname__
            return Traced

        inst.__class__ = mk(base)

        def wrap(rule=rule, name=name):
            check = rule._condition_function
            rew = rule._replacement_pattern._function

            def check_w(*a, **kw):
                cur.update(phase="check", reads=[], writes=[])
                try:
                    r = check(*a, **kw)
                except BaseException:
                    ev.append(["check", name, "raise", list(cur["writes"]), list(cur["reads"])])
                    cur.update(phase=None)
                    raise
                ev.append(["check", name, "ok" if r else "fail", list(cur["writes"]), list(cur["reads"])])
                cur.update(phase=None)
                return r

            def rew_w(*a, **kw):
                cur.update(phase="rewrite", reads=[], writes=[])
                try:
                    r = rew(*a, **kw)
                except BaseException:
                    ev.append(["rewrite", name, "raise", list(cur["writes"]), list(cur["reads"])])
                    cur.update(phase=None)
                    raise
                ev.append(["rewrite", name, "ok", list(cur["writes"]), list(cur["reads"])])
                cur.update(phase=None)
                return r

            rule._condition_function = check_w
            rule._replacement_pattern._function = rew_w

        wrap()


# ------------------------------------------------------------------------------------ run history
def proc_init(srcdir, instrumented=False) -> _Proc:
    import logging
    import warnings

    warnings.simplefilter("ignore")
    logging.disable(logging.CRITICAL)
    preimport()
    from onnxscript._internal import values

    P = _Proc(srcdir)
    make_singletons(P)
    if instrumented:
        instrument(P)
    from onnxscript import onnx_types

    P.base_types = set(onnx_types._tensor_type_shape_cache)
    P.base_opsets = set(values.Opset.cache)
    P.scan0 = _scan()
    return P


def run_history(P: _Proc, hist, keep_dir=None) -> list:
    out = []
    for i, opname in enumerate(hist):
        if P.events is not None:
            del P.events[:]
        rec = {"op": opname}
        P.flags = {}
        try:
            b = globals()["op_" + opname](P)
            rec["r"] = _sha(b)
            if keep_dir:
                with open(os.path.join(keep_dir, f"{i}_{opname}.bin"), "wb") as f:
                    f.write(b)
        except Exception as e:  # noqa: BLE001
            rec["r"] = "raise:" + type(e).__name__
            rec["msg"] = str(e)[:160]
            _ev(P, "raise", type(e).__name__)
        if P.flags:
            rec["flags"] = dict(P.flags)
        rec["snap"] = snapshot(P)
        if P.events is not None:
            rec["events"] = [list(e) for e in P.events]
        out.append(rec)
    return out


def zygote_main(jobfile):
    """entry point of the observed interpreter.  job = {srcdir, histories: [[op...]...], fork: bool, par: int,
    instrument: bool, out: path, timeout: s, keep: dir|None}"""
    with open(jobfile) as f:
        job = json.load(f)
    P = proc_init(job["srcdir"], job.get("instrument", False))
    hists = job["histories"]
    results = [None] * len(hists)
    if not job.get("fork", True):
        for i, h in enumerate(hists):
            results[i] = run_history(P, h, job.get("keep"))
    else:
        par = int(job.get("par", 4))
        timeout = float(job.get("timeout", 120))
        running = {}   # pid -> (index, read fd, start)
        nxt = 0
        hangs = 0
        import select

        bufs = {}
        while nxt < len(hists) or running:
            while nxt < len(hists) and len(running) < par:
                r, w = os.pipe()
                pid = os.fork()
                if pid == 0:
                    os.close(r)
                    try:
                        res = run_history(P, hists[nxt], job.get("keep"))
                        data = json.dumps(res).encode()
                    except BaseException as e:  # noqa: BLE001
                        data = json.dumps({"error": f"{type(e).__name__}: {e}"}).encode()
                    with os.fdopen(w, "wb") as fw:
                        fw.write(data)
                    os._exit(0)
                os.close(w)
                running[pid] = (nxt, r, time.time())
                bufs[pid] = b""
                nxt += 1
            fds = {r: pid for pid, (_, r, _) in running.items()}
            ready, _, _ = select.select(list(fds), [], [], 0.5)
            for r in ready:
                pid = fds[r]
                chunk = os.read(r, 1 << 20)
                if chunk:
                    bufs[pid] += chunk
                    continue
                idx = running[pid][0]
                os.close(r)
                os.waitpid(pid, 0)
                del running[pid]
                try:
                    results[idx] = json.loads(bufs.pop(pid).decode())
                except Exception:  # noqa: BLE001
                    results[idx] = {"error": "child died without a result"}
            now = time.time()
            for pid, (idx, r, t0) in list(running.items()):
                if now - t0 > (timeout if hangs == 0 else min(timeout, 30.0)):   # after a first hang do not wait as long again
                    hangs += 1
                    try:
                        os.kill(pid, 9)
                        os.waitpid(pid, 0)
                    except OSError:
                        pass
                    os.close(r)
                    del running[pid]
                    bufs.pop(pid, None)
                    results[idx] = {"error": "HANG"}
    with open(job["out"], "w") as f:
        json.dump({"hashseed": os.environ.get("PYTHONHASHSEED"), "results": results}, f)


# =================================================================================================
# PART 2 - the harness proper (runs in the ./check process)
# =================================================================================================
_LAUNCH = "import sys; sys.path.insert(0, sys.argv[2]); from harness import c14; c14.zygote_main(sys.argv[1])"
# deviation ids of spec/History.tla (RealDevs) that the implementation model needs on the current tree:
#   builder_leak          pattern_builder() has no try/finally: an exception inside `with pattern_builder(b)` leaves
#                         _pattern_builder = b; later `x + y` value patterns are built in b's domain
#   realized_sticky       nn.Parameter._realized is per object, not per builder: a module tree built into a second
#                         graph registers no initializers
#   global_array_aliased  a numpy array global used as a script-time constant is wrapped, not copied: mutating it in
#                         place after decoration changes to_model_proto()/to_function_proto()


def _workdir():
    d = core.scratch_sub("c14")
    src = os.path.join(d, "src")
    if not os.path.isdir(src):
        os.makedirs(src)
        for k, v in SCRIPT_SOURCES.items():
            with open(os.path.join(src, k + ".py"), "w") as f:
                f.write(v)
    return d, src


_JOBN = [0]


def run_interpreter(seed, histories, *, fork=True, instrument_=False, par=4, keep=None, timeout=900):
    """start ONE interpreter with PYTHONHASHSEED=seed; fork=False: the histories run in it one after the
    other (used with a single history: a really fresh process); fork=True: every history runs in its own
    forked copy of the freshly imported interpreter.  Returns the list of per-history results."""
    d, src = _workdir()
    _JOBN[0] += 1
    tag = f"{os.getpid()}_{_JOBN[0]}_{seed}_{random.getrandbits(32):08x}"
    jobfile = os.path.join(d, f"job_{tag}.json")
    out = os.path.join(d, f"out_{tag}.json")
    with open(jobfile, "w") as f:
        json.dump({"srcdir": src, "histories": histories, "fork": fork, "par": par, "instrument": instrument_,
                   "out": out, "timeout": 120, "keep": keep}, f)
    env = dict(os.environ, PYTHONHASHSEED=str(seed))
    env.pop("ONNXSCRIPT_VERIF", None)
    try:
        p = subprocess.run([sys.executable, "-c", _LAUNCH, jobfile, core.VERIF], env=env, capture_output=True, text=True, timeout=timeout)
    except subprocess.TimeoutExpired as ex:
        raise core.MachineryError(f"observed interpreter (seed {seed}) did not finish within {timeout}s") from ex
    if p.returncode != 0 or not os.path.exists(out):
        raise core.MachineryError(f"observed interpreter failed (rc={p.returncode}, seed {seed}):\n{p.stderr[-2000:]}")
    with open(out) as f:
        res = json.load(f)["results"]
    os.remove(jobfile)
    os.remove(out)
    return res


def _threads(fn, items, workers):
    from concurrent.futures import ThreadPoolExecutor

    with ThreadPoolExecutor(max_workers=workers) as ex:
        return list(ex.map(fn, items))


# ------------------------------------------------------------------------ catalogue from recordings
def normalise_events(op, raw, solo):
    """raw recorded events -> the uniform records of spec/History.tla (k, a, b, ws, rs, cond).  solo=True adds
    the conditions under which an event is absent in a later call (only when the script is not yet decorated /
    the pattern not yet compiled)"""
    out = []
    marker = None
    if solo and op in ("ProtoGlob", "MutGlob", "ProtoOuter17", "ProtoOuter19"):
        marker = next((i for i, e in enumerate(raw) if e[0] == "ensured"), None)
    if solo and op == "PmMatch":
        marker = next((i for i, e in enumerate(raw) if e[0] == "pm_match"), None)
    for i, e in enumerate(raw):
        k = e[0]
        rec = {"k": k, "a": "", "b": "", "ws": [], "rs": [], "cond": ""}
        if k == "ensured":
            continue
        if k == "opset":
            rec["a"] = f"{e[1]}|{e[2]}|{e[3]}"
        elif k in ("check", "rewrite"):
            rec["a"], rec["b"] = e[1], e[2]
            if k == "check":
                rec["ws"] = list(e[3])
                if e[2] == "fail" and not e[3]:
                    continue            # a refusal that wrote nothing: no critical step
            else:
                rec["rs"] = list(e[4])
        elif k == "realize":
            rec["a"] = e[1]
            rec["out"] = e[2]
        else:
            if len(e) > 1:
                rec["a"] = str(e[1])
            if len(e) > 2:
                rec["b"] = str(e[2])
        if marker is not None and i < marker:
            rec["cond"] = "undecorated" if op in ("ProtoGlob", "MutGlob") else "noouter" if op.startswith("ProtoOuter") else "uncompiled"
        out.append(rec)
    return out


def expected_events(cat, opres):
    """the events History.tla says this call performs: catalogue minus skipped steps, with the outcomes it computed"""
    skips = set(opres["skips"])
    evs = [dict(e) for i, e in enumerate(cat[opres["op"]], 1) if i not in skips]
    outs = list(opres["outs"])
    for e in evs:
        e.pop("cond", None)
        if e["k"] == "realize":
            e["out"] = outs.pop(0) if outs else "?"
    return evs


def strip_cond(evs):
    out = []
    for e in evs:
        e = dict(e)
        e.pop("cond", None)
        out.append(e)
    return out


# -------------------------------------------------------------------------------------- TLC runs
def tlc_cases(ctx, cfg, label, catfile, simulate=None, depth=None, timeout=3000, workers="auto"):
    res = core.run_tlc("History", cfg, env={"C14_CAT": catfile}, simulate=simulate, depth=depth,
                       seed=(ctx.seed + 1 if simulate else None), timeout=timeout, workers=workers)
    if res.violated or (not res.ok and not simulate):
        raise core.MachineryError(f"TLC reports {res.violated} on {cfg}:\n{res.out[-2500:]}")
    cases = {}
    for pr in res.printed:
        if pr and pr[0] == "CASE":
            c = json.loads(pr[1])
            cases.setdefault(tuple(c["hist"]), c)
    return res, list(cases.values())


def snap_mismatch(model, real):
    """compare the spec's process state after a call with the snapshot of the real process"""
    diffs = []
    if sorted(model["opsets"]) != real["opsets"]:
        diffs.append(f"Opset.cache additions model={sorted(model['opsets'])} real={real['opsets']}")
    if sorted(model["types"]) != real["types"]:
        diffs.append(f"tensor type cache additions model={sorted(model['types'])} real={real['types']}")
    rpb = real["patBuilder"]
    mpb = "onnxop" if model["pbDefault"] else "leaked:" + model["pbDom"]
    if rpb != mpb:
        diffs.append(f"_pattern_builder model={mpb} real={rpb}")
    mst = sorted((r, a) for r, a in model["stash"])
    rst = sorted((r, a) for r, d in real["stash"].items() for a in d)
    if mst != rst:
        diffs.append(f"rule fields model={mst} real={rst}")
    if model["compiled"] != real["compiled"]:
        diffs.append(f"compiled pattern model={model['compiled']} real={real['compiled']}")
    if (model["fold"] == "clean") != (real["fold"] == "clean"):
        diffs.append(f"FoldConstantsPass state model={model['fold']} real={real['fold']}")
    if model["eval"] != real["evalDefault"]:
        diffs.append(f"default evaluator model={model['eval']} real={real['evalDefault']}")
    if sorted(model["realized"]) != real["realized"]:
        diffs.append(f"realized parameters model={sorted(model['realized'])} real={real['realized']}")
    if model["decorated"] != real["decorated"] or bool(model["gver"]) != real["globalsMutated"]:
        diffs.append(f"script module model=(decorated {model['decorated']}, mutated {model['gver']}) real=({real['decorated']}, {real['globalsMutated']})")
    if model["odec"] != real["decoratedOuter"]:
        diffs.append(f"second script module decorated model={model['odec']} real={real['decoratedOuter']}")
    if real["unmodelled"]:
        diffs.append(f"persistent state the spec does not model changed: {real['unmodelled']}")
    return diffs


def hash_seeds(ctx):
    rng = random.Random(ctx.seed * 7919 + 14)
    seeds = [0, 1, 2, rng.randrange(3, 2**32 - 1)]
    if not ctx.quick:
        seeds += [rng.randrange(3, 2**32 - 1) for _ in range(4)]
    return seeds


def run(ctx: core.Ctx):
    rng = random.Random(ctx.seed)
    seeds = hash_seeds(ctx)
    d, _ = _workdir()
    t0 = time.time()

    # ---- (1) design-level TLC runs + recordings of every operation alone, concurrently
    def design_runs(cfgs):
        return [(cfg, core.run_tlc("History", cfg, timeout=1500, workers=4 if ctx.quick else 8)) for cfg in cfgs]

    design_cfgs = [["History_design.cfg", "History_vacuity.cfg"], ["History_impl.cfg", "History_vacuity_seed.cfg", "History_vacuity_regr.cfg"]]
    if not ctx.quick:
        design_cfgs += [["History_design_thorough.cfg"], ["History_design3.cfg"]]

    def solo_fresh(arg):
        seed, op = arg
        return run_interpreter(seed, [[op]], fork=False)[0]

    def solo_recorded(_):
        return run_interpreter(0, [[op] for op in OPS], fork=True, instrument_=True, par=4)

    fresh_jobs = [(0, op) for op in OPS] + [(s, op) for s in seeds[1:] for op in ("TrCtl", "TrGlob", "OptB", "RwAsFunc")]
    from concurrent.futures import ThreadPoolExecutor

    with ThreadPoolExecutor(max_workers=core.NCPU + 2) as ex:
        f_design = [ex.submit(design_runs, cfgs) for cfgs in design_cfgs]
        f_rec = ex.submit(solo_recorded, None)
        f_fresh = list(ex.map(solo_fresh, fresh_jobs))
        recorded = f_rec.result()
        designs = [x for f in f_design for x in f.result()]
    phases = {"fresh+design": round(time.time() - t0, 1)}
    for cfg, res in designs:
        ctx.tlc(res, cfg)
        if (cfg.startswith("History_design") or cfg == "History_impl.cfg") and not res.ok:
            raise core.MachineryError(f"design-level process model violates {res.violated} ({cfg}):\n{res.out[-2000:]}")
        if cfg.startswith("History_vacuity") and res.violated != "HistoryIndependent":
            raise core.MachineryError(f"vacuity: HistoryIndependent cannot fail in {cfg} (got {res.violated})")

    # ---- (2) reference results: every operation alone in a really fresh interpreter
    ref = {}
    fresh_by = {}
    for (seed, op), r in zip(fresh_jobs, f_fresh):
        if isinstance(r, dict):
            raise core.MachineryError(f"fresh interpreter for {op}: {r}")
        fresh_by[(seed, op)] = r[0]
        ctx.add("evaluations")
        if seed == 0:
            ref[op] = r[0]["r"]
    for (seed, op), r in fresh_by.items():
        if r["r"] != ref[op]:
            ctx.report({"history": [op], "position": 0, "op": op, "hashseed": seed, "got": r["r"], "fresh": ref[op], "kind": "hashseed"},
                       f"{op} alone in a fresh interpreter gives {r['r']} under PYTHONHASHSEED={seed} but {ref[op]} under PYTHONHASHSEED=0",
                       finding=None)
    # recorded catalogue
    cat = {}
    for op, r in zip(OPS, recorded):
        if isinstance(r, dict):
            raise core.MachineryError(f"recording {op}: {r}")
        cat[op] = normalise_events(op, r[0]["events"], solo=True)
        if r[0]["r"] != ref[op]:
            # instrumentation must be an observer; if it is not, the recordings describe another program
            raise core.MachineryError(f"instrumented run of {op} gives {r[0]['r']}, plain fresh run {ref[op]}")
    catfile = os.path.join(d, "cat.json")
    core.write_tlc_json(catfile, {op: [{k: v for k, v in e.items() if k != "out"} for e in evs] for op, evs in cat.items()})
    ctx.set("catalogue_events", {op: len(evs) for op, evs in cat.items()})

    # ---- (3) TLC on the recorded catalogue: histories, predictions, state after every call
    runs = [("History_pairs.cfg", None, None), ("History_rules.cfg", None, None)]
    if ctx.quick:
        runs += [("History_quick.cfg", None, None), ("History_sim.cfg", "num=30", 400)]
    else:
        runs += [("History_thorough.cfg", None, None), ("History_quick4.cfg", None, None), ("History_sim.cfg", "num=150", 400)]

    def do_tlc(r):
        cfg, sim, depth = r
        return tlc_cases(ctx, cfg, cfg, catfile, simulate=sim, depth=depth, workers=("auto" if not ctx.quick else 6))

    t1 = time.time()
    tl = _threads(do_tlc, runs, 4 if ctx.quick else 1)
    phases["tlc_recorded"] = round(time.time() - t1, 1)
    cases_by = {}
    for (cfg, sim, _), (res, cases) in zip(runs, tl):
        ctx.tlc(res, cfg + (" (simulate)" if sim else ""))
        cases_by[cfg] = cases
    if not cases_by["History_pairs.cfg"]:
        raise core.MachineryError("TLC printed no history")
    allcases = [c for cfg in cases_by for c in cases_by[cfg]]
    # vacuity witnesses on the implementation model
    if not any(r["touch"] for c in allcases for r in c["res"]):
        raise core.MachineryError("vacuity: no operation touches state written by an earlier one")
    if not any(r["skips"] for c in allcases for r in c["res"]):
        raise core.MachineryError("vacuity: no conditional step is ever skipped")
    predicted = {w for c in allcases for r in c["res"] for w in r["why"]}
    ctx.set("model_predicted_deviations", sorted(predicted))
    if "UNEXPLAINED" in predicted:
        bad = next(c for c in allcases if any("UNEXPLAINED" in r["why"] for r in c["res"]))
        print(f"SPEC-MISMATCH C14: the recorded steps make the process model history-dependent without a named deviation, e.g. {bad['hist']}: "
              f"{[r['op'] for r in bad['res'] if 'UNEXPLAINED' in r['why']]}", flush=True)
        ctx.add("model_impl_mismatches")

    # ---- (4) select histories to replay
    def flows(c):
        return sum(len(r["touch"]) for r in c["res"])

    def dev(c):
        return any(r["why"] for r in c["res"])

    selected = []
    pairs = cases_by["History_pairs.cfg"]
    selected += [(c, "all" if dev(c) or not ctx.quick else "two") if (flows(c) or dev(c)) else (c, "one") for c in pairs]
    for cfg in cases_by:
        if cfg == "History_pairs.cfg":
            continue
        cs = list(cases_by[cfg])
        if cfg == "History_sim.cfg":
            selected += [(c, "two") for c in cs]
            continue
        rng.shuffle(cs)
        if cfg == "History_rules.cfg":
            if ctx.quick:       # all orders of three over the rule catalogue: the ones with most state flowing between the calls first
                cs = sorted(cs, key=flows, reverse=True)[:450] + rng.sample(cs, 150)
        elif ctx.quick:
            devs = [c for c in cs if dev(c)][:40]
            rest = sorted([c for c in cs if not dev(c)], key=flows, reverse=True)
            cs = devs + rest[:120] + rng.sample(rest[120:], min(60, len(rest[120:])))
        elif cfg == "History_quick4.cfg":
            devs = [c for c in cs if dev(c)][:300]
            rest = sorted([c for c in cs if not dev(c)], key=flows, reverse=True)
            cs = devs + rest[:1000] + rng.sample(rest[1000:], min(400, len(rest[1000:])))
        elif len(cs) > 16000:      # all triples of the full alphabet: every one that has a flow or a predicted difference, the rest sampled
            hot = [c for c in cs if dev(c) or flows(c)]
            cold = [c for c in cs if not (dev(c) or flows(c))]
            hot = hot if len(hot) <= 16000 else sorted(hot, key=flows, reverse=True)[:16000]
            cs = hot + rng.sample(cold, min(len(cold), max(0, 16000 - len(hot))))
        selected += [(c, "one") for c in cs]
    ctx.set("spec_histories", len(allcases))
    ctx.set("replayed_histories", len(selected))

    per_seed = {s: [] for s in seeds}
    for n, (c, how) in enumerate(selected):
        if how == "all":
            use = seeds
        elif how == "two":
            use = [seeds[n % len(seeds)], seeds[(n + 1) % len(seeds)]]
        else:
            use = [seeds[n % len(seeds)]]
        for s in use:
            per_seed[s].append(c)
    # every operation alone in the forked interpreter of every seed (ties the zygote to the fresh references)
    solo = [{"hist": [op], "res": None} for op in OPS]
    # a sample is replayed with the critical functions wrapped: the recorded steps are validated against the model
    inst = [c for c, _ in selected if flows(c) or dev(c)]
    rng.shuffle(inst)
    inst = inst[: (120 if ctx.quick else 1500)]

    def replay_seed(s):
        hs = [c["hist"] for c in solo] + [c["hist"] for c in per_seed[s]]
        par = max(2, core.NCPU // len(seeds))
        chunks = [hs]
        if not ctx.quick and len(hs) > 4000:
            chunks = [hs[i:i + 4000] for i in range(0, len(hs), 4000)]
        out = []
        for ch in chunks:
            out += run_interpreter(s, ch, fork=True, par=par, timeout=3000)
        return out

    def replay_inst(_):
        return run_interpreter(seeds[1], [c["hist"] for c in inst], fork=True, instrument_=True, par=4, timeout=3000)

    t1 = time.time()
    with ThreadPoolExecutor(max_workers=len(seeds) + 1) as ex:
        f_inst = ex.submit(replay_inst, None)
        seed_results = list(ex.map(replay_seed, seeds))
        inst_results = f_inst.result()
    phases["replay"] = round(time.time() - t1, 1)
    ctx.set("phase_s", phases)

    # ---- (5) verdicts
    nontriv = set()
    mism = 0
    hangs = 0

    def judge(c, real, seed):
        nonlocal mism, hangs
        hist = c["hist"]
        if isinstance(real, dict):
            if real.get("error") == "HANG":
                hangs += 1
                ctx.report({"history": hist, "hashseed": seed, "kind": "hang"}, f"history {hist} does not terminate (PYTHONHASHSEED={seed})")
                return
            raise core.MachineryError(f"replay of {hist} failed: {real}")
        for i, rr in enumerate(real):
            ctx.add("evaluations")
            op = rr["op"]
            model = c["res"][i] if c["res"] else None
            same = rr["r"] == ref[op]
            if rr.get("flags", {}).get("not_idempotent"):
                ctx.report({"history": hist[: i + 1], "position": i, "op": op, "hashseed": seed, "kind": "idempotence", "detail": rr["flags"]["not_idempotent"]},
                           f"{op} after {hist[:i]}: repeated to_model_proto()/to_function_proto() calls differ: {rr['flags']['not_idempotent']}")
            if i > 0:
                nontriv.add((tuple(hist[:i]), op))
            if not same:
                finding = None
                if model is not None and not model["same"] and "UNEXPLAINED" not in model["why"]:
                    finding = sorted(model["why"])[0]
                ctx.report({"history": hist[: i + 1], "position": i, "op": op, "hashseed": seed, "got": rr["r"], "fresh": ref[op],
                            "model": model and {"same": model["same"], "why": model["why"]}, "kind": "history" if i else "process"},
                           f"{op} after {hist[:i]} (PYTHONHASHSEED={seed}) gives {rr['r']}; alone in a fresh interpreter it gives {ref[op]}"
                           + (f" [model: {model['why']}]" if model and model["why"] else ""), finding=finding)
            elif model is not None and not model["same"]:
                mism += 1
                if mism <= 10:
                    print(f"SPEC-MISMATCH C14 result: model predicts {op} after {hist[:i]} differs ({model['why']}), implementation gives the fresh result", flush=True)
            if model is not None:
                for dmsg in snap_mismatch(model["snap"], rr["snap"]):
                    mism += 1
                    if mism <= 10:
                        print(f"SPEC-MISMATCH C14 state after {hist[: i + 1]}: {dmsg}", flush=True)

    for s, results in zip(seeds, seed_results):
        cs = solo + per_seed[s]
        for c, real in zip(cs, results):
            judge(c, real, s)
    # instrumented replays: recorded steps vs the model's steps
    validated = 0
    for c, real in zip(inst, inst_results):
        if isinstance(real, dict):
            raise core.MachineryError(f"instrumented replay of {c['hist']} failed: {real}")
        ok = True
        for i, rr in enumerate(real):
            exp = expected_events(cat, c["res"][i])
            got = strip_cond(normalise_events(rr["op"], rr["events"], solo=False))
            if exp != got:
                ok = False
                mism += 1
                if mism <= 10:
                    k = next((j for j, (a, b) in enumerate(zip(exp, got)) if a != b), min(len(exp), len(got)))
                    print(f"SPEC-MISMATCH C14 steps of {rr['op']} after {c['hist'][:i]}: step {k + 1} model={exp[k] if k < len(exp) else None} "
                          f"real={got[k] if k < len(got) else None}", flush=True)
            if rr["r"] != ref[rr["op"]] and c["res"][i]["same"]:
                ctx.report({"history": c["hist"][: i + 1], "position": i, "op": rr["op"], "hashseed": seeds[1], "got": rr["r"], "fresh": ref[rr["op"]], "kind": "history"},
                           f"{rr['op']} after {c['hist'][:i]} (PYTHONHASHSEED={seeds[1]}) gives {rr['r']}; alone in a fresh interpreter it gives {ref[rr['op']]}")
        validated += ok
    ctx.add("traces_validated_against_impl", validated + len(OPS))
    ctx.set("model_impl_mismatches", mism + int(ctx.coverage.get("model_impl_mismatches", 0)))
    ctx.set("distinct_nontrivial", len(nontriv))
    ctx.set("hash_seeds", seeds)
    ctx.set("fresh_interpreters", len(fresh_jobs))
    for c, _ in selected[:3] + selected[-2:]:
        ctx.sample({"history": c["hist"], "model": [{"op": r["op"], "same": r["same"], "why": r["why"], "touch": r["touch"]} for r in c["res"]]})
    ctx.set("exhaustive", False)
    ctx.set("rule", "a case = (history, target): the target operation executed after the history in one interpreter; non-trivial = non-empty history, "
                    "distinct by (history prefix, target); all ordered pairs of the 24 operations, sampled/ranked triples (quadruples in thorough) "
                    "and simulated histories of length 8 from History.tla; evaluations = operation results compared byte-wise (sha1) with the fresh-interpreter result")
    ctx.assumptions += [
        "a forked copy of an interpreter that has only imported onnxscript is equivalent to a freshly started one (checked: every operation alone gives the fresh result in every forked interpreter)",
        "history independence is judged on the 24 catalogued operations (scripts, models, rule set, passes, module tree of harness/c14.py), not on arbitrary programs",
        "eager-mode execution after mutating globals is not judged (documented divergence); 'later calls' is read as later to_model_proto/to_function_proto calls",
        "exception messages are not compared, only the exception type of refused operations",
        "the torch_lib registry's warn-once state and GraphBuilder._constant_cache (per builder) are not part of the process model",
    ]


def replay(ctx, path):
    with open(path) as f:
        case = json.load(f)["case"]
    hist = case["history"]
    seed = case.get("hashseed", 0)
    d, _ = _workdir()
    keep_h = os.path.join(d, "keep_hist")
    keep_f = os.path.join(d, "keep_fresh")
    os.makedirs(keep_h, exist_ok=True)
    os.makedirs(keep_f, exist_ok=True)
    real = run_interpreter(seed, [hist], fork=False, keep=keep_h)[0]
    fresh = run_interpreter(0, [[hist[-1]]], fork=False, keep=keep_f)[0]
    print(json.dumps({"history": hist, "hashseed": seed, "results": [(r["op"], r["r"], r.get("msg", "")) for r in real],
                      "fresh": (fresh[0]["op"], fresh[0]["r"])}, indent=1))
    bad = real[-1]["r"] != fresh[0]["r"]
    if bad and not real[-1]["r"].startswith("raise") and not fresh[0]["r"].startswith("raise"):
        a = open(os.path.join(keep_h, f"{len(hist) - 1}_{hist[-1]}.bin"), "rb").read()
        b = open(os.path.join(keep_f, f"0_{hist[-1]}.bin"), "rb").read()
        k = next((i for i, (x, y) in enumerate(zip(a, b)) if x != y), min(len(a), len(b)))
        print(f"first differing byte at {k}: after history {a[max(0, k - 40):k + 40]!r}\n                           fresh {b[max(0, k - 40):k + 40]!r}")
    return 1 if bad else 0
