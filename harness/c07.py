"""C07 - applying a rewrite replaces only the match and leaves a valid, equivalent graph.

spec/Rewrite.tla derives host models (instances, overlapping instances, near misses at every nesting
level: main graph, If/Loop bodies, a model-local function) for generated rule sets whose replacement
equals the pattern by construction, and runs a step-by-step model of the engine
(RewriteRuleSet.apply_to_model / _apply_to_graph_or_function / rewrite()) on each of them.  TLC checks
the design (no deviations) against the property and prints, for the implementation model (with the
named deviations), one finished case per host: original model, predicted final model, predicted
number of applications, the exact value table, which deviations were needed.

This harness rebuilds every case as a real ModelProto plus real RewriteRule objects, runs
apply_to_model() and rewrite(), and compares
  * implementation vs PROPERTY: no exception, ONNX checker, scope/def-use/imports (spec/Graph.tla via
    GraphCheck on the real proto), execution on ONNX Runtime before/after on every input of the spec's
    input set, graph signature, frame (unmatched live nodes and their metadata, initializers),
    progress (an applicable instance => count >= 1)                                   -> VIOLATION
  * implementation vs MODEL: count, final graph isomorphic to the spec's final graph (node order,
    operators, wiring, functions, overloads, opset imports, initializers)              -> SPEC-MISMATCH
"""
from __future__ import annotations

import json
import random

from . import core, rwtrace

LEVEL = "model_checking"

INPUTS = [(-2, -1, 1), (-2, -1, 0), (-2, 5, 1), (-2, 5, 0), (3, -1, 1), (3, -1, 0), (3, 5, 1), (3, 5, 0)]   # = InputSeq of Rewrite.tla
RULE_TAG = "pkg.onnxscript.rewriter.rule_name"


# ------------------------------------------------------------------------------------------------
# gamma: abstract case -> real model and real rules
# ------------------------------------------------------------------------------------------------
VEC = [set()]   # hosts of the Mul1v family (the constant "one1" of shape [1]): names of the values that have shape [1]


def _vi(name, kind, out=False):
    import onnx
    from onnx import TensorProto, helper

    t = {"f": TensorProto.FLOAT, "b": TensorProto.BOOL, "i": TensorProto.INT64}[kind]
    return helper.make_tensor_value_info(name, t, [1] if (out and name in VEC[0]) else [])


def _init(name, k):
    import numpy as np
    from onnx import numpy_helper

    if name == "one1":      # the constant 1 of shape [1]: NOT what the scalar 1 of a pattern denotes
        arr = np.array([k], dtype=np.float32)
    elif name == "trip":
        arr = np.array(k, dtype=np.int64)
    elif name == "ctrue":
        arr = np.array(bool(k))
    else:
        arr = np.array(k, dtype=np.float32)
    return numpy_helper.from_array(arr, name)


def _nodes(gj):
    from onnx import helper

    out = []
    for n in gj["nodes"]:
        attrs = {}
        if n["op"] == "If":
            attrs["then_branch"] = _graph(n["subs"][0], "then" + str(n["id"]))
            attrs["else_branch"] = _graph(n["subs"][1], "else" + str(n["id"]))
        elif n["op"] == "Loop":
            attrs["body"] = _graph(n["subs"][0], "body" + str(n["id"]))
        op = "Identity" if n["op"] == "IdentityB" else n["op"]
        nd = helper.make_node(op, list(n["ins"]), [n["out"]] + ([n["out2"]] if n.get("out2") else []), name="N_" + n["src"], domain=n["dom"], **attrs)
        if n["ovl"]:
            nd.overload = n["ovl"]
        p = nd.metadata_props.add()
        p.key, p.value = "src", n["src"]
        out.append(nd)
    return out


def _graph(gj, name):
    from onnx import helper

    kind = gj["kind"]
    if kind == "loop":
        ins = [_vi(gj["ins"][0], "i"), _vi(gj["ins"][1], "b"), _vi(gj["ins"][2], "f")]
        outs = [_vi(gj["outs"][0], "b"), _vi(gj["outs"][1], "f")]
    elif kind == "main":
        ins = [_vi(gj["ins"][0], "f"), _vi(gj["ins"][1], "f"), _vi(gj["ins"][2], "b")]
        outs = [_vi(o, "f", out=True) for o in gj["outs"]]
    else:
        ins = []
        outs = [_vi(o, "f", out=True) for o in gj["outs"]]
    return helper.make_graph(_nodes(gj), name, ins, outs, initializer=[_init(i["name"], i["k"]) for i in gj["inits"]])


def build_model(mj):
    from onnx import helper

    VEC[0] = set()
    if any(i["name"] == "one1" for i in mj["graph"]["inits"]):   # (these hosts have no nested graphs)
        VEC[0] = {"one1"}
        for n in mj["graph"]["nodes"]:
            if any(i in VEC[0] for i in n["ins"]):
                VEC[0].add(n["out"])
    g = _graph(mj["graph"], "main")
    fns = []
    for f in mj["funcs"]:
        dom, name, ovl = f["fid"]
        fp = helper.make_function(dom, name, list(f["graph"]["ins"]), list(f["graph"]["outs"]), _nodes(f["graph"]),
                                  opset_imports=[helper.make_opsetid(d, v) for d, v in f["imports"]])
        if ovl:
            fp.overload = ovl
        fns.append(fp)
    m = helper.make_model(g, opset_imports=[helper.make_opsetid(d, v) for d, v in mj["imports"]], functions=fns, ir_version=10)
    return m


def make_rule(name):
    import numpy as np
    import onnx_ir as ir
    from onnxscript.rewriter import pattern as P

    if name in ("negneg", "keep"):
        return P.RewriteRule(lambda op, x: op.Neg(op.Neg(x)), lambda op, x: op.Identity(x), name=name, remove_nodes=(name != "keep"))
    if name == "relurelu":
        return P.RewriteRule(lambda op, x: op.Relu(op.Relu(x)), lambda op, x: op.Relu(x), name=name)
    if name == "mul1":
        return P.RewriteRule(lambda op, x: op.Mul(x, 1), lambda op, x: op.Identity(x), name=name)
    if name == "subneg":
        return P.RewriteRule(lambda op, x, y: op.Sub(x, y), lambda op, x, y: op.Add(x, op.Neg(y)), name=name)
    if name == "addsum":
        return P.RewriteRule(lambda op, x, y: op.Add(x, y), lambda op, x, y: op.Sum(y, x), name=name)
    if name == "dbl":
        def rep(op, x):
            t = ir.tensor(np.array(2, dtype=np.float32), name=x.name + "_two")
            return op.Mul(x, op.initializer(t))

        return P.RewriteRule(lambda op, x: op.Add(x, x), rep, name=name)
    if name == "fn":
        return P.RewriteRule(lambda op, x, y: op.Add(op.Neg(x), y), lambda op, x, y: op.NegAdd(x, y, _domain="custom"), name=name, as_function=True)
    if name == "drop":     # binds only the first output of Dropout (inference mode: the identity)
        return P.RewriteRule(lambda op, x: op.Dropout(x), lambda op, x: op.Identity(x), name=name)
    if name == "ext":      # the replacement lives in a domain the host model does not import (ext::MyRelu is a model-local function)
        return P.RewriteRule(lambda op, x: op.Relu(x), lambda op, x: op.MyRelu(x, _domain="ext"), name=name)
    if name in ("dag", "dagr"):   # as_function over a DAG pattern: the interior value a is used twice
        def dpat(op, x):
            a = op.Neg(x)
            b = op.Relu(a)
            return op.Add(a, b) if name == "dag" else op.Add(b, a)

        return P.RewriteRule(dpat, lambda op, x: op.NegReluAdd(x, _domain="custom"), name=name, as_function=True)
    if name == "dagm":     # as_function with two output nodes sharing an interior value
        def mpat(op, x):
            a = op.Neg(x)
            return op.Relu(a), op.Identity(a)

        return P.RewriteRule(mpat, lambda op, x: op.NegDual(x, _domain="custom", _outputs=2), name=name, as_function=True)
    if name == "pair":
        def pat(op, x, y):
            return op.Sub(x, y), op.Add(x, y)

        def rep2(op, x, y):
            t = op.Neg(y)
            return op.Add(x, t), op.Sum(y, x)

        return P.RewriteRule(pat, rep2, name=name)
    raise ValueError(name)


# ------------------------------------------------------------------------------------------------
# alpha: real proto -> the abstract form of the spec, and comparison modulo renaming
# ------------------------------------------------------------------------------------------------
def _tensor_scalar(t):
    from onnx import numpy_helper

    return int(numpy_helper.to_array(t).reshape(-1)[0])


def abs_graph(g, is_function=False):
    import onnx

    def node(n):
        subs = []
        for a in n.attribute:
            if a.type == onnx.AttributeProto.GRAPH:
                subs.append((a.name, abs_graph(a.g)))
        order = {"then_branch": 0, "else_branch": 1, "body": 0}
        subs.sort(key=lambda s: order.get(s[0], 9))
        md = {p.key: p.value for p in n.metadata_props}
        return {"op": n.op_type, "dom": n.domain, "ovl": n.overload, "ins": list(n.input), "out": (list(n.output) + [""])[0], "out2": (list(n.output) + ["", ""])[1], "nout": len(n.output),
                "subs": [s[1] for s in subs], "src": md.get("src", ""), "rule": md.get(RULE_TAG, "")}

    if is_function:
        return {"ins": list(g.input), "outs": list(g.output), "inits": [], "nodes": [node(n) for n in g.node]}
    return {"ins": [i.name for i in g.input], "outs": [o.name for o in g.output],
            "inits": [{"name": i.name, "k": _tensor_scalar(i)} for i in g.initializer], "nodes": [node(n) for n in g.node]}


def abs_model(m):
    return {"graph": abs_graph(m.graph), "imports": sorted([o.domain, o.version] for o in m.opset_import),
            "funcs": [{"fid": [f.domain, f.name, f.overload], "imports": sorted([o.domain, o.version] for o in f.opset_import), "graph": abs_graph(f, True)}
                      for f in m.functions]}


def iso_graph(sg, rg, env, why, where):
    """spec graph sg vs real graph rg modulo renaming of values; env: spec name -> real name (scoped copy)"""
    env = dict(env)
    rev = {v: k for k, v in env.items()}

    def bind(s, r, what):
        if s in env or r in rev:
            if env.get(s) != r or rev.get(r) != s:
                why.append(f"{where}: {what}: spec value {s} is {env.get(s)}, real value {r} is {rev.get(r)}")
                return False
            return True
        env[s] = r
        rev[r] = s
        return True

    if len(sg["ins"]) != len(rg["ins"]) or len(sg["outs"]) != len(rg["outs"]):
        why.append(f"{where}: arity {sg['ins']}->{sg['outs']} vs {rg['ins']}->{rg['outs']}")
        return False
    ok = all(bind(s, r, "input") for s, r in zip(sg["ins"], rg["ins"]))
    si = {i["name"]: i["k"] for i in sg["inits"]}
    ri = {i["name"]: i["k"] for i in rg["inits"]}
    if sorted(si.values()) != sorted(ri.values()) or len(si) != len(ri):
        why.append(f"{where}: initializers {si} vs {ri}")
        return False
    if len(sg["nodes"]) != len(rg["nodes"]):
        why.append(f"{where}: {[n['op'] for n in sg['nodes']]} vs {[n['op'] for n in rg['nodes']]}")
        return False
    init_s, init_r = set(si), set(ri)
    for k, (sn, rn) in enumerate(zip(sg["nodes"], rg["nodes"])):
        sop = "Identity" if sn["op"] == "IdentityB" else sn["op"]
        if (sop, sn["dom"], sn["ovl"]) != (rn["op"], rn["dom"], rn["ovl"]) or len(sn["ins"]) != len(rn["ins"]) or len(sn["subs"]) != len(rn["subs"]):
            why.append(f"{where}: node {k}: {sop}:{sn['dom']}:{sn['ovl']}{sn['ins']} vs {rn['op']}:{rn['dom']}:{rn['ovl']}{rn['ins']}")
            return False
        for s, r in zip(sn["ins"], rn["ins"]):
            if s in init_s or r in init_r:          # an initializer: same constant
                if si.get(s, "?") != ri.get(r, "??"):
                    why.append(f"{where}: node {k} reads initializer {s}={si.get(s)} vs {r}={ri.get(r)}")
                    return False
                ok = bind(s, r, f"node {k} initializer") and ok
            else:
                ok = bind(s, r, f"node {k} input") and ok
        for j, (ss, rs) in enumerate(zip(sn["subs"], rn["subs"])):
            ok = iso_graph(ss, rs, env, why, f"{where}/{sop}{k}.{j}") and ok
        ok = bind(sn["out"], rn["out"], f"node {k} output") and ok
        if bool(sn.get("out2")) != bool(rn.get("out2")):
            why.append(f"{where}: node {k}: second output {sn.get('out2')!r} vs {rn.get('out2')!r}")
            ok = False
        elif sn.get("out2"):
            ok = bind(sn["out2"], rn["out2"], f"node {k} second output") and ok
        if (sn["src"], sn["rule"]) != (rn["src"], rn["rule"]):
            why.append(f"{where}: node {k} metadata src/rule {sn['src']}/{sn['rule']} vs {rn['src']}/{rn['rule']}")
            ok = False
    for s, r in zip(sg["outs"], rg["outs"]):
        if env.get(s) != r:
            why.append(f"{where}: output {s}->{env.get(s)} vs {r}")
            ok = False
    return ok


def iso_model(sm, rm):
    why = []
    ok = iso_graph(sm["graph"], rm["graph"], {}, why, "main")
    if sm["graph"]["ins"] != rm["graph"]["ins"] or sm["graph"]["outs"] != rm["graph"]["outs"]:
        why.append(f"signature names {sm['graph']['ins']}->{sm['graph']['outs']} vs {rm['graph']['ins']}->{rm['graph']['outs']}")
        ok = False
    if sorted(map(list, sm["imports"])) != rm["imports"]:
        why.append(f"model opset imports {sorted(map(list, sm['imports']))} vs {rm['imports']}")
        ok = False
    sf = {tuple(f["fid"]): f for f in sm["funcs"]}
    rf = {tuple(f["fid"]): f for f in rm["funcs"]}
    if set(sf) != set(rf):
        why.append(f"functions {sorted(sf)} vs {sorted(rf)}")
        return False, why
    for fid in sf:
        ok = iso_graph(sf[fid]["graph"], rf[fid]["graph"], {}, why, "fn" + ":".join(fid)) and ok
        if sorted(map(list, sf[fid]["imports"])) != rf[fid]["imports"]:
            why.append(f"function {fid} opset imports {sorted(map(list, sf[fid]['imports']))} vs {rf[fid]['imports']}")
            ok = False
    return ok, why


def scoped_names_ok(m):
    """no value name defined twice along a scope chain (mirror of Rewrite!ScopedSSA on the real proto)"""
    import onnx

    def walk(g, vis, ins, inits):
        seen = set()
        for nm in list(ins) + list(inits):
            if nm in seen or nm in vis:
                return f"{nm} defined twice"
            seen.add(nm)
        vis = vis | seen
        for n in g.node if hasattr(g, "node") else []:
            for a in n.attribute:
                if a.type == onnx.AttributeProto.GRAPH:
                    r = walk(a.g, vis, [i.name for i in a.g.input], [i.name for i in a.g.initializer if i.name not in {x.name for x in a.g.input}])
                    if r:
                        return r
            for o in n.output:
                if o and o in vis:
                    return f"{o} defined twice"
                if o:
                    vis = vis | {o}
        return None

    r = walk(m.graph, set(), [i.name for i in m.graph.input], [i.name for i in m.graph.initializer if i.name not in {x.name for x in m.graph.input}])
    if r:
        return r
    for f in m.functions:
        r = walk(f, set(), list(f.input), [])
        if r:
            return f"function {f.name}: {r}"
    return None


def strict_name_clash(am):
    """mirror of Rewrite!ScopedSSA on an abstract model: a name defined twice in a graph, or a body name that some
    enclosing graph defines anywhere (also later)"""
    def walk(g, outer):
        own = list(g["ins"]) + [i["name"] for i in g["inits"]] + [o for n in g["nodes"] for o in (n["out"], n.get("out2")) if o]
        if len(set(own)) != len(own):
            return next(x for x in own if own.count(x) > 1)
        hit = set(own) & outer
        if hit:
            return sorted(hit)[0]
        for n in g["nodes"]:
            for sg in n["subs"]:
                r = walk(sg, outer | set(own))
                if r:
                    return r
        return None

    for g in [am["graph"]] + [f["graph"] for f in am["funcs"]]:
        r = walk(g, set())
        if r:
            return r
    return None


def live_srcs(mj):
    """src of the original nodes whose value reaches an output (frame is judged on these)"""
    prod = {}
    uses_in = {}

    def collect(gj):
        for n in gj["nodes"]:
            prod[n["out"]] = n
            if n.get("out2"):
                prod[n["out2"]] = n
            need = list(n["ins"])
            for s in n["subs"]:
                collect(s)
                need += s["outs"]
            uses_in[n["src"]] = need
    roots = [mj["graph"]] + [f["graph"] for f in mj["funcs"]]
    for g in roots:
        collect(g)
    # body nodes are needed through the outputs of their body; free variables of bodies through the nodes inside
    live = set()
    work = [o for g in roots for o in g["outs"]]
    while work:
        v = work.pop()
        n = prod.get(v)
        if n is None or n["src"] in live:
            continue
        live.add(n["src"])
        work += uses_in[n["src"]]
    return live


def all_nodes(gj, acc=None):
    acc = [] if acc is None else acc
    for n in gj["nodes"]:
        acc.append(n)
        for s in n["subs"]:
            all_nodes(s, acc)
    return acc


# ------------------------------------------------------------------------------------------------
# one case through the real code
# ------------------------------------------------------------------------------------------------
def _feeds(inp):
    import numpy as np

    a, b, c = inp
    return {"a": np.array(a, dtype=np.float32), "b": np.array(b, dtype=np.float32), "c": np.array(bool(c))}


def _run_all(model):
    try:
        sess = core.ort_session(model)
    except Exception:  # noqa: BLE001
        # ONNX Runtime cannot resolve a call to an OVERLOADED model-local function from inside another function
        # ("custom:NegAdd(-1) is not a registered function/op") although the model is legal: inline with onnx's inliner
        import onnx.inliner

        sess = core.ort_session(onnx.inliner.inline_local_functions(model))
    out = []
    shapes = []
    for inp in INPUTS:
        got = sess.run(None, _feeds(inp))
        out.append([int(x) if float(x) == int(x) else float(x) for x in (float(v.reshape(-1)[0]) for v in got)])
        shapes.append([list(v.shape) for v in got])
    SHAPES[0] = shapes
    return out


SHAPES = [None]   # run-time output shapes of the last _run_all (every value of the spec is one number; the shape is compared before/after)


def run_case(c):
    """-> dict with everything observed on the real code"""
    import onnx
    import onnx_ir as ir
    from onnxscript.rewriter import pattern as P
    from onnxscript.rewriter import rewrite

    res = {"prop": [], "count": None}
    try:
        model = build_model(c["orig"])
        onnx.checker.check_model(model, full_check=True)
        before = _run_all(model)
        before_shapes = SHAPES[0]
    except Exception as e:  # noqa: BLE001 - the host itself is not usable: machinery
        return {"machinery": f"host model rejected: {type(e).__name__}: {str(e)[:300]}"}
    res["before"] = before
    if before != [list(r) for r in c["ref"]]:
        return {"machinery": f"Eval of the spec disagrees with ONNX Runtime on the ORIGINAL model: spec {c['ref']} ort {before}"}
    rules = [make_rule(r) for r in c["rules"]]
    from onnxscript._internal import _verif

    del _verif.traces[:]
    try:
        im = ir.serde.deserialize_model(onnx.ModelProto.FromString(model.SerializeToString()))
        res["count"] = P.RewriteRuleSet([make_rule(r) for r in c["rules"]], commute=c["commute"]).apply_to_model(im)
        _verif.abort_all()
        rw = [t for t in _verif.traces if t["kind"] == "rewriter"]
        res["rwtrace"] = rw[0] if rw else None     # the recorded trace of this apply_to_model (validated against RewriteApply.tla)
        try:
            res["real_after_apply"] = abs_model(ir.serde.serialize_model(im))
        except Exception as e:  # noqa: BLE001 - judged on the result of rewrite() below
            res["real_after_apply"] = f"{type(e).__name__}: {str(e)[:200]}"
    except Exception as e:  # noqa: BLE001
        res["prop"].append(f"apply_to_model raised {type(e).__name__}: {str(e)[:200]}")
        res["raised"] = True
        _verif.abort_all()
        rw = [t for t in _verif.traces if t["kind"] == "rewriter"]
        res["rwtrace"] = rw[0] if rw else None
    del _verif.traces[:]
    try:
        after = rewrite(onnx.ModelProto.FromString(model.SerializeToString()), P.RewriteRuleSet(rules, commute=c["commute"]))
    except Exception as e:  # noqa: BLE001
        res["prop"].append(f"rewrite() raised {type(e).__name__}: {str(e)[:200]}")
        res["raised"] = True
        return res
    res["after_bytes"] = after.SerializeToString()
    ra = abs_model(after)
    res["real"] = ra
    # validity
    try:
        onnx.checker.check_model(after, full_check=True)
    except Exception as e:  # noqa: BLE001
        res["prop"].append(f"ONNX checker rejects the result: {str(e)[:200]}")
    dup = scoped_names_ok(after)
    if dup:
        res["prop"].append(f"result is not SSA: {dup}")
    # equivalence
    try:
        res["after"] = _run_all(after)
        if res["after"] != before:
            k = next(i for i in range(len(INPUTS)) if res["after"][i] != before[i])
            res["prop"].append(f"not equivalent: input (a,b,c)={INPUTS[k]} gives {before[k]} before and {res['after'][k]} after")
        elif SHAPES[0] != before_shapes:
            res["prop"].append(f"not equivalent: run-time output shapes {before_shapes[0]} before and {SHAPES[0][0]} after")
    except Exception as e:  # noqa: BLE001
        res["prop"].append(f"ONNX Runtime rejects the result: {str(e)[:200]}")
    # signature
    og = c["orig"]["graph"]
    if ra["graph"]["ins"] != og["ins"] or ra["graph"]["outs"] != og["outs"]:
        res["prop"].append(f"graph signature changed: {og['ins']}->{og['outs']} became {ra['graph']['ins']}->{ra['graph']['outs']}")
    # frame: unmatched live nodes are still there, once, with operator and metadata; original initializers keep name/value
    matched = {s for a in c["matched"] for s in a["srcs"]}
    live = live_srcs(c["orig"])
    real_nodes = [n for g in [ra["graph"]] + [f["graph"] for f in ra["funcs"]] for n in all_nodes(g)]
    kept_fids = {tuple(f["fid"]) for f in ra["funcs"]}
    for g in [c["orig"]["graph"]] + [f["graph"] for f in c["orig"]["funcs"] if tuple(f["fid"]) in kept_fids]:   # (unused functions go with the clean-up)
        for n in all_nodes(g):
            if n["src"] in matched or n["src"] not in live:
                continue
            same = [r for r in real_nodes if r["src"] == n["src"] and not r["rule"]]
            sop = "Identity" if n["op"] == "IdentityB" else n["op"]
            if len(same) != 1 or (same[0]["op"], same[0]["dom"], len(same[0]["ins"])) != (sop, n["dom"], len(n["ins"])):
                res["prop"].append(f"frame: unmatched node {n['src']} ({sop}) became {[(r['op'], r['ins']) for r in same]}")
    oi = {i["name"]: i["k"] for i in og["inits"]}
    ri = {i["name"]: i["k"] for i in ra["graph"]["inits"]}
    for nm, k in oi.items():
        if nm in ri and ri[nm] != k:
            res["prop"].append(f"frame: initializer {nm} changed from {k} to {ri[nm]}")
    # progress: judged on the result itself (every generated rule has a name, so a replacement node carries the rule tag)
    # (a rewritten instance may be dead code that the clean-up passes then remove: the count also counts)
    if c["any"] and res["count"] == 0 and not any(n["rule"] for n in real_nodes):
        res["prop"].append("progress: an applicable instance exists but nothing was rewritten")
    return res


def run_chunk(cases):
    out = []
    for c in cases:
        try:
            r = run_case(c)
        except Exception as e:  # noqa: BLE001
            r = {"machinery": f"harness error {type(e).__name__}: {str(e)[:300]}"}
        out.append(r)
    return out


# ------------------------------------------------------------------------------------------------
def describe(c):
    def g(gj):
        parts = []
        for n in gj["nodes"]:
            t = f"{n['out']}={n['op']}({','.join(n['ins'])})"
            if n["subs"]:
                t += "{" + " | ".join(g(s) + "=>" + ",".join(s["outs"]) for s in n["subs"]) + "}"
            parts.append(t)
        return "; ".join(parts)

    mj = c["orig"]
    s = f"rules {c['rules']}{' commute' if c['commute'] else ''}: {g(mj['graph'])} => {','.join(mj['graph']['outs'])}"
    if mj["graph"]["inits"]:
        s += " inits " + ",".join(f"{i['name']}={i['k']}" for i in mj["graph"]["inits"])
    for f in mj["funcs"]:
        s += f" | function {':'.join(f['fid'])}({','.join(f['graph']['ins'])}): {g(f['graph'])} => {','.join(f['graph']['outs'])}"
    return s


VACUITY = (("Rewrite_vacuity_NeverRewrites.cfg", "no rule application is reachable"),
           ("Rewrite_vacuity_NeverNested.cfg", "no rule application inside an If/Loop body is reachable"),
           ("Rewrite_vacuity_NeverOverlaps.cfg", "no application that matches a node created by an earlier application is reachable"),
           ("Rewrite_vacuity_NeverNeedsDeviation.cfg", "no behaviour needs a deviation"),
           ("Rewrite_vacuity_NeverDeclinesUnremovable.cfg", "no host keeps a match whose extra output is read elsewhere while rewriting another"),
           ("Rewrite_canfail.cfg", "the property invariant cannot fail (the implementation model with its deviations passes it)"))


def tlc_all(ctx, cfgs, timeout):
    """the case-producing runs and the vacuity witnesses, concurrently"""
    from concurrent.futures import ThreadPoolExecutor

    with ThreadPoolExecutor(max_workers=len(cfgs) + len(VACUITY)) as ex:
        main = [ex.submit(core.run_tlc, "Rewrite", cfg, timeout=timeout) for cfg in cfgs]
        vac = [ex.submit(core.run_tlc, "Rewrite", cfg, timeout=900, workers=2) for cfg, _ in VACUITY]
        cases = []
        for cfg, f in zip(cfgs, main):
            res = f.result()
            ctx.tlc(res, cfg)
            if not res.ok:
                raise core.MachineryError(f"TLC reports {res.violated} on {cfg} (the DESIGN must satisfy the property):\n{res.out[-2500:]}")
            cases += [json.loads(pr[1]) for pr in res.printed if pr and pr[0] == "CASE"]
        for (cfg, what), f in zip(VACUITY, vac):
            res = f.result()
            ctx.tlc(res, cfg)
            if res.ok:
                raise core.MachineryError(f"vacuity: {what} ({cfg} found no counterexample)")
    return cases


def judge(ctx, c, r, stats):
    ctx.add("evaluations")
    if "machinery" in r:
        raise core.MachineryError(f"{r['machinery']} on {describe(c)}")
    ctx.add("traces_validated_against_impl")
    case = {k: c[k] for k in ("rules", "commute", "wrap", "orig", "count", "why", "ok", "any", "matched")}
    case["real_count"] = r.get("count")
    if r["prop"]:
        what = f"{r['prop'][0]}{' (+%d more)' % (len(r['prop']) - 1) if len(r['prop']) > 1 else ''} :: {describe(c)}"
        finding = None
        if c["why"] and (not c["ok"] or c["raised"]):
            # the deviation that explains the failing clause
            others = [w for w in c["why"] if w != "subgraph_name_clash"]
            finding = "subgraph_name_clash" if (list(c.get("fails", [])) == ["ssa"] or not others) else others[0]
            stats["explained"] += 1
        ctx.report(dict(case, real=r.get("real"), all=r["prop"]), what, finding=finding)
        return
    # the real code satisfies the property here; compare with the model
    mism = []
    tolerated = False
    if list(c.get("fails", [])) == ["ssa"] and "subgraph_name_clash" in c["why"] and strict_name_clash(r["real"]):
        # the predicted duplicate (a body name that the enclosing graph defines later) is there; the ONNX checker and, for
        # this shape of body, ONNX Runtime tolerate it
        tolerated = True
        stats["tolerated"] += 1
    if (not c["ok"] or c["raised"]) and not tolerated:
        mism.append(f"model predicts a property failure ({c['why']}) but the real result is fine")
    else:
        if r["count"] != c["count"]:
            mism.append(f"count: model {c['count']} real {r['count']}")
        ok, why = iso_model(c["final"], r["real"])
        if not ok:
            mism.append("final model differs: " + "; ".join(why[:3]))
        if isinstance(r.get("real_after_apply"), dict) and "after" in c:
            ok, why = iso_model(c["after"], r["real_after_apply"])
            if not ok:
                mism.append("model after apply_to_model() differs: " + "; ".join(why[:3]))
    if mism:
        stats["mismatch"] += 1
        if stats["mismatch"] <= 8:
            print(f"SPEC-MISMATCH C07: {mism[0]} :: {describe(c)}", flush=True)


# ------------------------------------------------------------------ rule-set reuse across models (session 6, seeded C07-m12)
def reuse_history():
    """ONE RewriteRuleSet object (an as_function rule) applied to a sequence of models in one process; the later models already
    hold model-local functions custom::AddRelu under several overloads.  Rewrite.tla's ExtractFunction picks an overload that is
    fresh IN THE MODEL AT HAND: every pre-existing function keeps its body, every call node refers to a function of the model, and
    exactly one function is added whose body is the matched nodes.  -> list of failure texts"""
    from onnx import TensorProto as T
    from onnx import helper as h

    from onnxscript import ir
    from onnxscript.rewriter import pattern

    def fn(overload, k):
        f = h.make_function("custom", "AddRelu", ["a", "b"], ["c"],
                            [h.make_node("Add", ["a", "b"], ["t"]), h.make_node("Constant", [], ["k"], value_float=float(k)),
                             h.make_node("Add", ["t", "k"], ["c"])], [h.make_opsetid("", 18)])
        f.overload = overload
        return f

    def model(existing):
        nodes = [h.make_node("Add", ["x", "y"], ["s"]), h.make_node("Relu", ["s"], ["r"])]
        outs = ["r"]
        for i, (ov, _k) in enumerate(existing):
            n = h.make_node("AddRelu", ["x", "y"], [f"e{i}"], domain="custom")
            n.overload = ov
            nodes.append(n)
            outs.append(f"e{i}")
        g = h.make_graph(nodes, "g", [h.make_tensor_value_info(n, T.FLOAT, [2]) for n in ("x", "y")],
                         [h.make_tensor_value_info(o, T.FLOAT, [2]) for o in outs])
        return h.make_model(g, opset_imports=[h.make_opsetid("", 18), h.make_opsetid("custom", 1)], ir_version=10,
                            functions=[fn(ov, k) for ov, k in existing])

    def sig(f):
        return [(n.op_type, n.domain, list(n.input), list(n.output), [(a.name, h.get_attribute_value(a)) for a in n.attribute]) for n in f.node]

    rs = pattern.RewriteRuleSet([pattern.RewriteRule(lambda op, x, y: op.Relu(op.Add(x, y)),
                                                     lambda op, x, y: op.AddRelu(x, y, _domain="custom"), as_function=True)])
    fails = []
    history = ([], [("1", 2.0), ("2", 5.0)], [("1", 7.0)], [("2", 3.0), ("3", 4.0), ("4", 6.0)])
    for step, existing in enumerate(history):
        m = model(existing)
        before = {(f.domain, f.name, f.overload): sig(f) for f in m.functions}
        im = ir.serde.deserialize_model(m)
        try:
            n = rs.apply_to_model(im)
            m2 = ir.serde.serialize_model(im)
        except Exception as e:  # noqa: BLE001
            fails.append(f"step {step} (model with functions {sorted(before)}): raised {type(e).__name__}: {str(e)[:200]}")
            continue
        after = {(f.domain, f.name, f.overload): f for f in m2.functions}
        where = f"step {step} of the history (rule set already used on {step} model(s); this model has {sorted(k[2] for k in before)})"
        if n != 1:
            fails.append(f"{where}: {n} applications, 1 instance")
        for k, b in before.items():
            if k not in after or sig(after[k]) != b:
                fails.append(f"{where}: the pre-existing function {k} was changed by the rewrite")
        calls = [(nd.domain, nd.op_type, nd.overload) for nd in m2.graph.node if nd.domain == "custom"]
        if not all(c in after for c in calls):
            fails.append(f"{where}: a call node refers to no function of the model: {[c for c in calls if c not in after]}")
        new = [k for k in after if k not in before]
        if len(new) != 1 or [x.op_type for x in after[new[0]].node] != ["Add", "Relu"]:
            fails.append(f"{where}: expected exactly one new function holding the matched nodes, got {new}")
    return fails


def run(ctx: core.Ctx):
    cfgs = ["Rewrite_quick.cfg"] if ctx.quick else ["Rewrite_quick.cfg", "Rewrite_thorough.cfg"]
    import time

    t0 = time.time()
    for msg in reuse_history():
        ctx.report({"kind": "reuse_history", "failure": msg}, f"one rule set, several models: {msg}")
    ctx.add("rule_set_reuse_histories")
    cases = tlc_all(ctx, cfgs, 600 if ctx.quick else 3000)
    t1 = time.time()
    ctx.set("spec_cases", len(cases))
    seen = set()
    uniq = []
    for c in cases:
        key = json.dumps([c["rules"], c["commute"], c["orig"]], sort_keys=True)
        if key not in seen:
            seen.add(key)
            uniq.append(c)
    cases = uniq
    rng = random.Random(ctx.seed)
    rng.shuffle(cases)
    chunks = [cases[i:i + 40] for i in range(0, len(cases), 40)]
    results = core.pmap_safe(run_chunk, chunks, timeout=240)
    t2 = time.time()
    stats = {"mismatch": 0, "explained": 0, "tolerated": 0}
    items = []
    flat = []
    for ch, rs in zip(chunks, results):
        if rs is core.HANG or isinstance(rs, core.MachineryErrorResult):
            # find the culprit case by case
            rs = core.pmap_safe(run_chunk, [[c] for c in ch], timeout=30)
            rs = [x[0] if isinstance(x, list) else x for x in rs]
        for c, r in zip(ch, rs):
            flat.append((c, r))
    # direction B: the traces the hooks in _rewrite_rule.py recorded for these cases (and for the repository's own
    # rewriter / optimizer tests) are executed by TLC on RewriteApply.tla; every snapshot must equal the computed state
    case_traces = []
    for k, (c, r) in enumerate(flat):
        if isinstance(r, dict) and r.get("rwtrace"):
            t = r.pop("rwtrace")
            t["id"] = f"case/{k}"
            t["meta"]["describe"] = describe(c)
            case_traces.append(t)
    rwtrace.stage(ctx, case_traces, "C07", known_clause_findings={
        "apply_overwritten_initializer_unused": "init_clash_overwrite",
        "end_every_graph_topologically_ordered": "multi_output_insertion_point",
        "apply_replacement_reads_visible_values": "multi_output_insertion_point",
        "apply_removed_values_unused": "var_binds_removed_intermediate",
    })
    import onnx

    # spec/Graph.tla is evaluated on every result in quick, on a seeded sample of GC_CAP results in thorough
    GC_CAP = 12000
    gc_pick = set(range(len(flat))) if len(flat) <= GC_CAP else set(rng.sample(range(len(flat)), GC_CAP))
    ctx.set("graphcheck_results", len(gc_pick))
    for k, (c, r) in enumerate(flat):
        if r is core.HANG:
            ctx.add("evaluations")
            ctx.report({k2: c[k2] for k2 in ("rules", "commute", "orig", "count")}, f"rewrite() does not terminate :: {describe(c)}")
            continue
        if isinstance(r, core.MachineryErrorResult):
            raise core.MachineryError(f"worker failed: {r.msg} on {describe(c)}")
        if "after_bytes" in r:
            if not r["prop"] and k in gc_pick:
                items += core.abstract_model(f"c{k}", onnx.ModelProto.FromString(r["after_bytes"]))
            del r["after_bytes"]
    # spec/Graph.tla evaluated by TLC on the real results that passed so far
    if items:
        wf = core.graphcheck(ctx, items, "GraphCheck(results)")
        for pid, (ssa, scoped, outs, imps) in wf.items():
            if not (scoped and outs and imps):
                k = int(pid[1:].split("/")[0])
                flat[k][1]["prop"].append(f"Graph!WF fails on the result {pid}: scoped={scoped} outputs={outs} imports={imps}")
    t3 = time.time()
    ctx.set("timing_s", {"tlc": round(t1 - t0, 1), "replay": round(t2 - t1, 1), "graphcheck": round(t3 - t2, 1)})
    nontriv = 0
    for c, r in flat:
        if r is core.HANG:
            continue
        if c["count"] > 0:
            nontriv += 1
        judge(ctx, c, r, stats)
        if c["count"] > 0:
            ctx.sample({"case": describe(c), "model": {"count": c["count"], "why": c["why"], "ok": c["ok"]}, "real": {"count": r.get("count"), "property_failures": r["prop"]}}, limit=6)
    ctx.set("distinct_nontrivial", nontriv)
    ctx.set("model_impl_mismatches", stats["mismatch"])
    ctx.set("failures_explained_by_deviation", stats["explained"])
    ctx.set("name_clash_tolerated_by_checker_and_ort", stats["tolerated"])
    ctx.set("exhaustive", True)
    ctx.set("rule", "cases = 'done' states of Rewrite.tla under the implementation model: every host derivable within the cfg's bounds for every "
                    "rule set; distinct by (rules, commute, host model); non-trivial = the model applies at least one rule")
    ctx.assumptions += [
        "values are FLOAT scalars holding small integers; equivalence is judged on the 8 inputs of Rewrite!InputSeq (a in {-2,3}, b in {-1,5}, c in {T,F})",
        "generated rules: negneg, keep(remove_nodes=False), relurelu, mul1, subneg, addsum, dbl(new initializer), fn(as_function), pair(two output nodes), "
        "drop(Dropout(x) -> Identity(x): hosts whose Dropout has a mask output that is unused / read by an unmatched node), "
        "ext(replacement in a domain the host does not import), dag/dagr(as_function over a DAG pattern with a shared interior value), dagm(as_function, two outputs); "
        "replacement = pattern by construction and not an instance of the pattern",
        "a rule that creates initializers is declined inside a function by design (documented TODO): not counted as missing progress",
        "pattern matches do not cross graph boundaries (documented restriction of the matcher)",
        "dead nodes may disappear (rewrite() documents its clean-up passes): frame is judged on live unmatched nodes",
        "node names and names of unnamed values are not part of the frame (NameFixPass names them)",
    ]


def replay(ctx, path):
    with open(path) as f:
        blob = json.load(f)
    c = blob["case"]
    print(describe(c))
    c.setdefault("ref", None)
    import onnx

    model = build_model(c["orig"])
    print(onnx.printer.to_text(model))
    if c.get("ref") is None:
        c["ref"] = _run_all(model)
    r = run_case(c)
    if "after_bytes" in r:
        print(onnx.printer.to_text(onnx.ModelProto.FromString(r.pop("after_bytes"))))
    print(json.dumps({"model_count": c.get("count"), "model_why": c.get("why"), "real_count": r.get("count"), "property_failures": r.get("prop")}, indent=1))
    return 1 if r.get("prop") else 0
