"""C12 - Python literals are promoted identically by converter, eager mode and builder.

Part 1 (spec/Autocast.tla): TLC runs the three binding algorithms and the documented rule on every
argument pattern of every distinct signature shape of the REAL schema registry (dumped here to
JSON) and checks they agree; the harness expands the patterns to concrete (op, version, literal,
sibling dtype) tuples and observes dtype+value of the operand actually fed in the three front ends.
Part 2 (spec/ConstCache.tla): the builder's constant cache as a state machine; TLC enumerates
promotion histories, the harness replays them into a real GraphBuilder.
"""
from __future__ import annotations

import collections
import fractions
import importlib
import json
import math
import os
import random
import sys

import numpy as np

from . import core

LEVEL = "model_checking"

LITERALS = {  # name -> python value (names match Autocast.tla!Literals)
    "zero": 0, "one": 1, "m3": -3, "f25": 2.5, "nz": -0.0, "tr": True,
}
LIST_LITERALS = {"l12": [1, 2], "l05": [0.5]}
LIST_ELEMS = {"l12": ["one", "two"], "l05": ["f05"]}
PYKIND = {"zero": "int", "one": "int", "m3": "int", "f25": "float", "nz": "float", "tr": "bool", "l12": "int", "l05": "float"}
DEFAULT = {"int": "INT64", "float": "FLOAT", "bool": "BOOL"}
NP = {"FLOAT": np.float32, "DOUBLE": np.float64, "FLOAT16": np.float16, "INT64": np.int64, "INT32": np.int32,
      "INT16": np.int16, "INT8": np.int8, "UINT8": np.uint8, "BOOL": np.bool_}
SUPPORTED = list(NP)


# ------------------------------------------------------------------ registry dump
def registry():
    import onnx
    from onnxscript import ir

    byname = collections.defaultdict(list)
    for s in onnx.defs.get_all_schemas_with_history():
        if s.domain == "":
            byname[s.name].append(s)
    entries = {}
    for ver in range(13, 24):
        for name, lst in byname.items():
            c = [s for s in lst if s.since_version <= ver]
            if not c:
                continue
            s = max(c, key=lambda s: s.since_version)
            if s.deprecated or not s.inputs:
                continue
            key = (name, s.since_version)
            if key in entries:
                entries[key]["versions"].append(ver)
                continue
            sig = ir.schemas.OpSignature.from_op_schema(s)
            formals = []
            ok = True
            for p in sig.inputs:
                tv = p.type_constraint.name
                allowed = sorted(
                    t.dtype.name for t in p.type_constraint.allowed_types if isinstance(t, ir.TensorType)
                )
                if not allowed:
                    ok = False  # sequence/optional/map typed formal: cannot feed a tensor
                formals.append({"name": p.name, "tv": tv, "concrete": "(" in tv, "variadic": bool(p.variadic),
                                "homo": bool(p.homogeneous), "required": bool(p.required), "allowed": allowed})
            graph_attr = any(a.type in (onnx.AttributeProto.GRAPH, onnx.AttributeProto.GRAPHS) for a in s.attributes.values())
            entries[key] = {"op": name, "since": s.since_version, "versions": [ver], "formals": formals,
                            "tensor_only": ok, "graph_attr": graph_attr}
    return [entries[k] for k in sorted(entries)]


def shape_key(e):
    # type variables renamed canonically by first occurrence
    names = {}
    out = []
    for f in e["formals"]:
        tv = "C" if f["concrete"] else names.setdefault(f["tv"], f"V{len(names)}")
        out.append((tv, f["concrete"], f["variadic"], f["homo"], f["required"]))
    return tuple(out)


# ------------------------------------------------------------------ value tokens
def token(x):
    """bit-level identity class of one tensor element: (kind, num, den, negzero)"""
    x = np.asarray(x)
    k = x.dtype.kind
    if k == "b":
        return ["b", int(bool(x)), 1, False]
    if k == "i":
        return ["i", int(x), 1, False]
    if k == "u":
        return ["u", int(x), 1, False]
    v = float(x)
    if math.isnan(v):
        return ["f", "nan", 1, False]
    fr = fractions.Fraction(v)
    return ["f", fr.numerator, fr.denominator, bool(v == 0 and math.copysign(1, v) < 0)]


def obs(arr):
    arr = np.asarray(arr)
    dt = next((n for n, t in NP.items() if np.dtype(t) == arr.dtype), str(arr.dtype))
    return [dt, list(arr.shape), [token(v) for v in arr.reshape(-1)]]


# ------------------------------------------------------------------ the three observers
def make_call(e, pattern, litpos_vals, dtypes):
    """returns list of per-arg descriptors: ("T", dtype) | ("U", dtype) | ("L", value) | ("N",)"""
    out = []
    for i, k in enumerate(pattern):
        if k == "L":
            out.append(("L", litpos_vals[i]))
        elif k == "N":
            out.append(("N",))
        else:
            out.append((k, dtypes[i]))
    return out


def observe_static(e, ver, call):
    d = core.scratch_sub("c12mods")
    name = f"c12m_{os.getpid()}_{observe_static.n}"
    observe_static.n += 1
    params, argtxt = [], []
    for i, a in enumerate(call):
        if a[0] == "T":
            params.append(f"A{i}: {a[1]}[...]")
            argtxt.append(f"A{i}")
        elif a[0] == "U":
            params.append(f"A{i}")
            argtxt.append(f"A{i}")
        elif a[0] == "N":
            argtxt.append("None")
        else:
            argtxt.append(repr(a[1]))
    src = (f"from onnxscript import script\nfrom onnxscript.onnx_types import *\nfrom onnxscript import opset{ver} as op\n\n"
           f"@script(default_opset=op)\ndef f({', '.join(params)}):\n    return op.{e['op']}({', '.join(argtxt)})\n")
    path = os.path.join(d, name + ".py")
    with open(path, "w") as fh:
        fh.write(src)
    if d not in sys.path:
        sys.path.insert(0, d)
    try:
        mod = importlib.import_module(name)
        fir = mod.f.function_ir
        nodes = list(fir.graph) if hasattr(fir, "graph") else list(fir)
        target = [n for n in nodes if n.op_type == e["op"]][-1]
        res = {}
        for i, a in enumerate(call):
            if a[0] != "L":
                continue
            v = target.inputs[i]
            p = v.producer()
            if p.op_type == "Constant":
                res[i] = ("const", obs(p.attributes["value"].as_tensor().numpy()), None)
            elif p.op_type == "CastLike":
                c = p.inputs[0].producer()
                like = p.inputs[1].name
                res[i] = ("castlike", obs(c.attributes["value"].as_tensor().numpy()), like)
            else:
                res[i] = ("other:" + p.op_type, None, None)
        return res
    finally:
        sys.modules.pop(name, None)
        try:
            os.remove(path)
        except OSError:
            pass


observe_static.n = 0


def observe_eager(e, ver, call):
    from onnxscript import tensor
    from onnxscript._internal import evaluator

    class Rec(evaluator.BaseEvaluator):
        def __init__(self):
            super().__init__()
            self.seen = None

        def _eval(self, schema, inputs, attributes, closure):
            self.seen = list(inputs)
            return [tensor.Tensor(np.zeros((), dtype=np.float32)) for _ in schema.outputs]

    opset = importlib.import_module(f"onnxscript.onnx_opset").__dict__.get(f"opset{ver}") or getattr(importlib.import_module("onnxscript"), f"opset{ver}")
    args = []
    for a in call:
        if a[0] in ("T", "U"):
            args.append(tensor.Tensor(np.zeros((1,), dtype=NP[a[1]])))
        elif a[0] == "N":
            args.append(None)
        else:
            args.append(a[1])
    rec = Rec()
    with evaluator.default_as(rec):
        getattr(opset, e["op"])(*args)
    res = {}
    for i, a in enumerate(call):
        if a[0] == "L":
            x = rec.seen[i]
            res[i] = obs(x.value if hasattr(x, "value") else x)
    return res


def observe_builder(e, ver, call):
    import onnx_ir as ir

    import onnxscript._internal.builder as builder

    graph = ir.Graph(name="g", inputs=[], outputs=[], nodes=[], opset_imports={"": ver})
    args = []
    for i, a in enumerate(call):
        if a[0] == "T":
            v = ir.Value(name=f"A{i}", type=ir.TensorType(ir.DataType[a[1]]), shape=ir.Shape([1]))
            graph.inputs.append(v)
            args.append(v)
        elif a[0] == "U":
            v = ir.Value(name=f"A{i}")
            graph.inputs.append(v)
            args.append(v)
        elif a[0] == "N":
            args.append(None)
        else:
            args.append(a[1])
    gb = builder.GraphBuilder(graph)
    kwargs = {}
    if e["graph_attr"]:
        kwargs = {}
    getattr(gb.op, e["op"])(*args, **kwargs)
    target = [n for n in graph if n.op_type == e["op"]][-1]
    res = {}
    for i, a in enumerate(call):
        if a[0] != "L":
            continue
        v = target.inputs[i]
        if v.const_value is not None and v.producer() is None:
            res[i] = ("const", obs(v.const_value.numpy()), None)
        else:
            p = v.producer()
            if p is not None and p.op_type == "CastLike":
                c = p.inputs[0]
                res[i] = ("castlike", obs(c.const_value.numpy()), p.inputs[1].name)
            elif p is not None and p.op_type == "Constant":
                res[i] = ("const", obs(p.attributes["value"].as_tensor().numpy()), None)
            else:
                res[i] = ("other", None, None)
    return res


# ONNX Cast of a constant (for CastLike results): evaluated on onnxruntime
_CAST_CACHE = {}


def ort_cast(ob, to):
    key = (json.dumps(ob), to)
    if key in _CAST_CACHE:
        return _CAST_CACHE[key]
    import onnx
    from onnx import TensorProto, helper, numpy_helper

    dt, shape, toks = ob
    arr = np.array([(-0.0 if t[3] else (float("nan") if t[1] == "nan" else t[1] / t[2])) if t[0] == "f" else t[1] for t in toks], dtype=NP[dt]).reshape(shape)
    node = helper.make_node("Cast", ["c"], ["y"], to=getattr(TensorProto, to))
    cn = helper.make_node("Constant", [], ["c"], value=numpy_helper.from_array(arr))
    g = helper.make_graph([cn, node], "g", [], [helper.make_tensor_value_info("y", getattr(TensorProto, to), list(shape))])
    m = helper.make_model(g, opset_imports=[helper.make_opsetid("", 18)])
    r = obs(core.ort_run(m, {})[0])
    _CAST_CACHE[key] = r
    return r


def resolve(o, dtypes_by_name):
    """final (dtype, shape, tokens) of an observed operand, resolving CastLike against the sibling's dtype"""
    kind, c, like = o
    if kind == "const":
        return c
    if kind == "castlike":
        to = dtypes_by_name[like]
        if c[0] == to:
            return c
        return ort_cast(c, to)
    return None


# ------------------------------------------------------------------ case expansion / worker
def run_case(case):
    """case: dict(e, ver, pattern, lits{pos:name}, dtypes{pos:dtype}) -> observations"""
    e, ver = case["e"], case["ver"]
    vals = {int(i): (LITERALS.get(n, LIST_LITERALS.get(n))) for i, n in case["lits"].items()}
    call = make_call(e, case["pattern"], vals, {int(k): v for k, v in case["dtypes"].items()})
    names = {f"A{i}": a[1] for i, a in enumerate(call) if a[0] in ("T", "U")}
    out = {"static": None, "eager": None, "builder": None, "err": {}}
    for front, fn in (("static", observe_static), ("eager", observe_eager), ("builder", observe_builder)):
        if front == "static" and e["graph_attr"]:
            continue
        if front == "eager" and "U" in case["pattern"]:
            pass
        try:
            r = fn(e, ver, call)
            if front == "eager":
                out[front] = {str(i): v for i, v in r.items()}
            else:
                out[front] = {str(i): resolve(v, names) for i, v in r.items()}
        except Exception as ex:  # a front end refusing the call is recorded, not judged
            out["err"][front] = f"{type(ex).__name__}: {str(ex)[:160]}"
    return out


def expected_value(cast_table, lit, dtype):
    """tokens the spec expects for literal `lit` as dtype; None when undefined (unsigned negative)"""
    def one(name):
        if name == "two":
            base = {"FLOAT": ["f", 2, 1, False], "BOOL": ["b", 1, 1, False]}
            t = cast_table["one"][dtype]
            return [t[0], 2 if t[0] != "b" else 1, 1, False]
        if name == "f05":
            t = cast_table["f25"][dtype]
            if t[0] == "f":
                return ["f", 1, 2, False]
            if t[0] == "b":
                return ["b", 1, 1, False]
            return [t[0], 0, 1, False]
        t = cast_table[name][dtype]
        return [t[0], t[1], t[2], bool(t[3])]
    names = LIST_ELEMS.get(lit, [lit])
    toks = [one(n) for n in names]
    if any(t[0] == "u" and t[1] < 0 for t in toks):
        return None
    shape = [len(names)] if lit in LIST_ELEMS else []
    return [dtype, shape, toks]


def part1(ctx: core.Ctx):
    reg = registry()
    shapes = {}
    for e in reg:
        shapes.setdefault(shape_key(e), []).append(e)
    keys = sorted(shapes, key=repr)
    sigs = [{"formals": [{"tv": f[0], "concrete": f[1], "variadic": f[2], "homo": f[3], "required": f[4]} for f in k]} for k in keys]
    sig_file = os.path.join(core.scratch(), "sigs.json")
    core.write_tlc_json(sig_file, sigs)
    res = core.run_tlc("Autocast", "Autocast.cfg", dump=True, env={"SIGS_FILE": sig_file}, timeout=1500)
    ctx.tlc(res, "Autocast.cfg")
    if not res.ok:
        raise core.MachineryError(f"TLC: {res.violated} in Autocast.tla\n{res.out[-1500:]}")
    for inv in ("SomeSibling", "SomeHeteroTail"):
        v = core.run_tlc("Autocast", f"Autocast_{inv}.cfg", env={"SIGS_FILE": sig_file}, timeout=600)
        if v.ok:
            raise core.MachineryError(f"vacuity: {inv} never reached")
    tab = core.run_tlc("AutocastTable", "AutocastTable.cfg", env={"SIGS_FILE": sig_file}, timeout=300)
    table = None
    for pr in tab.printed:
        if pr and pr[0] == "CASTTABLE":
            table = json.loads(pr[1])
    if table is None:
        raise core.MachineryError("cast table not printed by TLC")
    done = [s for s in res.dump if s["stage"] == "done"]
    ctx.set("signature_shapes", len(keys))
    ctx.set("registry_schemas", len(reg))
    ctx.set("spec_patterns", len(done))

    rng = random.Random(ctx.seed)
    cases = []
    for s in done:
        sid = s["sid"] - 1
        pattern = list(s["args"])
        ents = [e for e in shapes[keys[sid]] if e["tensor_only"]]
        if not ents:
            continue
        if ctx.quick:
            ents = rng.sample(ents, min(1, len(ents)))
        litpos = [i for i, k in enumerate(pattern) if k == "L"]
        rule = {int(k) - 1: v for k, v in (s["rule"].items() if isinstance(s["rule"], dict) else enumerate(s["rule"], 1))}
        for e in ents:
            ver = rng.choice(e["versions"]) if ctx.quick else e["versions"][-1]
            # dtype per type variable: literal's type variable ranges over its allowed dtypes
            nf = len(e["formals"])
            def formal(i):
                return e["formals"][i] if i < nf else e["formals"][-1]
            tvs = {}
            for i, k in enumerate(pattern):
                if k in ("T", "U"):
                    f = formal(i)
                    tvs.setdefault(f["tv"], [d for d in f["allowed"] if d in SUPPORTED])
            if any(not v for v in tvs.values()):
                continue
            littv = {formal(i)["tv"] for i in litpos}
            choices = [{}]
            for tv, allowed in tvs.items():
                if tv in littv:
                    pick = allowed if not ctx.quick else rng.sample(allowed, min(2, len(allowed)))
                else:
                    pref = [d for d in ("FLOAT", "INT64", "BOOL") if d in allowed] or allowed
                    pick = pref[:1]
                choices = [dict(c, **{tv: d}) for c in choices for d in pick]
            litnames = list(LITERALS) + list(LIST_LITERALS)
            for ch in choices:
                dt = {str(i): ch[formal(i)["tv"]] for i, k in enumerate(pattern) if k in ("T", "U")}
                lit_sets = [litnames if not ctx.quick else rng.sample(litnames, 3) for _ in litpos]
                combos = [[]]
                for ls in lit_sets:
                    combos = [c + [l] for c in combos for l in ls]
                if len(litpos) > 1:
                    combos = rng.sample(combos, min(len(combos), 4 if ctx.quick else 16))
                for combo in combos:
                    cases.append({"e": e, "ver": ver, "pattern": pattern, "lits": {str(p): n for p, n in zip(litpos, combo)},
                                  "dtypes": dt, "rule": {str(k): v for k, v in rule.items()},
                                  "model": {"static": s["static"], "dynamic": s["dynamic"], "builder": s["builder"]}})
    if ctx.quick and len(cases) > 2600:
        cases = rng.sample(cases, 2600)
    # literals in a fixed order per worker so that history-dependent promotion (caches) shows up:
    cases.sort(key=lambda c: (c["e"]["op"], c["ver"], json.dumps(c["pattern"]), json.dumps(c["dtypes"], sort_keys=True)))
    results = core.pmap(run_case, cases, chunksize=max(8, len(cases) // (core.NCPU * 4)))
    nontriv = set()
    refused = collections.Counter()
    for c, r in zip(cases, results):
        ctx.add("evaluations")
        e = c["e"]
        desc = {"op": e["op"], "version": c["ver"], "pattern": c["pattern"], "literals": c["lits"], "dtypes": c["dtypes"], "observed": r}
        for front in ("static", "eager", "builder"):
            if front in r["err"]:
                refused[front] += 1
        nf = len(e["formals"])
        for p, lit in c["lits"].items():
            i = int(p)
            f = e["formals"][i] if i < nf else e["formals"][-1]
            src = c["rule"][str(i)]
            if src == "sib":
                sib = [c["dtypes"][k] for k in c["dtypes"] if (e["formals"][int(k)] if int(k) < nf else e["formals"][-1])["tv"] == f["tv"]
                       and not (int(k) >= nf and not e["formals"][-1]["homo"])]
                dtype = sib[0]
                nontriv.add((e["op"], e["since"], i, lit, dtype))
            else:
                dtype = DEFAULT[PYKIND[lit]]
            exp = expected_value(table, lit, dtype)
            if exp is None:
                ctx.add("undefined_unsigned_negative")
                continue
            for front in ("static", "eager", "builder"):
                o = r[front]
                if o is None or o.get(p) is None:
                    continue
                got = o[p]
                if got != exp:
                    finding = None
                    zeroish = {"zero", "nz"}
                    if (front == "builder" and set(c["lits"].values()) >= zeroish and got[0] == exp[0] and
                            [t[:3] for t in got[2]] == [t[:3] for t in exp[2]]):
                        finding = "cache_signed_zero"   # 0 and -0.0 in one call share one cached initializer
                    ctx.report(dict(desc, position=i, literal=lit, front=front, expected=exp, got=got),
                               f"{front}: {e['op']}-{c['ver']} arg#{i} literal {lit} beside {c['dtypes']}: fed {got}, rule says {exp}", finding=finding)
        ctx.sample(desc, limit=4)
    ctx.set("refused_calls", dict(refused))
    return nontriv


# ------------------------------------------------------------------ part 2: constant cache
PYVAL = {"i0": 0, "i1": 1, "im3": -3, "f0": 0.0, "fn0": -0.0, "f1": 1.0, "f25": 2.5, "bT": True, "bF": False}


def replay_cache(hist):
    """hist: list of [value token, dtype] -> per step (hit?, name, dtype, tokens) from a real GraphBuilder"""
    import onnx_ir as ir

    import onnxscript._internal.builder as builder

    graph = ir.Graph(name="g", inputs=[], outputs=[], nodes=[], opset_imports={"": 21})
    xs = {}
    for dt in ("FLOAT", "INT64", "BOOL"):
        v = ir.Value(name="x_" + dt, type=ir.TensorType(ir.DataType[dt]), shape=ir.Shape([1]))
        graph.inputs.append(v)
        xs[dt] = v
    gb = builder.GraphBuilder(graph)
    seen = {}
    out = []
    for vt, dt in hist:
        val = float("nan") if vt == "nan" else PYVAL[vt]
        try:
            if dt == "BOOL":
                y = gb.op.And(xs[dt], val)
            else:
                y = gb.op.Add(xs[dt], val)
        except Exception as ex:
            out.append({"raise": type(ex).__name__})
            continue
        v = y.producer().inputs[1]
        hit = id(v) in seen
        seen[id(v)] = True
        o = obs(v.const_value.numpy())
        out.append({"hit": hit, "name": v.name, "dtype": o[0], "tok": o[2][0]})
    return out


PYTEXT = {"i0": "0", "i1": "1", "im3": "-3", "f0": "0.0", "fn0": "-0.0", "f1": "1.0", "f25": "2.5", "bT": "True", "bF": "False"}


def replay_frontends(hist):
    """The same promotion history through the CONVERTER and EAGER mode: one script function whose k-th statement
    promotes the k-th literal beside a FLOAT / INT64 / BOOL operand chosen so that the result IS the literal's tensor
    (-0.0 + c, 0 + c, True and c).  -> {"static": [tokens per step] | error text, "eager": ...}"""
    from . import scriptgen

    steps = [(vt, dt) for vt, dt in hist if vt in PYTEXT]
    if not steps:
        return {"steps": [], "static": [], "eager": []}
    lines = ["from onnxscript import script, FLOAT, INT64, BOOL", "from onnxscript import opset18 as op", "",
             "@script(default_opset=op)", "def f(xf: FLOAT[1], xi: INT64[1], xb: BOOL[1]):"]
    for k, (vt, dt) in enumerate(steps):
        if dt == "BOOL":
            lines.append(f"    t{k} = op.And(xb, {PYTEXT[vt]})")
        else:
            lines.append(f"    t{k} = op.Add({'xf' if dt == 'FLOAT' else 'xi'}, {PYTEXT[vt]})")
    lines.append("    return " + ", ".join(f"t{k}" for k in range(len(steps))))
    out = {"steps": [list(x) for x in steps]}
    feeds = {"xf": np.array([-0.0], np.float32), "xi": np.array([0], np.int64), "xb": np.array([True])}
    try:
        mod = scriptgen.load_source("\n".join(lines) + "\n", "c12h")
    except Exception as ex:
        out["static"] = out["eager"] = f"script() raised {type(ex).__name__}: {str(ex)[:200]}"
        return out
    try:
        got = core.ort_session(mod.f.to_model_proto()).run(None, feeds)
        out["static"] = [obs(g)[2][0] for g in got]
    except Exception as ex:
        out["static"] = f"{type(ex).__name__}: {str(ex)[:200]}"
    try:
        got = mod.f(feeds["xf"], feeds["xi"], feeds["xb"])
        got = list(got) if isinstance(got, (tuple, list)) else [got]
        out["eager"] = [obs(np.asarray(getattr(g, "value", g)))[2][0] for g in got]
    except Exception as ex:
        out["eager"] = f"{type(ex).__name__}: {str(ex)[:200]}"
    return out


def part2(ctx: core.Ctx):
    cfg = "ConstCache_quick.cfg" if ctx.quick else "ConstCache_thorough.cfg"
    res = core.run_tlc("ConstCache", cfg, dump=True, timeout=1500)
    ctx.tlc(res, cfg)
    if not res.ok:
        raise core.MachineryError(f"TLC: {res.violated} in ConstCache.tla\n{res.out[-1500:]}")
    # design run: with no deviations CacheSound must hold
    des = core.run_tlc("ConstCache", "ConstCache_design.cfg", timeout=1500)
    ctx.tlc(des, "ConstCache_design.cfg")
    if not des.ok:
        raise core.MachineryError(f"design-level cache model violates {des.violated}")
    vac = core.run_tlc("ConstCache", "ConstCache_vacuity.cfg", timeout=600)
    if vac.ok:
        raise core.MachineryError("vacuity: CacheSound cannot fail even with the pinned-tree deviations")
    states = [s for s in res.dump if len(s["hist"]) >= 1]
    # maximal histories only (every prefix is replayed on the way)
    maxlen = max(len(s["hist"]) for s in states)
    full = [s for s in states if len(s["hist"]) == maxlen]
    rng = random.Random(ctx.seed)
    if ctx.quick and len(full) > 3000:
        full = rng.sample(full, 3000)
    hists = [[list(h) for h in s["hist"]] for s in full]
    outs = core.pmap(replay_cache, hists)
    mism = 0
    for s, real in zip(full, outs):
        ctx.add("evaluations")
        ctx.add("traces_validated_against_impl")
        model = s["outcome"]
        for k, (m, r) in enumerate(zip(model, real)):
            step = {"history": s["hist"][: k + 1], "model": m, "impl": r}
            if "raise" in r or m["res"] == "raise":
                if ("raise" in r) != (m["res"] == "raise"):
                    mism += 1
                    print(f"SPEC-MISMATCH C12 cache: {step}")
                continue
            want = m["want"]       # bits the literal must have (CastValue)
            got = [r["tok"][0], r["tok"][1], r["tok"][2], r["tok"][3]]
            if (m["res"] == "hit") != r["hit"] or list(m["bits"]) != got:
                mism += 1
                if mism <= 10:
                    print(f"SPEC-MISMATCH C12 cache: {step}")
            if list(want) != got:
                finding = "cache_signed_zero" if list(m["bits"]) == got and m["why"] else None
                ctx.report(step, f"builder constant cache: literal {s['hist'][k]} fed as {got}, expected {list(want)} after history {s['hist'][:k]}",
                           finding=finding)
        ctx.sample({"history": s["hist"], "impl": real}, limit=6)
    ctx.set("cache_model_mismatches", mism)
    # the same histories through the converter and eager mode: the clause "distinct literals never share a tensor with
    # a different value" is about every front end (the converter may reuse Constant nodes, eager mode may cache tensors)
    sub = hists if len(hists) <= 1500 else rng.sample(hists, 1500)
    fe = core.pmap(replay_frontends, sub)
    want_of = {}
    for s_ in full:
        for k, h_ in enumerate(s_["hist"]):
            want_of[(tuple(h_))] = list(s_["outcome"][k]["want"]) if s_["outcome"][k]["res"] != "raise" else want_of.get(tuple(h_))
    for hist, r in zip(sub, fe):
        ctx.add("evaluations")
        for mode in ("static", "eager"):
            got = r[mode]
            if isinstance(got, str):
                ctx.report({"history": r["steps"], "mode": mode, "error": got}, f"{mode} front end fails on the literal history {r['steps']}: {got}")
                continue
            for k, (st, g) in enumerate(zip(r["steps"], got)):
                want = want_of.get(tuple(st))
                if want is not None and list(g) != list(want):
                    ctx.report({"history": r["steps"], "mode": mode, "step": k, "got": list(g), "want": want},
                               f"{mode} front end: literal {st} fed as {list(g)}, expected {want}, after the literals {r['steps'][:k]} in the same function")
                    break
    ctx.set("frontend_histories", len(sub))
    return len(full)


def run(ctx: core.Ctx):
    nontriv = part1(ctx)
    nh = part2(ctx)
    ctx.set("distinct_nontrivial", len(nontriv))
    ctx.add("traces_validated_against_impl", 0)
    ctx.set("exhaustive", not ctx.quick)
    ctx.set("rule", "part 1: TLC enumerates argument patterns (T/U/L/N, <=2 literals, <=2 variadic extras) of every distinct signature shape "
                    "of opsets 13..23; each is expanded to concrete (op, version, literal, sibling dtype) tuples; non-trivial = literal with a sibling "
                    "sharing its type constraint, distinct by (op, since_version, position, literal, dtype). part 2: promotion histories of ConstCache.tla "
                    f"replayed into GraphBuilder ({nh} maximal histories)")
    ctx.assumptions += ["onnxruntime Cast gives the value of CastLike(constant, sibling)",
                        "negative literals beside unsigned siblings have no defined expected value and are not judged"]


def replay(ctx, path):
    with open(path) as f:
        case = json.load(f)["case"]
    print(json.dumps(case, indent=1, default=str))
    return 0
