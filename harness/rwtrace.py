"""Direction B for the rewriter: traces recorded by the hooks in onnxscript/rewriter/_rewrite_rule.py
(ONNXSCRIPT_VERIF=1) - a model snapshot at the start of apply_to_model, one Apply event per rule
application, snapshots after the applications / after the clean-up / at the end - are validated by
TLC against spec/RewriteApply.tla (RewriteTrace.tla): the specification executes every application
on its abstract model and the recorded snapshots must equal what it computed.

Sources: the repository's own rewriter / optimizer tests run under pytest with the hooks on, and the
cases the calling check generates (its workers return the traces).
"""
from __future__ import annotations

import copy
import glob
import json
import os
import re
import subprocess
import sys

from . import core

C04_CLAUSES = ("end_every_graph_topologically_ordered", "end_graph_outputs_defined", "end_replacement_domains_imported",
               "apply_removed_values_unused", "apply_replacement_reads_visible_values")


def owns(prop: str, clause: str) -> bool:
    return prop == "C07" or clause in C04_CLAUSES


# traces of other kinds (the constant folder's) recorded by the same pytest run: taken by harness/foldtrace.py
OTHER_TRACES: list[dict] = []
OTHER_TAIL = ""


def _read_trace_files(prefix: str, cap_nodes: int) -> tuple[list[dict], int]:
    traces, big = [], 0
    for f in sorted(glob.glob(prefix + ".*")):
        with open(f) as fh:
            for line in fh:
                line = line.strip()
                if not line:
                    continue
                t = json.loads(line)
                if t.get("kind") != "rewriter":
                    if t.get("kind") == "folder" and len(OTHER_TRACES) < 6000:
                        OTHER_TRACES.append(t)
                    continue
                n = sum(len(g["nodes"]) for g in t["meta"]["model"]["graphs"])
                if n > cap_nodes:
                    big += 1
                    continue
                traces.append(t)
        os.remove(f)
    return traces, big


def collect_pytest(paths: list[str], timeout: int = 2400, cap_nodes: int = 120) -> tuple[list[dict], str, int]:
    prefix = os.path.join(core.scratch(), "rwtrace_pytest")
    env = dict(os.environ, ONNXSCRIPT_VERIF="1", ONNXSCRIPT_VERIF_TRACE=prefix, PYTHONHASHSEED="0")
    cmd = [sys.executable, "-m", "pytest", "-q", "-p", "no:cacheprovider", "--timeout=600", "-n", str(min(8, core.NCPU))] + paths
    p = subprocess.run(cmd, cwd=core.REPO, env=env, capture_output=True, text=True, timeout=timeout)
    tail = re.sub(r"\x1b\[[0-9;]*m", "", (p.stdout.strip().splitlines() or [""])[-1])
    global OTHER_TAIL
    traces, big = _read_trace_files(prefix, cap_nodes)
    OTHER_TAIL = tail
    return traces, tail, big


def to_tlc(t: dict) -> dict:
    evs = []
    for e in t["events"]:
        if e["ev"] == "Apply":
            evs.append({k: e[k] for k in ("ev", "container", "root", "matched", "removes", "as_function", "inserted", "old_outs", "new_outs", "new_inits", "new_init_names")})
        elif e["ev"] == "Applied":
            evs.append({"ev": "Applied", "count": e["count"], "model": e["model"]})
        elif e["ev"] == "Cleaned":
            evs.append({"ev": "Cleaned", "ran": e["ran"], "model": e["model"]})
    end = t.get("end") or {}
    return {"id": t["id"], "model": t["meta"]["model"], "events": evs, "finished": bool(t.get("finished")),
            "endCount": end.get("count", 0), "endModel": end.get("model", t["meta"]["model"])}


_RE_VERDICT = re.compile(r'<<\s*"VERDICT",\s*"([^"]*)",\s*(\d+),\s*"([^"]*)",\s*(\d+),\s*\d+\s*>>')


def validate(ctx, traces: list[dict], label: str) -> dict:
    verdicts: dict[str, tuple[int, str, int]] = {}
    items = [to_tlc(t) for t in traces]
    # batches bounded by total size (snapshots make traces of big models heavy)
    batches, cur, size = [], [], 0
    for it in items:
        s = sum(len(g["nodes"]) for g in it["model"]["graphs"]) * (2 + len(it["events"])) + 10
        if cur and size + s > 40000:
            batches.append(cur)
            cur, size = [], 0
        cur.append(it)
        size += s
    if cur:
        batches.append(cur)
    for k, b in enumerate(batches):
        path = os.path.join(core.scratch(), f"rwtraces_{label}_{k}.json")
        core.write_tlc_json(path, b)
        res = core.run_tlc("RewriteTrace", "RewriteTrace.cfg", workers=1, env={"TRACE_FILE": path}, timeout=2400, heap="6g")
        ctx.tlc(res, f"RewriteTrace:{label}")
        if not res.ok:
            raise core.MachineryError(f"RewriteTrace failed: {res.out[-2500:]}")
        for m in _RE_VERDICT.finditer(res.out):
            verdicts[m.group(1)] = (int(m.group(2)), m.group(3), int(m.group(4)))
        os.remove(path)
    missing = [it["id"] for it in items if it["id"] not in verdicts]
    if missing:
        raise core.MachineryError(f"RewriteTrace gave no verdict for {missing[:3]} ({len(missing)} traces)")
    return verdicts


def _selftest(traces: list[dict]) -> list[dict]:
    """Corrupted copies of accepted traces: each must be rejected."""
    out = []
    t = next((t for t in traces if t.get("finished") and any(e["ev"] == "Apply" and e["removes"] and e["inserted"] for e in t["events"])), None)
    if t is None:
        return out
    # (a) the final snapshot still holds a matched node: "exactly the matched nodes are removed"
    c = copy.deepcopy(t)
    ap = next(e for e in c["events"] if e["ev"] == "Apply" and e["removes"] and e["inserted"])
    c["id"] = "selftest/count_off_by_one"
    c["end"]["count"] = c["end"]["count"] + 1
    for e in c["events"]:
        if e["ev"] == "Applied":
            e["count"] += 1
    out.append(c)
    # (b) one application is missing from the trace: the snapshot no longer equals the computed state
    c = copy.deepcopy(t)
    k = next(i for i, e in enumerate(c["events"]) if e["ev"] == "Apply")
    del c["events"][k]
    c["id"] = "selftest/dropped_apply_event"
    out.append(c)
    # (c) a use of the old output was not redirected in the recorded result
    c = copy.deepcopy(t)
    ap = next(e for e in c["events"] if e["ev"] == "Apply" and e["removes"] and e["inserted"])
    old, new = ap["old_outs"][0], ap["new_outs"][0]
    changed = False
    for e in c["events"]:
        if e["ev"] in ("Applied", "Cleaned"):
            for g in e["model"]["graphs"]:
                for n in g["nodes"]:
                    if new in n["ins"] and not changed:
                        n["ins"] = [old if v == new else v for v in n["ins"]]
                        changed = True
                if not changed and new in g["outputs"]:
                    g["outputs"] = [old if v == new else v for v in g["outputs"]]
                    changed = True
            break
    if changed:
        c["id"] = "selftest/use_not_redirected"
        out.append(c)
    return out


PYTEST_QUICK = ["onnxscript/rewriter/pattern_test.py", "onnxscript/rewriter/rules/common", "onnxscript/optimizer/_constant_folding_test.py"]
PYTEST_THOROUGH = ["onnxscript/rewriter", "onnxscript/optimizer"]


def stage(ctx, case_traces: list[dict], owner: str, known_clause_findings: dict | None = None):
    """Validate rewriter traces; report rejections whose clause the property `owner` owns.
    known_clause_findings: clause -> finding id (a listed known finding that explains that clause)."""
    tests, tail, big = collect_pytest(PYTEST_QUICK if ctx.quick else PYTEST_THOROUGH)
    for i, t in enumerate(tests):
        t["id"] = f"pytest/{i}"
    for i, t in enumerate(case_traces):
        t.setdefault("id", f"case/{i}")
    if len(tests) < 50:
        raise core.MachineryError(f"too few recorded rewriter traces from the repository tests ({len(tests)}: {tail}); are the hooks in _rewrite_rule.py present?")
    allt = tests + list(case_traces)
    self_t = _selftest(allt)
    verdicts = validate(ctx, allt + self_t, owner)
    if len(self_t) < 2:
        raise core.MachineryError("binding self-test: no trace with a removing application to corrupt")
    for t in self_t:
        if verdicts[t["id"]][0] == 0:
            raise core.MachineryError(f"binding self-test: corrupted trace {t['id']} was accepted")
    n_apply = sum(verdicts[t["id"]][2] for t in allt)
    if n_apply == 0:
        raise core.MachineryError("no rule application in any recorded trace (vacuous)")
    other = 0
    for t in allt:
        idx, clause, _ = verdicts[t["id"]]
        if idx == 0:
            continue
        if not owns(owner, clause):
            other += 1
            continue
        ev = t["events"][idx - 1] if 0 < idx <= len(t["events"]) else {"ev": "End"}
        slim = {k: v for k, v in ev.items() if k != "model"}
        ctx.report({"trace": t["id"], "event_index": idx, "event": slim, "clause": clause, "rules": t["meta"].get("rules"), "trace_full": t},
                   f"recorded rewriter trace {t['id']} rejected by RewriteApply.tla at event {idx} ({ev.get('ev')}): clause {clause} does not hold; "
                   f"rules {t['meta'].get('rules')}; event {json.dumps(slim)[:500]}",
                   finding=(known_clause_findings or {}).get(clause))
    ctx.add("traces_validated_against_impl", len(allt))
    ctx.set("rewriter_traces", {"repository_tests": len(tests), "repository_tests_result": tail, "skipped_large_models": big,
                                "generated_cases": len(case_traces), "rule_applications_executed_by_spec": n_apply,
                                "raised_prefixes": sum(1 for t in allt if verdicts[t["id"]][1] == "raised_prefix_consistent"),
                                "rejected_with_clause_of_other_property": other,
                                "selftest_corruptions_rejected": {t["id"]: verdicts[t["id"]][1] for t in self_t}})
