"""Hand-written script programs that use features outside the grammar of spec/Script.tla
(keyword-argument expressions, nested functions capturing outer variables, multi-output ops,
attribute parameters in conditions and loop bodies, optional inputs, boolean operators, subscripts
with the loop variable, zero-size tensors, depth-3 nesting).

Each module text defines a script function `f` and `INPUTS` (a list of keyword dicts).  They are
judged twice: (i) the trace the converter hooks record for `f` is validated by TLC against
Converter.tla - the If outputs / Loop state are computed BY THE SPEC from the abstract statement
tree; (ii) eager call vs the model on onnxruntime for every input (property C01 itself).
"""

HEADER = """import numpy as np
from typing import Tuple
from onnxscript import script, graph, FLOAT, INT64, BOOL
from onnxscript import opset18 as op
"""

PROGRAMS = {
    # a variable assigned in both branches and then read only inside a keyword-argument EXPRESSION
    "kw_expr_after_if": """
@script(default_opset=op)
def f(a: FLOAT[3], c: BOOL) -> FLOAT[3]:
    x = a + 1.0
    z = a
    if c:
        x = a * 2.0
        z = a * 3.0
    else:
        x = a * 5.0
        z = a * 7.0
    r = op.Add(z, B=x * 1.0)
    return r
A = np.array([1, 2, 3], dtype=np.float32)
INPUTS = [dict(a=A, c=np.array(True)), dict(a=A, c=np.array(False))]
""",
    # the same inside a loop body: x is read (by keyword expression) before it is assigned -> must be carried
    "kw_expr_in_loop": """
@script(default_opset=op)
def f(a: INT64, n: INT64) -> INT64:
    x = a + 1
    y = a
    for i in range(n):
        y = op.Add(y, B=x * 1)
        x = y * 2
    return y
INPUTS = [dict(a=np.array(2, dtype=np.int64), n=np.array(k, dtype=np.int64)) for k in (0, 1, 3)]
""",
    # a nested function (Scan body) captures a variable that both branches of a preceding if assign
    "nested_capture_after_if": """
@script(default_opset=op)
def f(X: FLOAT[4], c: BOOL) -> FLOAT[4]:
    y = op.Constant(value_float=1.0)
    z = X
    if c:
        y = op.Constant(value_float=10.0)
        z = X * 2.0
    else:
        y = op.Constant(value_float=100.0)
        z = X * 3.0
    @graph()
    def Sum(sum_in: FLOAT, nxt: FLOAT):
        sum_out = sum_in + nxt + y
        return sum_out, sum_out
    s0 = op.Constant(value_float=0.0)
    _all, cs = op.Scan(s0, z, body=Sum, num_scan_inputs=1)
    return cs
X = np.array([1, 2, 3, 4], dtype=np.float32)
INPUTS = [dict(X=X, c=np.array(True)), dict(X=X, c=np.array(False))]
""",
    # nested function capturing a variable that only one branch re-assigns; the function is defined inside a loop-free block
    "nested_capture_one_branch": """
@script(default_opset=op)
def f(X: FLOAT[3], c: BOOL) -> FLOAT[3]:
    y = op.Constant(value_float=1.0)
    if c:
        y = op.Constant(value_float=4.0)
    @graph()
    def Acc(s_in: FLOAT, nxt: FLOAT):
        s_out = s_in + nxt * y
        return s_out, s_out
    s0 = op.Constant(value_float=0.0)
    _l, cs = op.Scan(s0, X, body=Acc, num_scan_inputs=1)
    return cs
X = np.array([1, 2, 3], dtype=np.float32)
INPUTS = [dict(X=X, c=np.array(True)), dict(X=X, c=np.array(False))]
""",
    # the enclosing function assigns, AFTER the nested definition, variables named like the nested function's parameters and
    # locals (the body's formal inputs must stay distinct from every name of the enclosing graph)
    "nested_param_names_reused_outside": """
@script(default_opset=op)
def f(X: FLOAT[3], c: BOOL) -> FLOAT[3]:
    @graph()
    def Acc(acc: FLOAT, nxt: FLOAT):
        sq = nxt * nxt
        out = acc + sq
        return out, out
    s0 = op.Constant(value_float=0.0)
    _l, cs = op.Scan(s0, X, body=Acc, num_scan_inputs=1)
    acc = cs * 2.0
    nxt = acc + 1.0
    sq = nxt - X
    if c:
        out = sq + acc
    else:
        out = sq - acc
    return out + nxt
X = np.array([1, 2, 3], dtype=np.float32)
INPUTS = [dict(X=X, c=np.array(True)), dict(X=X, c=np.array(False))]
""",
    # ... and the same names used BEFORE the nested definition as well as after it, with the body capturing one of them
    "nested_param_names_around_definition": """
@script(default_opset=op)
def f(X: FLOAT[3], c: BOOL) -> FLOAT[3]:
    nxt = X + 1.0
    k = op.Constant(value_float=2.0)
    @graph()
    def Acc(acc: FLOAT, nxt: FLOAT):
        out = acc + nxt * k
        return out, out
    s0 = op.Constant(value_float=0.0)
    _l, cs = op.Scan(s0, nxt, body=Acc, num_scan_inputs=1)
    acc = cs + nxt
    if c:
        acc = acc * k
    out = acc - X
    return out
X = np.array([1, 2, 3], dtype=np.float32)
INPUTS = [dict(X=X, c=np.array(True)), dict(X=X, c=np.array(False))]
""",
    # a while nested DIRECTLY in a for whose condition variable is initialised before the OUTER loop and assigned only in the
    # inner body: the condition is carried across the outer iterations (exposed use of the while header)
    "while_cond_carried_across_outer_for": """
@script(default_opset=op)
def f(a: INT64, n: INT64) -> INT64:
    s = a * 1
    c = s < 10
    for i in range(3):
        while c:
            s = s + 4
            c = s < 10
    return s + n
INPUTS = [dict(a=np.array(k, dtype=np.int64), n=np.array(1, dtype=np.int64)) for k in (0, 3, 9, 20)]
""",
    # ... the same with an outer while, a second carried variable and a use of the condition after the loops
    "while_cond_carried_across_outer_while": """
@script(default_opset=op)
def f(a: INT64, n: INT64) -> Tuple[INT64, INT64]:
    s = a * 1
    t = n * 0
    c = s < 8
    go = t < n
    while go:
        while c:
            s = s + 3
            c = s < 8
        t = t + 1
        s = s - 5
        go = t < n
    return s, t
INPUTS = [dict(a=np.array(a, dtype=np.int64), n=np.array(n, dtype=np.int64)) for a, n in ((0, 2), (7, 3), (9, 1), (2, 0))]
""",
    # ... and with the inner while inside an if inside the for, the condition read only by the while header
    "while_cond_carried_through_if_in_for": """
@script(default_opset=op)
def f(a: INT64, n: INT64) -> INT64:
    s = a * 1
    c = s < 6
    for i in range(4):
        if i < n:
            while c:
                s = s + 2
                c = s < 6
        else:
            s = s - 1
    return s
INPUTS = [dict(a=np.array(a, dtype=np.int64), n=np.array(n, dtype=np.int64)) for a, n in ((0, 2), (5, 4), (9, 1), (1, 0))]
""",
    # equal-valued literals of different Python types in ONE scope, the later ones in positions where no sibling operand fixes
    # the type (1 then 1.0, 0 then 0.0, True beside 1): each literal keeps the element type of its own spelling
    "literals_equal_value_other_type": """
@script(default_opset=op)
def f(x: FLOAT[3], c: BOOL) -> FLOAT[3]:
    n = op.Shape(x)
    m = n + 1 - 1
    w = op.Expand(1.0, m)
    k = op.Where(c, 1, 0)
    kf = op.Where(c, 1.0, 0.0)
    r = w / 2 + x * 0 + op.Cast(k, to=1) * kf
    return r
X = np.array([1, 2, 3], dtype=np.float32)
INPUTS = [dict(x=X, c=np.array(True)), dict(x=X, c=np.array(False))]
""",
    # tuple assignment from a multi-output op in both branches, both results live afterwards
    "split_in_branches": """
@script(default_opset=op)
def f(x: FLOAT[4], c: BOOL) -> FLOAT[2]:
    lo, hi = op.Split(x, num_outputs=2)
    if c:
        hi, lo = op.Split(x * 2.0, num_outputs=2)
    else:
        lo = lo + hi
    return lo - hi
X = np.array([1, 2, 3, 5], dtype=np.float32)
INPUTS = [dict(x=X, c=np.array(True)), dict(x=X, c=np.array(False))]
""",
    # bool attribute used as an if condition, float attribute promoted inside a loop body
    "attrs_in_control_flow": """
@script(default_opset=op)
def f(x: FLOAT[2], n: INT64, flag: bool = True, alpha: float = 0.5) -> FLOAT[2]:
    y = x
    for i in range(n):
        if flag:
            y = y * alpha
        else:
            y = y + alpha
    return y
X = np.array([4, -8], dtype=np.float32)
INPUTS = [dict(x=X, n=np.array(2, dtype=np.int64)), dict(x=X, n=np.array(0, dtype=np.int64), alpha=2.0),
          dict(x=X, n=np.array(3, dtype=np.int64), flag=False, alpha=1.5)]
""",
    # while loop whose condition mixes two carried variables, break inside a for nested in it (depth 3)
    "while_for_if": """
@script(default_opset=op)
def f(a: INT64, n: INT64) -> Tuple[INT64, INT64]:
    x = a
    t = a * 0
    go = x < 6
    while go:
        for i in range(n):
            if x > 3:
                t = t + x
            else:
                t = t - 1
            x = x + 1
        x = x + 1
        go = x < 6
    return x, t
INPUTS = [dict(a=np.array(a, dtype=np.int64), n=np.array(n, dtype=np.int64)) for a in (0, 4, 9) for n in (0, 2)]
""",
    # for loop with a trailing conditional break; loop variable read after the loop; accumulation through a subscript
    "break_and_loopvar": """
@script(default_opset=op)
def f(v: INT64[5], lim: INT64) -> Tuple[INT64, INT64]:
    s = lim * 0
    i = lim * 0 - 1
    for i in range(5):
        s = s + v[i]
        stop = s > lim
        if stop:
            break
    last = i + lim * 0
    return s, last
V = np.array([3, 1, 4, 1, 5], dtype=np.int64)
INPUTS = [dict(v=V, lim=np.array(k, dtype=np.int64)) for k in (0, 4, 8, 100)]
""",
    # boolean operators and chained comparisons in conditions
    "bool_ops_conditions": """
@script(default_opset=op)
def f(a: INT64, b: INT64) -> INT64:
    r = a
    p = a > 0
    q = b > 0
    both = op.And(p, q)
    either = op.Or(p, q)
    if both:
        r = a + b
    else:
        if either:
            r = a - b
        else:
            r = a * b
    np_ = not p
    if np_:
        r = r + 100
    return r
INPUTS = [dict(a=np.array(a, dtype=np.int64), b=np.array(b, dtype=np.int64)) for a in (-2, 3) for b in (-5, 7)]
""",
    # optional input omitted in one branch (Clip without max), given in the other
    "optional_input_in_branches": """
@script(default_opset=op)
def f(x: FLOAT[4], c: BOOL) -> FLOAT[4]:
    lo = op.Constant(value_float=0.0)
    hi = op.Constant(value_float=2.0)
    if c:
        y = op.Clip(x, lo)
    else:
        y = op.Clip(x, None, hi)
    return y
X = np.array([-3, 1, 2.5, 7], dtype=np.float32)
INPUTS = [dict(x=X, c=np.array(True)), dict(x=X, c=np.array(False))]
""",
    # zero-size and size-1 dimensions through a loop with Concat growth
    "zero_size_loop": """
@script(default_opset=op)
def f(x: FLOAT["N", 2], n: INT64) -> FLOAT["M", 2]:
    acc = x
    for i in range(n):
        acc = op.Concat(acc, x, axis=0)
    return acc
INPUTS = [dict(x=np.zeros((0, 2), dtype=np.float32), n=np.array(2, dtype=np.int64)),
          dict(x=np.ones((1, 2), dtype=np.float32), n=np.array(0, dtype=np.int64)),
          dict(x=np.ones((1, 2), dtype=np.float32), n=np.array(3, dtype=np.int64))]
""",
    # aliasing inside a loop body: both names carried, swapped every iteration (parallel assignment)
    "swap_in_loop": """
@script(default_opset=op)
def f(a: INT64, b: INT64, n: INT64) -> Tuple[INT64, INT64]:
    x = a
    y = b
    for i in range(n):
        x, y = y, x + y
    return x, y
INPUTS = [dict(a=np.array(1, dtype=np.int64), b=np.array(2, dtype=np.int64), n=np.array(k, dtype=np.int64)) for k in (0, 1, 4)]
""",
    # user variables whose names look like the converter's generated names
    "generated_looking_names": """
@script(default_opset=op)
def f(cond_in: INT64, x_0: INT64) -> INT64:
    cond = cond_in > 0
    x = x_0
    x_1 = x_0 + 1
    if cond:
        x = x_1 * 2
    else:
        x_1 = x + 5
    for i in range(x_0):
        cond_out = x + i
        x = cond_out + x_1
    return x
INPUTS = [dict(cond_in=np.array(c, dtype=np.int64), x_0=np.array(k, dtype=np.int64)) for c in (0, 1) for k in (0, 2)]
""",
    # sub-function with an attribute called by keyword inside a loop, its result feeding the loop condition
    "subfunction_kw_in_while": """
@script(default_opset=op)
def scale(u: INT64, k: int = 2) -> INT64:
    return u * k + 1

@script(default_opset=op)
def f(a: INT64) -> INT64:
    x = a
    go = x < 50
    while go:
        x = scale(x, k=3)
        go = x < 50
    return x
INPUTS = [dict(a=np.array(k, dtype=np.int64)) for k in (1, 20, 77)]
""",
    # while loop with a trailing conditional break: the loop goes on only while its own condition holds AND the break does not fire
    "while_with_break": """
@script(default_opset=op)
def f(a: INT64, lim: INT64) -> INT64:
    x = a
    go = x < 10
    while go:
        x = x + 3
        go = x < 10
        stop = x > lim
        if stop:
            break
    return x
INPUTS = [dict(a=np.array(a, dtype=np.int64), lim=np.array(l, dtype=np.int64)) for a, l in ((0, 100), (0, 4), (20, 100), (9, 0))]
""",
    # a chain of script functions three deep whose innermost call sits inside an if of the middle function: every called
    # function has to be collected into the model
    "subfunction_chain_nested_call": """
@script(default_opset=op)
def hh(u: INT64) -> INT64:
    return u * 2 + 1

@script(default_opset=op)
def gg(u: INT64) -> INT64:
    r = u
    if u > 0:
        r = hh(u)
    else:
        r = u - 1
    return r

@script(default_opset=op)
def f(a: INT64, n: INT64) -> INT64:
    x = a
    for i in range(n):
        x = gg(x) + 1
    return x
INPUTS = [dict(a=np.array(a, dtype=np.int64), n=np.array(n, dtype=np.int64)) for a in (-2, 3) for n in (0, 2)]
""",
    # a variable defined only inside the loop body and used after it must be refused or right (never stale)
    "if_in_loop_one_branch": """
@script(default_opset=op)
def f(a: INT64, n: INT64) -> Tuple[INT64, INT64]:
    x = a
    y = a * 0
    for i in range(n):
        if x > 2:
            y = y + x
        x = x + 1
    return x, y
INPUTS = [dict(a=np.array(a, dtype=np.int64), n=np.array(n, dtype=np.int64)) for a in (0, 3) for n in (0, 1, 4)]
""",
}


# ---- generated family: an if statement inside a loop body whose variables are needed only AFTER the loop (or also inside it) ----------
# loop kind x (if/else assigning in both branches | if without else) x (y also read at the top of the body | only after the loop)
# x (the if is the first | the last statement of the body); x is read and re-assigned inside the loop in every program.
def _construct_in_loop():
    out = {}
    for loop in ("for", "while"):
        for inner in ("ifelse", "ifonly"):
            for yread in (False, True):
                for first in (True, False):
                    body = []
                    if yread:
                        body.append("x = x + y")
                    ifs = ["c = x > 3", "if c:", "    y = x + 10", "    x = x + 1"]
                    if inner == "ifelse":
                        ifs += ["else:", "    y = x - 10", "    x = x + 2"]
                    other = ["x = x * 2"]
                    body += (ifs + other) if first else (other + ifs)
                    if loop == "for":
                        head = ["for i in range(n):"]
                        tail = []
                        pre = []
                    else:
                        pre = ["k = a * 0", "w = k < n"]
                        head = ["while w:"]
                        tail = ["k = k + 1", "w = k < n"]
                    lines = ["x = a + 1", "y = a * 2"] + pre + head + ["    " + l for l in body + tail] + ["return x, y"]
                    name = f"gen_{loop}_{inner}_{'yread' if yread else 'yafter'}_{'iffirst' if first else 'iflast'}"
                    out[name] = ("\n@script(default_opset=op)\ndef f(a: INT64, n: INT64) -> Tuple[INT64, INT64]:\n"
                                 + "".join("    " + l + "\n" for l in lines)
                                 + "INPUTS = [dict(a=np.array(a, dtype=np.int64), n=np.array(n, dtype=np.int64)) for a in (-1, 2, 5) for n in (0, 1, 3)]\n")
    return out


PROGRAMS.update(_construct_in_loop())


# ---- generated family: the same constant subscript inside two constructs (sibling or nested loops / branches): the 1-D int64
# index constants a subscript needs must be defined in (or visible from) every graph that reads them -----------------------------
def _shared_subscripts():
    out = {}

    def loop(kind, var, body, ind):
        pad = "    " * ind
        if kind == "for":
            return [f"{pad}for {var} in range(n):"] + [f"{pad}    {l}" for l in body]
        if kind == "while":
            return [f"{pad}k{var} = n * 0", f"{pad}w{var} = k{var} < n", f"{pad}while w{var}:"] + [f"{pad}    {l}" for l in body] + \
                   [f"{pad}    k{var} = k{var} + 1", f"{pad}    w{var} = k{var} < n"]
        return [f"{pad}c{var} = n > 1", f"{pad}if c{var}:"] + [f"{pad}    {l}" for l in body] + [f"{pad}else:", f"{pad}    acc = acc + 1"]

    for first in ("for", "while", "if"):
        for second in ("for", "while", "if"):
            for nested in (False, True):
                use1 = "acc = acc + op.Squeeze(v[1:2])"
                use2 = "acc = acc * 2 + op.Squeeze(v[1:2]) + op.Squeeze(v[0:1])"
                if nested:
                    inner = loop(second, "j", [use2], 0)
                    lines = loop(first, "i", inner + [use1], 0)
                else:
                    lines = loop(first, "i", [use1], 0) + loop(second, "j", [use2], 0)
                name = f"gen_subscript_{first}_{'in' if nested else 'then'}_{second}"
                out[name] = ("\n@script(default_opset=op)\ndef f(v: INT64[3], n: INT64) -> INT64:\n    acc = n * 1\n"
                             + "".join("    " + l + "\n" for l in lines) + "    return acc\n"
                             + "INPUTS = [dict(v=np.array([5, 7, 11], dtype=np.int64), n=np.array(n, dtype=np.int64)) for n in (0, 1, 2)]\n")
    return out


PROGRAMS.update(_shared_subscripts())


# session 6 (seeded C01-m12): a module global read by f, and a LATER script function made by a factory whose closure variable has
# the same name: decorating the second one must not change what f reads (its own module globals), eagerly or as a model
PROGRAMS["global_then_closure_of_the_same_name"] = """
factor = 10.0

@script(default_opset=op)
def f(x: FLOAT[3]) -> FLOAT[3]:
    return op.Mul(x, factor)

def make(factor):
    @script(default_opset=op)
    def inner(y: FLOAT[3]) -> FLOAT[3]:
        return op.Add(y, factor)
    return inner

g3 = make(3.0)
INPUTS = [dict(x=np.array([1, 2, 3], dtype=np.float32))]
"""


def sources():
    return {name: HEADER + body for name, body in PROGRAMS.items()}
