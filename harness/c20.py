"""C20 - saving with external data round-trips and never disturbs the in-memory model.

spec/ExternalSave.tla is a state machine over the real call sequence of
save_model_with_external_data -> ir.save(external_data=...) with a nondeterministic OSError at any
file-system call.  TLC (1) proves the design (no deviations) satisfies MemUnchanged / RoundTrip /
Refusal for every model x fault point inside the bounds, (2) shows the invariants can fail
(vacuity / witness configs), (3) with the named deviations switched on emits every final state
(model, verbose, pre-existing files, fault index k, fault mode, and the predicted outcome, call
trace, file layout, state of every tensor) as one JSON case.

Direction A: every case is concretised (dtypes, shapes, bytes, path style from ctx.seed), the REAL
function is run in a scratch directory under a file-system shim that counts open/write/flush/close
calls and raises OSError at the k-th; the in-memory model before/after, the files on disk and
ir.load of the result are judged against the PROPERTY (VIOLATION) and against the model's
prediction (SPEC-MISMATCH).  Direction B: the shim's recorded call sequence must be exactly the
spec's `trace` (a file-system call the spec does not know, or one in a different order, is a
mismatch).
"""
from __future__ import annotations

import builtins
import collections
import concurrent.futures
import hashlib
import importlib.util
import json
import logging
import os
import pathlib
import random
import re
import shutil

import numpy as np

from . import core

LEVEL = "model_checking"

DEV_DEST = "dest_backing_overwritten"
DEV_GUARD = "guard_main_graph_only"

# kind -> (graph, backing, nbytes, tensor class); must agree with ExternalSave.tla!K (checked in run())
ALSO_INPUT = {"uninitIn", "subUIn"}     # uninitialized AND listed in the inputs of their graph
KINDS = {
    "uninit": ("main", "none", 0), "subU": ("sub", "none", 0), "uninitIn": ("main", "none", 0), "subUIn": ("sub", "none", 0), "huge": ("main", "mem", 1048584),
    "proto": ("main", "mem", 512), "mid": ("main", "mem", 400), "big": ("main", "mem", 264),
    "subB": ("sub", "mem", 320), "extB": ("main", "other", 400), "dstB": ("main", "dest", 288),
    "edge": ("main", "mem", 256), "small": ("main", "mem", 8), "scalar": ("main", "mem", 8),
    "zero": ("main", "mem", 0), "extS": ("main", "other", 16), "dstS": ("main", "dest", 16),
    # same file NAME as the destination data file, DIFFERENT directory (loaded from A/m.onnx, saved as B/m.onnx)
    "namB": ("main", "other", 336), "namS": ("main", "other", 24),
}
SAME_NAME = {"namB", "namS"}
HDR = 16
# dtype menu: (ir dtype name, numpy dtype factory, bytes per element as a fraction num/den)
_DT = [
    ("FLOAT", "float32", 4, 1), ("DOUBLE", "float64", 8, 1), ("INT64", "int64", 8, 1), ("INT32", "int32", 4, 1),
    ("FLOAT16", "float16", 2, 1), ("UINT8", "uint8", 1, 1), ("INT8", "int8", 1, 1), ("BOOL", "bool", 1, 1),
    ("INT16", "int16", 2, 1), ("UINT16", "uint16", 2, 1), ("BFLOAT16", "ml:bfloat16", 2, 1),
    ("FLOAT8E4M3FN", "ml:float8_e4m3fn", 1, 1), ("INT4", "ml:int4", 1, 2), ("UINT4", "ml:uint4", 1, 2),
]


class InjectedFault(OSError):
    pass


# ------------------------------------------------------------------ file-system shim
class Shim:
    """Counts the file-system calls made on files below `root` and fails the k-th with OSError.

    Calls that can fail: open (any mode), and write / flush / close of a file opened for writing.
    mode "partial": a failing write first writes half of its bytes (short write, e.g. disk full)."""

    def __init__(self, root, roles, fail_at=0, mode="clean"):
        self.root = os.path.realpath(root)
        self.roles = roles
        self.fail_at = fail_at
        self.mode = mode
        self.n = 0
        self.events = []
        self.fired = None
        self.unknown = []
        self._open = builtins.open

    def role(self, name):
        return self.roles.get(name, "?" + name)

    def tick(self, ev):
        self.events.append(ev)
        self.n += 1
        if self.n == self.fail_at:
            self.fired = InjectedFault(28, "injected by /verif C20")
            return True
        return False

    def open(self, file, mode="r", *a, **k):
        p = None
        if isinstance(file, (str, bytes, os.PathLike)):
            try:
                p = os.path.realpath(os.fspath(file))
            except (TypeError, ValueError):
                p = None
            if isinstance(p, bytes):
                p = os.fsdecode(p)
        if p is None or not p.startswith(self.root + os.sep):
            return self._open(file, mode, *a, **k)
        role = self.role(os.path.relpath(p, self.root))
        writing = any(c in mode for c in "wax+")
        if self.tick(["open_w" if writing else "open_r", role, 0]):
            raise self.fired
        return _Proxy(self, self._open(file, mode, *a, **k), role, writing)

    def __enter__(self):
        builtins.open = self.open
        for name in ("replace", "rename", "remove", "unlink", "truncate"):
            orig = getattr(os, name)
            setattr(self, "_os_" + name, orig)

            def wrapped(*a, _orig=orig, _name=name, **k):
                try:
                    p = os.path.realpath(os.fspath(a[0]))
                    if p.startswith(self.root + os.sep):
                        self.unknown.append([_name, os.path.relpath(p, self.root)])
                except Exception:
                    pass
                return _orig(*a, **k)

            setattr(os, name, wrapped)
        return self

    def __exit__(self, *exc):
        builtins.open = self._open
        for name in ("replace", "rename", "remove", "unlink", "truncate"):
            setattr(os, name, getattr(self, "_os_" + name))


class _Proxy:
    def __init__(self, shim, f, role, writing):
        self._s, self._f, self._r, self._w = shim, f, role, writing

    def write(self, b):
        n = len(b)
        if self._s.tick(["write", self._r, n if self._r != "model" else -1]):
            if self._s.mode == "partial":
                self._f.write(bytes(b[: n // 2]))
            raise self._s.fired
        return self._f.write(b)

    def flush(self):
        if self._w and self._s.tick(["flush", self._r, 0]):
            raise self._s.fired
        return self._f.flush()

    def close(self):
        if self._f.closed:
            return None
        if self._w and self._s.tick(["close", self._r, 0]):
            self._f.close()          # the descriptor is released, the error is reported
            raise self._s.fired
        return self._f.close()

    def __enter__(self):
        return self

    def __exit__(self, *a):
        self.close()
        return False

    def __iter__(self):
        return iter(self._f)

    def __getattr__(self, k):
        return getattr(self._f, k)


class _FakeBar:
    """stands in for tqdm.tqdm so that the progress callback's calls are observable"""
    log: list = []

    def __init__(self, *a, **k):
        self.total = None

    def __enter__(self):
        return self

    def __exit__(self, *a):
        _FakeBar.log.append(["total", self.total])
        return False

    def update(self, n=1):
        _FakeBar.log.append(["update", n])

    def set_description(self, s, *a, **k):
        _FakeBar.log.append(["desc", s])


# ------------------------------------------------------------------ concretisation
def _np_dtype(spec):
    if spec.startswith("ml:"):
        import ml_dtypes

        return np.dtype(getattr(ml_dtypes, spec[3:]))
    return np.dtype(spec)


def _make_array(rng, nbytes, kind):
    """(ir dtype name, ndarray) with exactly nbytes of payload; dtype and shape drawn from rng"""
    if kind == "zero":
        dt = rng.choice(_DT[:10])
        return dt[0], np.zeros(rng.choice([(0,), (0, 3), (2, 0, 1)]), dtype=_np_dtype(dt[1]))
    if kind == "scalar":
        dt = rng.choice([d for d in _DT if d[2] == 8])
        raw = rng.randbytes(8)
        return dt[0], np.frombuffer(raw, dtype=_np_dtype(dt[1])).reshape(()).copy()
    menu = [d for d in _DT if (nbytes * d[3]) % d[2] == 0]
    if kind == "huge":
        menu = [d for d in menu if d[0] in ("FLOAT", "DOUBLE", "INT64", "UINT8", "FLOAT16")]
    dt = rng.choice(menu)
    count = nbytes * dt[3] // dt[2]
    npdt = _np_dtype(dt[1])
    if dt[0] == "BOOL":
        arr = np.frombuffer(rng.randbytes(count), dtype=np.uint8) % 2 == 1
    elif dt[0] in ("INT4", "UINT4"):
        vals = np.frombuffer(rng.randbytes(count), dtype=np.uint8) % 16
        arr = (vals.astype(np.int8) - (8 if dt[0] == "INT4" else 0)).astype(npdt)
    else:
        arr = np.frombuffer(rng.randbytes(count * npdt.itemsize), dtype=npdt).copy()
    shapes = [(count,)]
    for a in (2, 4, 5, 8):
        if count % a == 0 and count // a > 0:
            shapes.append((a, count // a))
            shapes.append((count // a, 1, a))
    return dt[0], arr.reshape(rng.choice(shapes))


def build(case, root, rng):
    """materialise the abstract model of `case` in directory `root`; returns everything the judge needs"""
    import onnx
    from onnxscript import ir

    # the model file's format follows its extension (ir.save / ir.load): text formats and no extension are legal paths too
    style = rng.choice(["abs", "abs", "pathlib", "rel", "dots", "nested", "textproto", "noext", "json"])
    mname = {"dots": "net.v2.onnx", "nested": os.path.join("out", "m.onnx"), "textproto": "m.textproto", "noext": "m", "json": "m.json"}.get(style, "m.onnx")
    mdir = os.path.join(root, os.path.dirname(mname))
    os.makedirs(mdir, exist_ok=True)
    dname = mname + ".data"
    inits = case["inits"]
    vals, origs, obytes = [], [], []
    other = bytearray(rng.randbytes(HDR))
    dest = bytearray(rng.randbytes(HDR))
    twin = bytearray(rng.randbytes(HDR))      # <root>/src/<data file name>: same name, other directory
    twin_dir = os.path.join(root, "src")
    twin_rel = os.path.join("src", os.path.basename(dname))
    # the file behind the "other"-backed tensors: an unrelated name, or a NEAR name in the model's own directory (the model's
    # stem + ".data", as another tool would call it: m.data beside m.onnx).  The design writes <model file name>.data and no
    # other file, so such a sibling must survive the save and keep backing its tensors (session 6, seeded C20-m10).
    base = os.path.basename(mname)
    stem = base.rsplit(".", 1)[0] if "." in base else base
    near = [n for n in (stem + ".data", base + ".dat", stem.split(".")[0] + ".data") if n != os.path.basename(dname)]
    oname = rng.choice(["pre.bin"] + near + near)
    other_rel = oname if oname == "pre.bin" else os.path.join(os.path.dirname(mname), oname)
    other_dir = os.path.dirname(os.path.join(root, other_rel))
    for i, kind in enumerate(inits, 1):
        g, back, n = KINDS[kind]
        name = f"t{i}_{kind}"
        dtn, arr = _make_array(rng, n, kind)
        dtype = ir.DataType[dtn]
        tmp = ir.Tensor(arr, name=name)
        if tmp.dtype != dtype or tmp.nbytes != n:
            raise core.MachineryError(f"concretisation of {kind}: {tmp.dtype} {tmp.nbytes} != {dtype} {n}")
        raw = tmp.tobytes()
        v = ir.Value(name=name, type=ir.TensorType(dtype), shape=ir.Shape(list(arr.shape)))
        if back == "none":
            t = None
        elif kind == "proto":
            tp = onnx.TensorProto()
            tp.name = name
            tp.data_type = int(dtype)
            tp.dims.extend(arr.shape)
            tp.raw_data = raw
            t = ir.serde.TensorProtoTensor(tp)
        elif back == "mem":
            t = tmp
        else:
            if kind in SAME_NAME:
                buf, loc, bdir = twin, os.path.basename(dname), twin_dir
            elif back == "other":
                buf, loc, bdir = other, oname, other_dir
            else:
                buf, loc, bdir = dest, os.path.basename(dname), mdir
            t = ir.ExternalTensor(loc, len(buf), n, dtype, shape=ir.Shape(list(arr.shape)), name=name, base_dir=bdir)
            buf.extend(raw)
        v.const_value = t
        vals.append(v)
        origs.append(t)
        obytes.append(None if t is None else raw)
    with open(os.path.join(root, other_rel), "wb") as f:
        f.write(bytes(other))
    os.makedirs(twin_dir, exist_ok=True)
    with open(os.path.join(root, twin_rel), "wb") as f:
        f.write(bytes(twin))
    old_model = b"OLD-MODEL-" + rng.randbytes(20)
    if case["stale"]:
        with open(os.path.join(root, dname), "wb") as f:
            f.write(bytes(dest))
        with open(os.path.join(root, mname), "wb") as f:
            f.write(old_model)
    # graph: every main-graph initializer feeds an Identity; every subgraph initializer lives in the
    # then-branch of its own If (optionally nested one level deeper)
    x = ir.Value(name="x", type=ir.TensorType(ir.DataType.FLOAT), shape=ir.Shape([2]))
    cond = ir.Value(name="cond", type=ir.TensorType(ir.DataType.BOOL), shape=ir.Shape([]))
    nodes, outs, main_inits, extra_inputs = [], [], [], []

    def branch(i, v, deep, as_input, nodeless=False):
        if nodeless:
            # a branch WITHOUT any node: it returns its own initializer (graphs reachable only through node.graph are missed)
            inner = ir.Graph([v] if as_input else [], [v], nodes=[], initializers=[v], name=f"then{i}")
        else:
            idn = ir.node("Identity", [v], outputs=[ir.Value(name=f"s{i}")], name=f"sid{i}")
            inner = ir.Graph([v] if as_input else [], [idn.outputs[0]], nodes=[idn], initializers=[v], name=f"then{i}")
        cn = ir.node("Constant", [], attributes={"value_float": 1.5}, outputs=[ir.Value(name=f"e{i}")], name=f"ec{i}")
        els = ir.Graph([], [cn.outputs[0]], nodes=[cn], name=f"else{i}")
        ifn = ir.node("If", [cond], attributes={"then_branch": inner, "else_branch": els},
                      outputs=[ir.Value(name=f"if{i}")], name=f"if{i}")
        if not deep:
            return ifn
        outer = ir.Graph([], [ifn.outputs[0]], nodes=[ifn], name=f"outer_then{i}")
        cn2 = ir.node("Constant", [], attributes={"value_float": 2.5}, outputs=[ir.Value(name=f"oe{i}")], name=f"oec{i}")
        els2 = ir.Graph([], [cn2.outputs[0]], nodes=[cn2], name=f"outer_else{i}")
        return ir.node("If", [cond], attributes={"then_branch": outer, "else_branch": els2},
                       outputs=[ir.Value(name=f"oif{i}")], name=f"oif{i}")

    for i, (kind, v) in enumerate(zip(inits, vals), 1):
        if KINDS[kind][0] == "main":
            n = ir.node("Identity", [v], outputs=[ir.Value(name=f"o{i}")], name=f"id{i}")
            main_inits.append(v)
            if kind in ALSO_INPUT or (KINDS[kind][1] == "mem" and rng.random() < 0.25):
                extra_inputs.append(v)     # keep-initializers-as-inputs style
        else:
            n = branch(i, v, rng.random() < 0.4, kind in ALSO_INPUT or (KINDS[kind][1] == "mem" and rng.random() < 0.25),
                       nodeless=rng.random() < 0.3)
        nodes.append(n)
        outs.append(n.outputs[0])
    xn = ir.node("Neg", [x], outputs=[ir.Value(name="y")], name="neg")
    graph = ir.Graph([x, cond] + extra_inputs, [xn.outputs[0]] + outs, nodes=[xn] + nodes, initializers=main_inits,
                     opset_imports={"": 18}, name="g")
    model = ir.Model(graph, ir_version=9, producer_name="verif-c20")
    return {"model": model, "vals": vals, "origs": origs, "obytes": obytes, "style": style, "mname": mname, "dname": dname,
            "old_model": old_model, "dest0": bytes(dest), "roles": {mname: "model", dname: "data", other_rel: "other", twin_rel: "other"}, "other_rel": other_rel}


# ------------------------------------------------------------------ projection
def _tensor_sig(t):
    if t is None:
        return None
    return [t.dtype.name, list(t.shape.numpy()) if hasattr(t.shape, "numpy") else list(t.shape)]


def _attr(a):
    from onnxscript import ir

    if a.type == ir.AttributeType.GRAPH:
        return ["graph", a.value.name]
    if a.type == ir.AttributeType.TENSOR:
        return ["tensor", _tensor_sig(a.value), hashlib.sha1(a.value.tobytes()).hexdigest()]
    return [a.type.name, repr(a.value)]


def structure(model, with_identity=False):
    """names, nodes, attributes, interface and initializer signatures of all graphs of a model"""
    out = {"ir_version": model.ir_version, "producer": model.producer_name or "", "opsets": dict(model.graph.opset_imports),
           "graphs": []}
    for g in model.graphs():
        gi = {"name": g.name or "", "inputs": [[v.name, str(v.type), str(v.shape)] for v in g.inputs],
              "outputs": [v.name for v in g.outputs],
              "nodes": [[n.name or "", n.domain, n.op_type, [v.name if v is not None else None for v in n.inputs],
                         [v.name for v in n.outputs], {k: _attr(a) for k, a in sorted(n.attributes.items())}] for n in g],
              "initializers": {}}
        for name, v in g.initializers.items():
            e = [v.name, _tensor_sig(v.const_value)]
            if with_identity:
                e += [id(v), id(v.const_value), type(v.const_value).__name__,
                      getattr(v.const_value, "name", None)]
            gi["initializers"][name] = e
        out["graphs"].append(gi)
    return out


def loaded_view(path, built):
    """what ir.load(path) gives: structure, and per initializer of the case: bytes ok? + placement"""
    from onnxscript import ir

    m = ir.load(path)
    st = structure(m)
    byname = {}
    for g in m.graphs():
        for name, v in g.initializers.items():
            byname[name] = v
    per = []
    for v, raw in zip(built["vals"], built["obytes"]):
        lv = byname.get(v.name)
        if lv is None or lv.const_value is None:
            per.append({"present": False})
            continue
        t = lv.const_value
        e = {"present": True}
        try:
            e["bytes_ok"] = (raw is not None and bytes(t.tobytes()) == raw)
        except Exception as ex:  # unreadable
            e["bytes_ok"] = False
            e["error"] = f"{type(ex).__name__}: {str(ex)[:100]}"
        e["sig_ok"] = _tensor_sig(t) == _tensor_sig(v.const_value) if v.const_value is not None else False
        if isinstance(t, ir.ExternalTensor):
            e["place"] = ["ext", t.offset or 0, t.length, str(t.location)]
        else:
            e["place"] = ["inline"]
        per.append(e)
    return st, per


# ------------------------------------------------------------------ one case against the real code
def run_case(arg):
    idx, case, seed = arg
    from onnxscript import ir
    from onnxscript._framework_apis import torch_2_5 as api

    logging.getLogger("onnx_ir").setLevel(logging.CRITICAL)
    logging.getLogger("onnx_ir.external_data").setLevel(logging.CRITICAL)
    logging.getLogger("onnx_ir.serde").setLevel(logging.CRITICAL)
    rng = random.Random(f"{seed}:{json.dumps(case['inits'])}:{case['verbose']}:{case['stale']}")
    root = os.path.join(core.scratch_sub("c20"), f"case_{os.getpid()}_{idx}")
    os.makedirs(root)
    cwd = os.getcwd()
    obs = {"idx": idx}
    tqdm_mod = None
    tqdm_orig = None
    try:
        b = build(case, root, rng)
        model = b["model"]
        before = structure(model, with_identity=True)
        disk0 = snapshot_dir(root)
        style = b["style"]
        target = os.path.join(root, b["mname"])
        if style == "pathlib":
            arg_path = pathlib.Path(target)
        elif style == "rel":
            os.chdir(root)
            arg_path = b["mname"]
        else:
            arg_path = target
        has_tqdm = importlib.util.find_spec("tqdm") is not None
        if case["verbose"] and has_tqdm:
            import tqdm as tqdm_mod

            tqdm_orig = tqdm_mod.tqdm
            _FakeBar.log = []
            tqdm_mod.tqdm = _FakeBar
        shim = Shim(root, b["roles"], fail_at=case["k"], mode=case["mode"])
        exc = None
        with shim:
            try:
                api.save_model_with_external_data(model, arg_path, verbose=case["verbose"])
            except BaseException as ex:  # noqa: BLE001 - everything the save raises is an observation
                exc = ex
        if tqdm_mod is not None:
            tqdm_mod.tqdm = tqdm_orig
            tqdm_mod = None
        os.chdir(cwd)
        # ---- outcome
        if exc is None:
            outcome = "ok"
        elif exc is shim.fired:
            outcome = "oserror"
        elif isinstance(exc, ValueError) and not shim.events and "uninitialized" in str(exc):
            outcome = "refused"
        elif isinstance(exc, OSError) and shim.fired is not None:
            outcome = "oserror"
        else:
            outcome = f"error:{type(exc).__name__}: {str(exc)[:200]}"
        obs.update(outcome=outcome, trace=shim.events, fired=shim.fired is not None, unknown_calls=shim.unknown,
                   style=style, early=(exc is not None and not shim.events))
        # ---- the in-memory model
        after = structure(model, with_identity=True)
        obs["structure_same"] = (after == before)
        if after != before:
            obs["structure_diff"] = _first_diff(before, after)
        status = []
        for v, t0, raw in zip(b["vals"], b["origs"], b["obytes"]):
            t = v.const_value
            if t is not t0:
                status.append("replaced")
            elif t0 is None:
                status.append("same")
            else:
                try:
                    ok = bytes(t0.tobytes()) == raw
                    status.append("same" if ok else "stale")
                except Exception:
                    status.append("invalid" if isinstance(t0, ir.ExternalTensor) and not t0.valid() else "stale")
        obs["after"] = status
        # ---- the disk
        disk1 = snapshot_dir(root)
        obs["disk_same"] = disk1 == disk0
        obs["files"] = sorted(disk1)
        mp, dp = os.path.join(root, b["mname"]), os.path.join(root, b["dname"])
        if not os.path.exists(mp):
            obs["modelf"] = "absent"
        else:
            mb = open(mp, "rb").read()
            obs["modelf"] = "old" if (case["stale"] and mb == b["old_model"]) else ("empty" if not mb else "written")
        obs["data_exists"] = os.path.exists(dp)
        keep = {b["mname"], b["other_rel"]}
        # files that existed before the call, are neither the model file nor <model file name>.data, and changed or vanished
        obs["foreign_changed"] = sorted(f for f in disk0 if f not in (b["mname"], b["dname"]) and disk1.get(f) != disk0[f])
        obs["sibling_written"] = sorted(f for f in disk1 if f not in keep and disk0.get(f) != disk1[f]
                                        and os.path.dirname(f) == os.path.dirname(b["mname"]))
        obs["data_size"] = os.path.getsize(dp) if obs["data_exists"] else 0
        if obs["data_exists"]:
            db = open(dp, "rb").read()
            bad = []
            for s in case["segs"]:
                got = db[s["off"]: s["off"] + s["w"]]
                if s["id"] > 0:
                    want = b["obytes"][s["id"] - 1][: s["w"]]
                elif s["id"] == 0:
                    want = b"\0" * s["w"]
                else:
                    want = b["dest0"][:HDR]
                if got != want:
                    bad.append(s)
            obs["data_bad_segments"] = bad
        # ---- load it back
        if outcome == "ok":
            try:
                st, per = loaded_view(arg_path if style != "rel" else mp, b)
                want = structure(model)
                obs["loaded_structure_same"] = (st == want)
                if st != want:
                    obs["loaded_structure_diff"] = _first_diff(want, st)
                obs["loaded"] = per
            except Exception as ex:
                obs["load_error"] = f"{type(ex).__name__}: {str(ex)[:200]}"
        if case["verbose"] and has_tqdm:
            cbs = []
            for e in _FakeBar.log:
                if e[0] == "desc":
                    m = re.match(r"Saving (\S+) \((.*)\) at offset (\d+)$", e[1])
                    cbs.append([int(m.group(1).split("_")[0][1:]), int(m.group(3))] if m else ["?", e[1]])
            obs["cbs"] = cbs
            obs["cb_updates"] = sum(1 for e in _FakeBar.log if e[0] == "update")
            tot = [e[1] for e in _FakeBar.log if e[0] == "total"]
            obs["cb_total"] = tot[-1] if tot else None
        else:
            obs["cbs"] = [] if not case["verbose"] else None
    finally:
        if tqdm_mod is not None:
            tqdm_mod.tqdm = tqdm_orig
        os.chdir(cwd)
        model = b = None
        shutil.rmtree(root, ignore_errors=True)
    return obs


def snapshot_dir(root):
    out = {}
    for d, _, files in os.walk(root):
        for fn in files:
            p = os.path.join(d, fn)
            with open(p, "rb") as f:
                out[os.path.relpath(p, root)] = hashlib.sha1(f.read()).hexdigest()
    return out


def _first_diff(a, b, path=""):
    if type(a) is not type(b):
        return f"{path}: {a!r} -> {b!r}"
    if isinstance(a, dict):
        for k in sorted(set(a) | set(b), key=str):
            if a.get(k) != b.get(k):
                return _first_diff(a.get(k), b.get(k), f"{path}/{k}")
    if isinstance(a, list):
        if len(a) != len(b):
            return f"{path}: length {len(a)} -> {len(b)}"
        for i, (x, y) in enumerate(zip(a, b)):
            if x != y:
                return _first_diff(x, y, f"{path}[{i}]")
    return f"{path}: {a!r} -> {b!r}"[:300]


# ------------------------------------------------------------------ verdicts
def judge(case, obs):
    """-> (violations [(finding|None, text)], mismatches [text]) for one replayed case"""
    viol, mism = [], []
    inits = case["inits"]
    kinds = [KINDS[k] for k in inits]
    uninit = [i for i, k in enumerate(kinds) if k[1] == "none"]
    only_sub_uninit = bool(uninit) and all(kinds[i][0] == "sub" for i in uninit)
    has_dest = any(k[1] == "dest" for k in kinds)
    out = obs["outcome"]
    desc = f"model {inits} verbose={case['verbose']} preexisting={case['stale']} fault k={case['k']}/{case['mode']}"

    # (1) the in-memory model is exactly as it was - always
    bad = [i for i, s in enumerate(obs["after"]) if s != "same"]
    if bad:
        dest_only = all(kinds[i][1] == "dest" for i in bad) and all(obs["after"][i] in ("invalid", "stale") for i in bad)
        viol.append((DEV_DEST if dest_only else None,
                     f"after the call (outcome {out}) initializer(s) " + ", ".join(f"#{i + 1} {inits[i]}: {obs['after'][i]}" for i in bad)
                     + f" no longer hold their original tensor/bytes; {desc}"))
    if not obs["structure_same"]:
        viol.append((None, f"in-memory model changed: {obs.get('structure_diff')}; {desc}"))
    if obs.get("foreign_changed"):
        viol.append((None, f"the save changed file(s) that are neither the model file nor its data file: {obs['foreign_changed']} "
                           f"(files the model's own tensors may be backed by); {desc}"))

    # (2) uninitialized initializers are refused before anything is written
    if uninit and out != "refused":
        viol.append((DEV_GUARD if only_sub_uninit else None,
                     f"model with uninitialized initializer(s) {[inits[i] for i in uninit]} was not refused (outcome {out}); {desc}"))
    if out == "refused" or (obs["early"] and out != "ok"):
        if obs["trace"] or not obs["disk_same"]:
            viol.append((None, f"refusal after touching the disk: calls {obs['trace']}, disk unchanged={obs['disk_same']}; {desc}"))
    if out == "refused" and not uninit and not has_dest:
        viol.append((None, f"a model without uninitialized initializers was refused; {desc}"))

    # (3) success => what is on disk loads back to an equal model
    if out == "ok":
        probs = []
        if "load_error" in obs:
            probs.append("ir.load failed: " + obs["load_error"])
        else:
            if not obs["loaded_structure_same"]:
                probs.append("graph differs: " + str(obs.get("loaded_structure_diff")))
            for i, e in enumerate(obs["loaded"]):
                if kinds[i][1] == "none":
                    continue
                if not e["present"]:
                    probs.append(f"initializer #{i + 1} {inits[i]} missing")
                elif not e["bytes_ok"] or not e["sig_ok"]:
                    probs.append(f"initializer #{i + 1} {inits[i]} bytes/type differ {e.get('error', '')}")
        if probs:
            guard_only = only_sub_uninit and all(("graph differs" in p) for p in probs)
            viol.append((DEV_GUARD if guard_only else None, f"saved files do not load back to the model: {probs[:4]}; {desc}"))
        if (any(k[1] != "none" and k[2] > 256 for k in kinds) and not obs["sibling_written"] and "loaded" in obs
                and not any(e.get("place", ["inline"])[0] == "ext" for e in obs["loaded"])):
            viol.append((None, f"no data file was written next to the model and no tensor was saved externally; {desc}"))
    # (4) a valid model, no I/O error: the save must succeed (a clean refusal of a model whose tensors
    #     read the destination file is accepted: nothing the property demands is lost by it)
    if out.startswith("error:") and not obs["fired"] and not uninit:
        if not (has_dest and obs["early"] and obs["disk_same"]):
            viol.append((None, f"save failed without any I/O error: {out}; {desc}"))

    # ---- implementation vs model
    if out != case["outcome"]:
        mism.append(f"outcome impl={out} model={case['outcome']}")
    if obs["trace"] != case["trace"]:
        mism.append(f"file-system calls impl={obs['trace']} model={case['trace']}")
    if obs["unknown_calls"]:
        mism.append(f"file-system calls unknown to the spec: {obs['unknown_calls']}")
    if obs["after"] != case["after"]:
        mism.append(f"tensor state impl={obs['after']} model={case['after']}")
    if obs["data_exists"] != case["dataExists"]:
        mism.append(f"data file exists impl={obs['data_exists']} model={case['dataExists']}")
    else:
        size = max([s["off"] + s["w"] for s in case["segs"]] or [0])
        if obs["data_size"] != size:
            mism.append(f"data file size impl={obs['data_size']} model={size} segs={case['segs']}")
        elif obs.get("data_bad_segments"):
            mism.append(f"data file content differs in segments {obs['data_bad_segments']}")
    mf = {"partial": "written", "new": "written"}.get(case["modelf"], case["modelf"])
    if obs["modelf"] != mf:
        mism.append(f"model file impl={obs['modelf']} model={case['modelf']}")
    if out == "ok" and case["outcome"] == "ok" and "loaded" in obs:
        for i, (e, s) in enumerate(zip(obs["loaded"], case["saved"])):
            got = "missing" if not e["present"] else e["place"][0]
            if got != s["kind"] or (got == "ext" and (e["place"][1] != s["off"] or e["place"][2] != s["n"])):
                mism.append(f"placement of #{i + 1} {inits[i]} impl={e.get('place', 'missing')} model={s}")
            if got == "ext" and os.path.basename(e["place"][3]) != e["place"][3]:
                mism.append(f"data location not a sibling file name: {e['place'][3]}")
    if obs["cbs"] is not None and obs["cbs"] != case["cbs"]:
        mism.append(f"progress callbacks impl={obs['cbs']} model={case['cbs']}")
    return viol, mism


# ------------------------------------------------------------------ TLC
WITNESSES = ["NoPartialFailure", "NoSuccessWithExternal", "NoRefusal", "NoPadding", "NoFailureAfterInvalidate"]
MUST_FAIL_WITH_DEVS = ["MemUnchanged", "RoundTrip", "Refusal"]


def live_deviations():
    """deviations the implementation model runs with: all named ones except those recorded as fixed"""
    fixed = set()
    for e in core.load_known_findings().get("fixed", []):
        fixed.add(e.get("id") if isinstance(e, dict) else str(e).split(":")[0].strip())
    return sorted({DEV_DEST, DEV_GUARD} - fixed)


def impl_cfg_for(template, devs):
    """the implementation-model configuration = the template next to the spec with Deviations set to `devs`"""
    with open(os.path.join(core.SPEC_DIR, template)) as f:
        text = f.read()
    if "Deviations <- RealDevs" not in text:
        raise core.MachineryError(f"{template}: Deviations line not found")
    text = text.replace("Deviations <- RealDevs", "Deviations = {" + ", ".join(f'"{d}"' for d in devs) + "}")
    path = os.path.join(core.scratch_sub("c20cfg"), template)
    with open(path, "w") as f:
        f.write(text)
    return path


def tlc_phase(ctx):
    devs = live_deviations()
    ctx.set("deviations_modelled", devs)
    design_cfg = "ExternalSave_design.cfg" if ctx.quick else "ExternalSave_design_thorough.cfg"
    impl_cfg = "ExternalSave_quick.cfg" if ctx.quick else "ExternalSave_thorough.cfg"
    small = [f"ExternalSave_vacuity_{w}.cfg" for w in MUST_FAIL_WITH_DEVS] + [f"ExternalSave_witness_{w}.cfg" for w in WITNESSES]
    env = {"_JAVA_OPTIONS": f"-Djava.io.tmpdir={core.scratch_sub('javatmp')}"}   # TLC unpacks its standard modules there
    with concurrent.futures.ThreadPoolExecutor(4) as ex:
        fut_small = {c: ex.submit(core.run_tlc, "ExternalSave", c, workers=2, heap="1g", timeout=600, env=env) for c in small}
        fut_design = ex.submit(core.run_tlc, "ExternalSave", design_cfg, workers=max(2, core.NCPU // 2), timeout=1500, env=env)
        fut_impl = ex.submit(core.run_tlc, "ExternalSave", impl_cfg_for(impl_cfg, devs), workers=max(2, core.NCPU // 2), timeout=1500, env=env,
                             heap="8g" if ctx.quick else "12g")
        extra = []
        if not ctx.quick:   # five initializers, the third and later ones from the reduced menu
            extra = [ex.submit(core.run_tlc, "ExternalSave", "ExternalSave_design_thorough5.cfg", workers=4, timeout=1500, env=env),
                     ex.submit(core.run_tlc, "ExternalSave", impl_cfg_for("ExternalSave_thorough5.cfg", devs), workers=4, timeout=1500, env=env, heap="12g")]
        des = [fut_design.result()] + [f.result() for f in extra[:1]]
        for d, name in zip(des, (design_cfg, "ExternalSave_design_thorough5.cfg")):
            ctx.tlc(d, name)
            if not d.ok:
                raise core.MachineryError(f"design-level model (no deviations) violates {d.violated}:\n{d.out[-2000:]}")
        for c, f in fut_small.items():
            r = f.result()
            ctx.tlc(r, c)
            want = c.split("_")[-1][:-4]
            if r.ok or r.violated != want:
                raise core.MachineryError(f"vacuity: {c} should violate {want} (an invariant that cannot fail / an unreachable region), "
                                          f"TLC says ok={r.ok} violated={r.violated}")
        impls = [fut_impl.result()] + [f.result() for f in extra[1:]]
    printed = []
    for impl, name in zip(impls, (impl_cfg, "ExternalSave_thorough5.cfg")):
        ctx.tlc(impl, name)
        if not impl.ok:
            raise core.MachineryError(f"implementation model violates {impl.violated}:\n{impl.out[-2000:]}")
        printed += impl.printed
        impl.printed = []
        impl.out = ""
    seen = set()
    cases = []
    for p in printed:
        if p and p[0] == "CASE" and p[1] not in seen:
            seen.add(p[1])
            cases.append(json.loads(p[1]))
    if not cases:
        raise core.MachineryError("TLC emitted no cases")
    cases.sort(key=lambda c: json.dumps([c["inits"], c["verbose"], c["stale"], c["k"], c["mode"]]))
    return cases


def check_table(cases):
    for c in cases:
        for kind, n in zip(c["inits"], c["sizes"]):
            if KINDS[kind][2] != n:
                raise core.MachineryError(f"kind table of harness and spec disagree on {kind}: {KINDS[kind][2]} vs {n}")


# ------------------------------------------------------------------ entry points
def run(ctx: core.Ctx):
    cases = tlc_phase(ctx)
    check_table(cases)
    ctx.set("spec_cases", len(cases))
    items = [(i, c, ctx.seed) for i, c in enumerate(cases)]
    # heavy (1 MB) cases spread evenly over the workers
    results = core.pmap(run_case, items, chunksize=16)
    nontriv = set()
    mismatches = 0
    faults_fired = collections.Counter()
    violating = collections.Counter()
    groups = collections.OrderedDict()
    outcomes = collections.Counter()
    for (i, c, _), obs in zip(items, results):
        ctx.add("evaluations")
        viol, mism = judge(c, obs)
        outcomes[obs["outcome"].split(":")[0]] += 1
        key = (tuple(c["inits"]), c["verbose"], c["stale"], c["k"], c["mode"])
        if (obs["fired"] and c["k"] > 0) or obs["outcome"] == "refused" or (obs["outcome"] == "ok" and any(s["id"] > 0 for s in c["segs"])):
            nontriv.add(key)
        if obs["fired"]:
            faults_fired[tuple(c["trace"][c["k"] - 1][:2]) if c["k"] <= len(c["trace"]) else ("?",)] += 1
        if not any(m.startswith("file-system calls") for m in mism):
            ctx.add("traces_validated_against_impl")
        for m in mism:
            mismatches += 1
            if mismatches <= 15:
                print(f"SPEC-MISMATCH C20 {c['inits']} verbose={c['verbose']} stale={c['stale']} k={c['k']}/{c['mode']}: {m[:500]}", flush=True)
        rec = {"spec": c, "seed": ctx.seed, "impl": {k: v for k, v in obs.items() if k not in ("loaded",)}}
        byf = collections.OrderedDict()
        for f, text in viol:
            byf.setdefault(f, []).append(text)
        for f, texts in byf.items():
            predicted = (f == DEV_DEST and c["after"] == obs["after"]) or (f == DEV_GUARD and c["outcome"] == obs["outcome"])
            f = f if (f and predicted) else None
            violating[f or "unexplained"] += 1
            if f is not None and ctx.known_finding(f) is not None:
                ctx.report(rec, " | ".join(texts), finding=f)      # listed: counted, printed once
                continue
            # not (yet) a listed finding: one replay file per distinct signature, not one per fault point
            if f == DEV_DEST:
                what = tuple(sorted({f"{k}:{a}" for k, a in zip(c["inits"], obs["after"]) if a != "same"}))
            elif f == DEV_GUARD:
                what = ("uninitialized in a subgraph",)
            else:
                what = tuple(re.sub(r"#\d+ |\(outcome [^)]*\)|\[.*?\]", "", re.sub(r"\d+", "N", t.split(";")[0]))[:80] for t in texts)
            sig = (f, what, obs["outcome"].split(":")[0])
            groups.setdefault(sig, []).append((rec, " | ".join(texts), f))
        if c["k"] > 0 and len(c["inits"]) >= 2:
            ctx.sample({"spec": {k: c[k] for k in ("inits", "verbose", "stale", "k", "mode", "outcome", "trace", "after")},
                        "impl": {k: obs[k] for k in ("outcome", "trace", "after", "style")}}, limit=5)
    budget = 40
    uncounted = 0
    ctx.max_violation_lines = 40
    for sig, members in sorted(groups.items(), key=lambda kv: kv[0][0] is not None):   # unexplained ones first
        if budget <= 0:
            uncounted += len(members)
            continue
        rec, text, f = min(members, key=lambda m: (len(m[0]["spec"]["inits"]), m[0]["spec"]["k"], m[0]["spec"]["verbose"], m[0]["spec"]["mode"]))
        budget -= 1
        ctx.report(rec, f"[{len(members)} case(s) with this signature; proposed deviation: {f}] " + text, finding=f)
        uncounted += len(members) - 1
    ctx.violations += uncounted      # every violating case counts, one replay file per signature
    ctx.set("violating_cases", dict(violating))
    ctx.set("distinct_nontrivial", len(nontriv))
    ctx.set("model_impl_mismatches", mismatches)
    ctx.set("outcomes", dict(outcomes))
    ctx.set("fault_points_by_call", {" ".join(k): v for k, v in sorted(faults_fired.items())})
    ctx.set("exhaustive", True)
    ctx.set("rule", "cases = final states of ExternalSave.tla with the listed deviations on: every multiset of <= MaxInits initializers "
                    "over the 19-kind table (quick: 3, the third from a 7-kind menu; thorough: 4, plus 5 with the third and later from the 7-kind menu) x verbose x pre-existing files x every fault point k of the "
                    "file-system call sequence x {clean, short write}; all are replayed. non-trivial = the injected fault really fired "
                    "at call k, or the model was refused, or the save succeeded with at least one tensor written to the data file; "
                    "distinct by (model, verbose, pre-existing, k, mode)")
    ctx.assumptions += [
        "fault = OSError raised by builtins.open (any mode) or by write/flush/close of a file opened for writing, below the scratch "
        "directory; numpy's ndarray.tofile writes through the descriptor and is reachable only through the flush() that precedes it",
        "os.path.exists/samefile/stat and reads (mmap, read) do not fail",
        "external tensors are not read by the caller before the save (a cached mmap would remove an open() from the call sequence)",
        "tensor bytes are random; dtype, shape, path style (absolute, pathlib, relative to cwd, dotted name, sub-directory) and "
        "subgraph depth are drawn from VERIF_SEED per model",
        "a clean refusal of a model whose tensors already live in the destination data file is accepted (it is what the design model does)",
    ]


def replay(ctx, path):
    with open(path) as f:
        blob = json.load(f)
    rec = blob["case"]
    c = rec["spec"]
    obs = run_case((0, c, rec.get("seed", ctx.seed)))
    viol, mism = judge(c, obs)
    print("property text:", blob.get("what"))
    print("spec case    :", json.dumps(c))
    print("impl observed:", json.dumps({k: v for k, v in obs.items() if k != "loaded"}, default=str))
    for f, t in viol:
        print(f"FAILS ({f or 'no deviation'}): {t}")
    for m in mism:
        print("SPEC-MISMATCH", m)
    return 1 if any(f is None or ctx.known_finding(f) is None for f, _ in viol) else 0
