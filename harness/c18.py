"""C18 - GraphBuilder/nn.Module graphs compute the trace; parameters named like PyTorch.

Part 1 (spec/Builder.tla + BuilderSem.tla): TLC derives traced programs (op calls over ~42 operators with
literal operands, explicit _outputs, push/pop_module, If/Loop/Scan subgraphs, call vs call_inline), models
what GraphBuilder does for every call (promotion + constant cache, CastLike helpers, value/node naming,
per-graph counters, inlining) and gives the trace its meaning.  Every derived program is replayed into the
REAL GraphBuilder; the serialized model is judged by onnx.checker, Graph.tla WF (GraphCheck), onnxruntime
vs a NumPy replay of the trace (the property) and vs TLC's values and names (the model).
Part 2 (spec/ModuleTree.tla): TLC derives nn.Module trees (Module/ModuleList/Sequential, construction
orders, call policies) and predicts initializer names; replayed into real onnxscript.nn classes.
"""
from __future__ import annotations

import json
import os
import random

import numpy as np

from . import core

LEVEL = "model_checking"
OPSET = 21
MENU = ["Add", "Sub", "Mul", "Div", "Mod", "Min", "Max", "Sum", "Equal", "Less", "Greater", "LessOrEqual", "GreaterOrEqual",
        "And", "Or", "Xor", "Not", "Neg", "Abs", "Sign", "Relu", "Identity", "Where", "Clip", "Cast", "Reshape", "Transpose",
        "Squeeze", "Unsqueeze", "Concat", "Gather", "Slice", "Shape", "Size", "Expand", "Flatten", "ReduceSum", "ReduceMax",
        "ReduceMin", "Split", "CumSum"]
CONTROL = ["If", "Loop", "Scan"]


# ------------------------------------------------------------------ data of the real implementation for the spec
def dump_sigs():
    import onnx

    out = {}
    for name in MENU + CONTROL:
        s = onnx.defs.get_schema(name, OPSET, "")
        out[name] = [{"tv": p.type_str, "concrete": "(" in p.type_str,
                      "variadic": p.option == onnx.defs.OpSchema.FormalParameterOption.Variadic,
                      "homo": bool(p.is_homogeneous)} for p in s.inputs]
    return out


_FUNCS = None


def functions():
    """the functions a trace may call / inline: two script functions with an attribute parameter (with and
    without default), a two-output script function, an ir.Function made by build_function (literals lifted)"""
    global _FUNCS
    if _FUNCS is not None:
        return _FUNCS
    import onnx_ir as ir

    from onnxscript._internal import builder as B

    src = (
        "from onnxscript import script, opset21 as op\n\n"
        "@script()\n"
        "def scale_add(X, Y, alpha: int = 3):\n"
        "    a = op.Constant(value_int=alpha)\n"
        "    return X * a + Y\n\n"
        "@script(default_opset=op)\n"
        "def scale_cast(X, Y, alpha: int):\n"
        "    return X * alpha + Y\n\n"
        "@script(default_opset=op)\n"
        "def addmul(A, Bv):\n"
        "    return A + Bv, A * Bv\n"
    )
    from . import scriptgen

    mod = scriptgen.load_source(src, "c18fn")
    affine = B.build_function(lambda op, x: op.Add(op.Mul(x, 2), 1), [ir.Value(name="x")], domain="c18.local", name="affine",
                              opset_imports={"": OPSET})
    _FUNCS = [
        {"obj": mod.scale_add, "tag": "scale", "hasattr": True, "hasdefault": True, "default": 3, "dts": ["i64"]},
        {"obj": mod.scale_cast, "tag": "scale", "hasattr": True, "hasdefault": False, "default": 0, "dts": ["i64", "f32"]},
        {"obj": mod.addmul, "tag": "addmul", "hasattr": False, "hasdefault": False, "default": 0, "dts": ["i64", "f32"]},
        {"obj": affine, "tag": "affine", "hasattr": False, "hasdefault": False, "default": 0, "dts": ["i64", "f32"]},
    ]
    return _FUNCS


def dump_funcs():
    """alpha: body of each real function object as local value indices (inputs first, then node outputs)"""
    import onnx_ir as ir
    import onnxscript

    out = []
    for f in functions():
        obj = f["obj"]
        graph = obj.graph() if isinstance(obj, onnxscript.OnnxFunction) else obj.graph
        fir = obj.function_ir if isinstance(obj, onnxscript.OnnxFunction) else obj
        idx = {}
        for v in graph.inputs:
            idx[id(v)] = len(idx) + 1
        nodes = []
        for n in graph:
            for o in n.outputs:
                idx[id(o)] = len(idx) + 1
            nodes.append({"name": n.name or "", "op": n.op_type,
                          "iv": [0 if v is None else idx[id(v)] for v in n.inputs],
                          "outs": [[o.name, idx[id(o)]] for o in n.outputs]})
        out.append({"name": fir.name, "domain": fir.domain, "tag": f["tag"], "nin": len(graph.inputs), "nout": len(graph.outputs),
                    "hasattr": f["hasattr"], "hasdefault": f["hasdefault"], "default": f["default"], "dts": f["dts"],
                    "nodes": nodes, "outputs": [idx[id(v)] for v in graph.outputs], "nvals": len(idx)})
    return out


def spec_env():
    d = core.scratch()
    sig = core.write_tlc_json(os.path.join(d, "c18_sigs.json"), dump_sigs())
    fn = core.write_tlc_json(os.path.join(d, "c18_funcs.json"), dump_funcs())
    return {"C18_SIGS": sig, "C18_FUNCS": fn}


# ------------------------------------------------------------------ NumPy replay of a trace (the property's reference)
LIT = {"i0": 0, "i1": 1, "i2": 2, "i3": 3, "im1": -1, "f2": 2.0, "fm1": -1.0, "bT": True, "bF": False,
       "l0": [0], "l1": [1], "lm1": [-1], "l2": [2], "l4": [4], "l01": [0, 1], "l10": [1, 0], "l12": [1, 2], "l21": [2, 1],
       "l22": [2, 2], "l2m1": [2, -1]}
NPDT = {"i64": np.int64, "f32": np.float32, "bool": np.bool_}
DTN = {np.dtype(np.int64): "i64", np.dtype(np.float32): "f32", np.dtype(np.bool_): "bool"}
INPUTS = [
    {"x": np.array([1, -2], np.int64), "m": np.array([[1, 2], [3, 4]], np.int64), "f": np.array([2, -1], np.float32), "c": np.array(True)},
    {"x": np.array([3, 0], np.int64), "m": np.array([[0, -1], [2, 5]], np.int64), "f": np.array([0, 3], np.float32), "c": np.array(False)},
]
INPUT_NAMES = ["x", "m", "f", "c"]
# positions whose literal is an index/shape-like operand (always INT64), by op
INT_OPERANDS = {"Reshape": [1], "Squeeze": [1], "Unsqueeze": [1], "Gather": [1], "Slice": [1, 2, 3, 4], "Expand": [1], "ReduceSum": [1],
                "ReduceMax": [1], "ReduceMin": [1], "CumSum": [1]}


def np_args(op, args, env):
    """literal operands take the dtype of the tensor operands they are combined with (INT64 for index-like operands)"""
    arrs = [env[a["v"]] for a in args if a["a"] == "v"]
    out = []
    for i, a in enumerate(args):
        if a["a"] == "v":
            out.append(env[a["v"]])
        elif a["a"] == "n":
            out.append(None)
        else:
            v = LIT[a["l"]]
            if i in INT_OPERANDS.get(op, []):
                out.append(np.asarray(v, np.int64))
            elif op == "Where":
                out.append(np.asarray(v, arrs[1].dtype))
            elif op == "Loop":
                out.append(np.asarray(v))
            else:
                out.append(np.asarray(v, arrs[0].dtype if arrs else None))
    return out


def np_sem(op, a, at):
    if op == "Add":
        return [a[0] + a[1]]
    if op == "Sub":
        return [a[0] - a[1]]
    if op == "Mul":
        return [a[0] * a[1]]
    if op == "Div":
        if a[0].dtype.kind == "i":
            q = np.abs(a[0]) // np.abs(a[1])
            return [(q * np.sign(a[0]) * np.sign(a[1])).astype(np.int64)]
        return [(a[0] / a[1]).astype(a[0].dtype)]
    if op == "Mod":
        return [np.mod(a[0], a[1])]
    if op == "Min":
        return [np.minimum(a[0], a[1])]
    if op == "Max":
        return [np.maximum(a[0], a[1])]
    if op == "Sum":
        return [a[0] + a[1] + a[2]]
    if op in ("Equal", "Less", "Greater", "LessOrEqual", "GreaterOrEqual"):
        f = {"Equal": np.equal, "Less": np.less, "Greater": np.greater, "LessOrEqual": np.less_equal, "GreaterOrEqual": np.greater_equal}[op]
        return [f(a[0], a[1])]
    if op in ("And", "Or", "Xor"):
        return [{"And": np.logical_and, "Or": np.logical_or, "Xor": np.logical_xor}[op](a[0], a[1])]
    if op == "Not":
        return [np.logical_not(a[0])]
    if op == "Neg":
        return [-a[0]]
    if op == "Abs":
        return [np.abs(a[0])]
    if op == "Sign":
        return [np.sign(a[0])]
    if op == "Relu":
        return [np.maximum(a[0], 0)]
    if op == "Identity":
        return [a[0]]
    if op == "Where":
        return [np.where(a[0], a[1], a[2])]
    if op == "Clip":
        return [np.clip(a[0], a[1], a[2])]
    if op == "Cast":
        return [a[0].astype({1: np.float32, 7: np.int64, 9: np.bool_}[at["to"]])]
    if op == "Reshape":
        return [np.reshape(a[0], tuple(int(v) for v in a[1]))]
    if op == "Transpose":
        return [np.transpose(a[0], at.get("perm"))]
    if op == "Squeeze":
        return [np.squeeze(a[0], tuple(int(v) for v in a[1]))]
    if op == "Unsqueeze":
        r = a[0]
        nd = a[0].ndim + len(a[1])
        for ax in sorted(int(v) % nd for v in a[1]):
            r = np.expand_dims(r, ax)
        return [r]
    if op == "Concat":
        return [np.concatenate([a[0], a[1]], axis=at["axis"])]
    if op == "Gather":
        return [np.take(a[0], a[1], axis=at.get("axis", 0))]
    if op == "Slice":
        sl = [slice(None)] * a[0].ndim
        for s, e, ax, st in zip(a[1], a[2], a[3], a[4]):
            d = a[0].shape[int(ax)]
            s, e, st = int(s), int(e), int(st)
            # ONNX Slice clamps out-of-range bounds; inside the menu they are all within [-d, d]
            sl[int(ax) % a[0].ndim] = slice(s, e, st)
        return [a[0][tuple(sl)]]
    if op == "Shape":
        return [np.array(a[0].shape, np.int64)]
    if op == "Size":
        return [np.array(a[0].size, np.int64)]
    if op == "Expand":
        return [np.broadcast_to(a[0], np.broadcast_shapes(a[0].shape, tuple(int(v) for v in a[1]))).copy()]
    if op == "Flatten":
        ax = at.get("axis", 1) % (a[0].ndim + 1) if at.get("axis", 1) < 0 else at.get("axis", 1)
        return [a[0].reshape(int(np.prod(a[0].shape[:ax], dtype=np.int64)), -1)]
    if op in ("ReduceSum", "ReduceMax", "ReduceMin"):
        f = {"ReduceSum": np.sum, "ReduceMax": np.max, "ReduceMin": np.min}[op]
        return [np.asarray(f(a[0], axis=tuple(int(v) for v in a[1]), keepdims=bool(at.get("keepdims", 1)))).astype(a[0].dtype)]
    if op == "Split":
        return list(np.split(a[0], 2, axis=at.get("axis", 0)))
    if op == "CumSum":
        return [np.cumsum(a[0], axis=int(a[1])).astype(a[0].dtype)]
    raise core.MachineryError(f"np_sem: {op}")


def np_fsem(tag, a, alpha):
    if tag == "scale":
        return [a[0] * np.asarray(alpha, a[0].dtype) + a[1]]
    if tag == "addmul":
        return [a[0] + a[1], a[0] * a[1]]
    if tag == "affine":
        return [a[0] * np.asarray(2, a[0].dtype) + np.asarray(1, a[0].dtype)]
    raise core.MachineryError(tag)


def np_block(stmts, env, fdesc):
    for s in stmts:
        k = s["kind"]
        if k == "op":
            for v, r in zip(s["outs"], np_sem(s["op"], np_args(s["op"], s["args"], env), s["at"] or {})):
                env[v] = np.asarray(r)
        elif k in ("call", "inline"):
            fd = fdesc[s["fn"] - 1]
            a = [env[x["v"]] if x["a"] == "v" else np.asarray(LIT[x["l"]], np.int64) for x in s["args"]]
            alpha = fd["default"] if s["amode"] == "omit" else (s["at"] or {}).get("alpha", 0)
            for v, r in zip(s["outs"], np_fsem(fd["tag"], a, alpha)):
                env[v] = np.asarray(r)
        elif k == "if":
            b = s["subs"][0] if bool(env[s["args"][0]["v"]]) else s["subs"][1]
            e2 = dict(env)
            np_block(b["body"], e2, fdesc)
            env[s["outs"][0]] = e2[b["res"][0]]
        elif k == "loop":
            b = s["subs"][0]
            cur = env[s["args"][2]["v"]]
            acc = []
            for it in range(LIT[s["args"][0]["l"]]):
                e2 = dict(env)
                e2[b["ins"][0]], e2[b["ins"][1]], e2[b["ins"][2]] = np.array(it, np.int64), np.array(True), cur
                np_block(b["body"], e2, fdesc)
                cur = e2[b["res"][1]]
                if len(b["res"]) == 3:
                    acc.append(e2[b["res"][2]])
            env[s["outs"][0]] = cur
            if len(s["outs"]) == 2:
                env[s["outs"][1]] = np.stack(acc)
        elif k == "scan":
            b = s["subs"][0]
            cur = env[s["args"][0]["v"]]
            xs = env[s["args"][1]["v"]]
            acc = []
            for it in range(xs.shape[0]):
                e2 = dict(env)
                e2[b["ins"][0]], e2[b["ins"][1]] = cur, xs[it]
                np_block(b["body"], e2, fdesc)
                cur = e2[b["res"][0]]
                acc.append(e2[b["res"][1]])
            env[s["outs"][0]] = cur
            env[s["outs"][1]] = np.stack(acc)
    return env


def enc(a):
    a = np.asarray(a)
    return {"dt": DTN.get(a.dtype, str(a.dtype)), "shape": list(a.shape), "data": [int(x) if float(x) == int(x) else float(x) for x in a.reshape(-1).astype(np.float64)]}


# ------------------------------------------------------------------ replay of a trace into the REAL GraphBuilder
def _irdt(dt):
    import onnx_ir as ir

    return {"i64": ir.DataType.INT64, "f32": ir.DataType.FLOAT, "bool": ir.DataType.BOOL}[dt]


def _typed(name, dt, shape):
    import onnx_ir as ir

    return ir.Value(name=name, type=ir.TensorType(_irdt(dt)), shape=ir.Shape(list(shape)))


class _Raised(Exception):
    def __init__(self, k, ex):
        super().__init__(f"call #{k}: {type(ex).__name__}: {str(ex)[:200]}")
        self.k = k


def _ospec_kw(s, n):
    import onnx_ir as ir

    m = s["ospec"]["m"]
    if m == "cnt":
        return {"_outputs": n}
    if m == "names":
        return {"_outputs": list(s["ospec"]["names"])}
    if m == "vals":
        return {"_outputs": [ir.Value(name=x) for x in s["ospec"]["names"]]}
    return {}


def run_block(op, stmts, env, case):
    """execute the traced calls of one block against the real OpBuilder `op`; env: value id -> ir.Value"""
    import onnx_ir as ir

    names = case["names"]
    fobjs = functions()

    def arg(a):
        return env[a["v"]] if a["a"] == "v" else (None if a["a"] == "n" else LIT[a["l"]])

    def bind(s, r):
        rs = list(r) if isinstance(r, (list, tuple)) else [r]
        if len(rs) != len(s["outs"]):
            raise core.MachineryError(f"call #{s['k']} returned {len(rs)} values, trace expects {len(s['outs'])}")
        for v, x in zip(s["outs"], rs):
            env[v] = x

    def sub(b, outnames, kind, k, intypes):
        def trace(op2, *ins):
            e2 = env  # outer values stay visible (captured); ids are unique, so one dict serves all scopes
            for v, x in zip(b["ins"], ins):
                e2[v] = x
            run_block(op2, b["body"], e2, case)
            res = [e2[v] for v in b["res"]]
            return res if len(res) > 1 else res[0]

        ins = [_typed(n, names[v - 1]["dt"], names[v - 1]["shape"]) for n, v in zip(intypes, b["ins"])]
        return op.builder.subgraph(trace, inputs=ins, outputs=[ir.Value(name=n) for n in outnames], name=f"{kind}{k}")

    for s in stmts:
        k = s["k"]
        kind = s["kind"]
        try:
            if kind == "push":
                op.builder.push_module(s["op"])
            elif kind == "pop":
                op.builder.pop_module()
            elif kind == "op":
                at = dict(s["at"] or {})
                pos = []
                if s["pos"] == 1:           # the single attribute is passed positionally after the inputs
                    (an, av), = at.items()
                    pos, at = [av], {}
                bind(s, getattr(op, s["op"])(*[arg(a) for a in s["args"]], *pos, **at, **_ospec_kw(s, len(s["outs"]))))
            elif kind == "if":
                tb = sub(s["subs"][0], [f"t{k}"], "then", k, [])
                eb = sub(s["subs"][1], [f"e{k}"], "else", k, [])
                bind(s, op.If(arg(s["args"][0]), then_branch=tb, else_branch=eb))
            elif kind == "loop":
                b = s["subs"][0]
                outs = [f"co{k}", f"so{k}"] + ([f"sc{k}"] if len(b["res"]) == 3 else [])
                lb = sub(b, outs, "loop", k, [f"it{k}", f"cn{k}", f"st{k}"])
                bind(s, op.Loop(*[arg(a) for a in s["args"]], body=lb, **_ospec_kw(s, len(s["outs"]))))
            elif kind == "scan":
                b = s["subs"][0]
                sb = sub(b, [f"so{k}", f"sc{k}"], "scan", k, [f"ss{k}", f"xi{k}"])
                bind(s, op.Scan(*[arg(a) for a in s["args"]], body=sb, num_scan_inputs=1, **_ospec_kw(s, 2)))
            elif kind in ("call", "inline"):
                f = fobjs[s["fn"] - 1]["obj"]
                kw = {}
                if s["amode"] == "py":
                    kw["alpha"] = s["at"]["alpha"]
                elif s["amode"] == "attr":
                    kw["alpha"] = ir.AttrInt64("alpha", s["at"]["alpha"])
                if kind == "call":
                    bind(s, op.call(f, *[arg(a) for a in s["args"]], **_ospec_kw(s, len(s["outs"])), **kw))
                else:
                    on = list(s["ospec"]["names"]) if s["ospec"]["m"] == "names" else None
                    bind(s, op.call_inline(f, *[arg(a) for a in s["args"]], _outputs=on, _prefix=s["pfx"], **kw))
            else:
                raise core.MachineryError(f"unknown statement kind {kind}")
        except (_Raised, core.MachineryError):
            raise
        except Exception as ex:  # noqa: BLE001 - the builder refusing / crashing on a traced call is an observation
            raise _Raised(k, ex) from ex


def real_nodes(graph):
    """alpha of the built graph: node tree with names (same shape as the spec's node records)"""
    import onnx_ir as ir

    out = []
    for n in graph:
        subs = []
        for a in n.attributes.values():
            if a.type == ir.AttributeType.GRAPH:
                subs.append((a.name, a.as_graph()))
        # the spec lists then_branch before else_branch, body alone
        order = {"then_branch": 0, "else_branch": 1, "body": 0}
        subs.sort(key=lambda t: order.get(t[0], 5))
        out.append({"nm": n.name, "op": n.op_type, "dom": n.domain, "ins": [("" if v is None else v.name) for v in n.inputs],
                    "outs": [v.name for v in n.outputs],
                    "subs": [{"ins": [v.name for v in g.inputs], "outs": [v.name for v in g.outputs], "nodes": real_nodes(g)} for _, g in subs]})
    return out


def model_nodes(nodes, names):
    out = []
    for n in nodes:
        out.append({"nm": n["nm"], "op": n["op"], "dom": n["dom"],
                    "ins": [names[v - 1]["nm"] if v else c for v, c in zip(n["iv"], n["cn"])],
                    "outs": [names[v - 1]["nm"] for v in n["ov"]],
                    "subs": [{"ins": [names[v - 1]["nm"] for v in g["iv"]], "outs": [names[v - 1]["nm"] for v in g["ov"]],
                              "nodes": model_nodes(g["nodes"], names)} for g in n["subs"]]})
    return out


def all_names(nodes, acc_v, acc_n):
    for n in nodes:
        acc_n.append(n["nm"])
        acc_v.extend(x for x in n["outs"] if x)
        for g in n["subs"]:
            acc_v.extend(g["ins"])
            all_names(g["nodes"], acc_v, acc_n)


def replay_trace(case):
    """-> observation dict of the real builder on one TLC trace"""
    import onnx
    import onnx_ir as ir
    import onnxruntime as ort

    from onnxscript._internal import builder as B

    ort.set_default_logger_severity(4)
    fdesc = _FDESC[0]
    obs = {"outcome": "ok", "err": None, "nodes": None, "inits": None, "ort": None, "np": None, "checker": None, "patched_outputs": 0}
    # the property's reference: NumPy replay
    ref = []
    for inp in INPUTS:
        env = {i + 1: inp[n] for i, n in enumerate(INPUT_NAMES)}
        np_block(case["prog"], env, fdesc)
        ref.append([enc(env[v]) for v in case["outs"]])
    obs["np"] = ref
    g = ir.Graph(name="main", inputs=[], outputs=[], nodes=[], opset_imports={"": OPSET})
    gb = B.GraphBuilder(g)
    env = {}
    for i, n in enumerate(INPUT_NAMES):
        a = INPUTS[0][n]
        env[i + 1] = gb.input(n, _irdt(DTN[a.dtype]), list(a.shape))
    try:
        run_block(gb.op, case["prog"], env, case)
    except _Raised as ex:
        obs["outcome"] = "raise"
        obs["err"] = str(ex)
        return obs
    if gb._scope_stack:   # noqa: SLF001
        obs["scope_left"] = list(gb._scope_stack)
    for v in case["outs"]:
        val = env[v]
        gb.add_output(val, None)
        # declaring the graph outputs' types is the model author's job: filled from the trace where inference gave none
        info = case["names"][v - 1]
        if val.type is None:
            val.type = ir.TensorType(_irdt(info["dt"]))
            obs["patched_outputs"] += 1
        if val.shape is None:
            val.shape = ir.Shape(list(info["shape"]))
    for f in gb.functions.values():
        g.opset_imports.setdefault(f.domain, 1)
    obs["nodes"] = real_nodes(g)
    obs["inits"] = [{"nm": k, "dt": DTN.get(np.dtype(v.const_value.dtype.numpy()), "?"), "shape": list(v.const_value.shape),
                     "data": [int(x) for x in np.asarray(v.const_value.numpy()).reshape(-1)]} for k, v in g.initializers.items()]
    obs["outnames"] = [env[v].name for v in case["outs"]]
    obs["functions"] = sorted(f.name for f in gb.functions.values())
    try:
        model = ir.Model(g, ir_version=10, functions=list(gb.functions.values()))
        mp = ir.serde.serialize_model(model)
    except Exception as ex:  # noqa: BLE001
        obs["outcome"] = "invalid"
        obs["err"] = f"serialize: {type(ex).__name__}: {str(ex)[:200]}"
        return obs
    obs["abstract"] = core.abstract_model("m", mp)
    try:
        onnx.checker.check_model(mp, full_check=True)
        obs["checker"] = "ok"
    except Exception as ex:  # noqa: BLE001
        obs["checker"] = f"{type(ex).__name__}: {str(ex)[:240]}"
    try:
        sess = core.ort_session(mp)
    except Exception as ex:  # noqa: BLE001
        obs["outcome"] = "invalid"
        obs["err"] = f"onnxruntime: {str(ex)[:300]}"
        return obs
    res = []
    for inp in INPUTS:
        try:
            res.append([enc(r) for r in sess.run(None, inp)])
        except Exception as ex:  # noqa: BLE001
            res.append(f"ERR {str(ex)[:200]}")
    obs["ort"] = res
    return obs


_FDESC = [None]


def _trace_worker(case):
    if _FDESC[0] is None:
        _FDESC[0] = dump_funcs()
    return replay_trace(case)
