"""C18 - GraphBuilder/nn.Module graphs compute the trace; parameters named like PyTorch.

Part 1 (spec/Builder.tla + BuilderSem.tla): TLC derives traced programs (op calls over ~42 operators with
literal operands, explicit _outputs, push/pop_module, If/Loop/Scan subgraphs, call vs call_inline), models
what GraphBuilder does for every call (promotion + constant cache, CastLike helpers, value/node naming,
per-graph counters, inlining) and gives the trace its meaning.  Every derived program is replayed into the
REAL GraphBuilder; the serialized model is judged by onnx.checker, Graph.tla WF (GraphCheck), onnxruntime
vs a NumPy replay of the trace (the property) and vs TLC's values and names (the model).
Part 2 (spec/ModuleTree.tla): TLC derives nn.Module trees (Module/ModuleList/Sequential, construction
orders, call policies) and predicts initializer names; replayed into real onnxscript.nn classes.
"""
from __future__ import annotations

import json
import os
import random

import numpy as np

from . import core

LEVEL = "model_checking"
OPSET = 21
MENU = ["Add", "Sub", "Mul", "Div", "Mod", "Min", "Max", "Sum", "Equal", "Less", "Greater", "LessOrEqual", "GreaterOrEqual",
        "And", "Or", "Xor", "Not", "Neg", "Abs", "Sign", "Relu", "Identity", "Where", "Clip", "Cast", "Reshape", "Transpose",
        "Squeeze", "Unsqueeze", "Concat", "Gather", "Slice", "Shape", "Size", "Expand", "Flatten", "ReduceSum", "ReduceMax",
        "ReduceMin", "Split", "CumSum"]
CONTROL = ["If", "Loop", "Scan"]


# ------------------------------------------------------------------ data of the real implementation for the spec
def dump_sigs():
    import onnx

    out = {}
    for name in MENU + CONTROL:
        s = onnx.defs.get_schema(name, OPSET, "")
        out[name] = [{"tv": p.type_str, "concrete": "(" in p.type_str,
                      "variadic": p.option == onnx.defs.OpSchema.FormalParameterOption.Variadic,
                      "homo": bool(p.is_homogeneous)} for p in s.inputs]
    return out


_FUNCS = None


def functions():
    """the functions a trace may call / inline: two script functions with an attribute parameter (with and
    without default), a two-output script function, an ir.Function made by build_function (literals lifted)"""
    global _FUNCS
    if _FUNCS is not None:
        return _FUNCS
    import onnx_ir as ir

    from onnxscript._internal import builder as B

    src = (
        "from onnxscript import script, opset21 as op\n\n"
        "@script()\n"
        "def scale_add(X, Y, alpha: int = 3):\n"
        "    a = op.Constant(value_int=alpha)\n"
        "    return X * a + Y\n\n"
        "@script(default_opset=op)\n"
        "def scale_cast(X, Y, alpha: int):\n"
        "    return X * alpha + Y\n\n"
        "@script(default_opset=op)\n"
        "def addmul(A, Bv):\n"
        "    return A + Bv, A * Bv\n"
    )
    from . import scriptgen

    mod = scriptgen.load_source(src, "c18fn")
    affine = B.build_function(lambda op, x: op.Add(op.Mul(x, 2), 1), [ir.Value(name="x")], domain="c18.local", name="affine",
                              opset_imports={"": OPSET})
    _FUNCS = [
        {"obj": mod.scale_add, "tag": "scale", "hasattr": True, "hasdefault": True, "default": 3, "dts": ["i64"]},
        {"obj": mod.scale_cast, "tag": "scale", "hasattr": True, "hasdefault": False, "default": 0, "dts": ["i64", "f32"]},
        {"obj": mod.addmul, "tag": "addmul", "hasattr": False, "hasdefault": False, "default": 0, "dts": ["i64", "f32"]},
        {"obj": affine, "tag": "affine", "hasattr": False, "hasdefault": False, "default": 0, "dts": ["i64", "f32"]},
    ]
    return _FUNCS


def dump_funcs():
    """alpha: body of each real function object as local value indices (inputs first, then node outputs)"""
    import onnx_ir as ir
    import onnxscript

    out = []
    for f in functions():
        obj = f["obj"]
        graph = obj.graph() if isinstance(obj, onnxscript.OnnxFunction) else obj.graph
        fir = obj.function_ir if isinstance(obj, onnxscript.OnnxFunction) else obj
        idx = {}
        for v in graph.inputs:
            idx[id(v)] = len(idx) + 1
        nodes = []
        for n in graph:
            for o in n.outputs:
                idx[id(o)] = len(idx) + 1
            nodes.append({"name": n.name or "", "op": n.op_type,
                          "iv": [0 if v is None else idx[id(v)] for v in n.inputs],
                          "outs": [[o.name, idx[id(o)]] for o in n.outputs]})
        out.append({"name": fir.name, "domain": fir.domain, "tag": f["tag"], "nin": len(graph.inputs), "nout": len(graph.outputs),
                    "hasattr": f["hasattr"], "hasdefault": f["hasdefault"], "default": f["default"], "dts": f["dts"],
                    "nodes": nodes, "outputs": [idx[id(v)] for v in graph.outputs], "nvals": len(idx)})
    return out


def spec_env():
    d = core.scratch()
    sig = core.write_tlc_json(os.path.join(d, "c18_sigs.json"), dump_sigs())
    fn = core.write_tlc_json(os.path.join(d, "c18_funcs.json"), dump_funcs())
    return {"C18_SIGS": sig, "C18_FUNCS": fn}


# ------------------------------------------------------------------ NumPy replay of a trace (the property's reference)
LIT = {"i0": 0, "i1": 1, "i2": 2, "i3": 3, "im1": -1, "f2": 2.0, "fm1": -1.0, "bT": True, "bF": False,
       "l0": [0], "l1": [1], "lm1": [-1], "l2": [2], "l4": [4], "l01": [0, 1], "l10": [1, 0], "l12": [1, 2], "l21": [2, 1],
       "l22": [2, 2], "l2m1": [2, -1]}
NPDT = {"i64": np.int64, "f32": np.float32, "bool": np.bool_}
DTN = {np.dtype(np.int64): "i64", np.dtype(np.float32): "f32", np.dtype(np.bool_): "bool"}
INPUTS = [
    {"x": np.array([1, -2], np.int64), "m": np.array([[1, 2], [3, 4]], np.int64), "f": np.array([2, -1], np.float32), "c": np.array(True)},
    {"x": np.array([3, 0], np.int64), "m": np.array([[0, -1], [2, 5]], np.int64), "f": np.array([0, 3], np.float32), "c": np.array(False)},
]
INPUT_NAMES = ["x", "m", "f", "c"]
# positions whose literal is an index/shape-like operand (always INT64), by op
INT_OPERANDS = {"Reshape": [1], "Squeeze": [1], "Unsqueeze": [1], "Gather": [1], "Slice": [1, 2, 3, 4], "Expand": [1], "ReduceSum": [1],
                "ReduceMax": [1], "ReduceMin": [1], "CumSum": [1]}


def np_args(op, args, env):
    """literal operands take the dtype of the tensor operands they are combined with (INT64 for index-like operands)"""
    arrs = [env[a["v"]] for a in args if a["a"] == "v"]
    out = []
    for i, a in enumerate(args):
        if a["a"] == "v":
            out.append(env[a["v"]])
        elif a["a"] == "n":
            out.append(None)
        else:
            v = LIT[a["l"]]
            if i in INT_OPERANDS.get(op, []):
                out.append(np.asarray(v, np.int64))
            elif op == "Where":
                out.append(np.asarray(v, arrs[1].dtype))
            elif op in ("Loop", "Scan"):     # trip count, condition, carried operands: the literal's own natural dtype
                out.append(np.asarray(v, np.bool_ if isinstance(v, bool) else (np.int64 if isinstance(v, int) else np.float32)))
            else:
                out.append(np.asarray(v, arrs[0].dtype if arrs else None))
    return out


def np_sem(op, a, at):
    if op == "Add":
        return [a[0] + a[1]]
    if op == "Sub":
        return [a[0] - a[1]]
    if op == "Mul":
        return [a[0] * a[1]]
    if op == "Div":
        if a[0].dtype.kind == "i":
            q = np.abs(a[0]) // np.abs(a[1])
            return [(q * np.sign(a[0]) * np.sign(a[1])).astype(np.int64)]
        return [(a[0] / a[1]).astype(a[0].dtype)]
    if op == "Mod":
        return [np.mod(a[0], a[1])]
    if op == "Min":
        return [np.minimum(a[0], a[1])]
    if op == "Max":
        return [np.maximum(a[0], a[1])]
    if op == "Sum":
        return [a[0] + a[1] + a[2]]
    if op in ("Equal", "Less", "Greater", "LessOrEqual", "GreaterOrEqual"):
        f = {"Equal": np.equal, "Less": np.less, "Greater": np.greater, "LessOrEqual": np.less_equal, "GreaterOrEqual": np.greater_equal}[op]
        return [f(a[0], a[1])]
    if op in ("And", "Or", "Xor"):
        return [{"And": np.logical_and, "Or": np.logical_or, "Xor": np.logical_xor}[op](a[0], a[1])]
    if op == "Not":
        return [np.logical_not(a[0])]
    if op == "Neg":
        return [-a[0]]
    if op == "Abs":
        return [np.abs(a[0])]
    if op == "Sign":
        return [np.sign(a[0])]
    if op == "Relu":
        return [np.maximum(a[0], 0)]
    if op == "Identity":
        return [a[0]]
    if op == "Where":
        return [np.where(a[0], a[1], a[2])]
    if op == "Clip":
        return [np.clip(a[0], a[1], a[2])]
    if op == "Cast":
        return [a[0].astype({1: np.float32, 7: np.int64, 9: np.bool_}[at["to"]])]
    if op == "Reshape":
        return [np.reshape(a[0], tuple(int(v) for v in a[1]))]
    if op == "Transpose":
        return [np.transpose(a[0], at.get("perm"))]
    if op == "Squeeze":
        return [np.squeeze(a[0], tuple(int(v) for v in a[1]))]
    if op == "Unsqueeze":
        r = a[0]
        nd = a[0].ndim + len(a[1])
        for ax in sorted(int(v) % nd for v in a[1]):
            r = np.expand_dims(r, ax)
        return [r]
    if op == "Concat":
        return [np.concatenate([a[0], a[1]], axis=at["axis"])]
    if op == "Gather":
        return [np.take(a[0], a[1], axis=at.get("axis", 0))]
    if op == "Slice":
        sl = [slice(None)] * a[0].ndim
        for s, e, ax, st in zip(a[1], a[2], a[3], a[4]):
            d = a[0].shape[int(ax)]
            s, e, st = int(s), int(e), int(st)
            # ONNX Slice clamps out-of-range bounds; inside the menu they are all within [-d, d]
            sl[int(ax) % a[0].ndim] = slice(s, e, st)
        return [a[0][tuple(sl)]]
    if op == "Shape":
        return [np.array(a[0].shape, np.int64)]
    if op == "Size":
        return [np.array(a[0].size, np.int64)]
    if op == "Expand":
        return [np.broadcast_to(a[0], np.broadcast_shapes(a[0].shape, tuple(int(v) for v in a[1]))).copy()]
    if op == "Flatten":
        ax = at.get("axis", 1) % (a[0].ndim + 1) if at.get("axis", 1) < 0 else at.get("axis", 1)
        return [a[0].reshape(int(np.prod(a[0].shape[:ax], dtype=np.int64)), -1)]
    if op in ("ReduceSum", "ReduceMax", "ReduceMin"):
        f = {"ReduceSum": np.sum, "ReduceMax": np.max, "ReduceMin": np.min}[op]
        return [np.asarray(f(a[0], axis=tuple(int(v) for v in a[1]), keepdims=bool(at.get("keepdims", 1)))).astype(a[0].dtype)]
    if op == "Split":
        return list(np.split(a[0], 2, axis=at.get("axis", 0)))
    if op == "CumSum":
        return [np.cumsum(a[0], axis=int(a[1])).astype(a[0].dtype)]
    raise core.MachineryError(f"np_sem: {op}")


def np_fsem(tag, a, alpha):
    if tag == "scale":
        return [a[0] * np.asarray(alpha, a[0].dtype) + a[1]]
    if tag == "addmul":
        return [a[0] + a[1], a[0] * a[1]]
    if tag == "affine":
        return [a[0] * np.asarray(2, a[0].dtype) + np.asarray(1, a[0].dtype)]
    raise core.MachineryError(tag)


def np_block(stmts, env, fdesc):
    for s in stmts:
        k = s["kind"]
        if k == "op":
            for v, r in zip(s["outs"], np_sem(s["op"], np_args(s["op"], s["args"], env), s["at"] or {})):
                env[v] = np.asarray(r)
        elif k in ("call", "inline"):
            fd = fdesc[s["fn"] - 1]
            a = [env[x["v"]] if x["a"] == "v" else np.asarray(LIT[x["l"]], np.int64) for x in s["args"]]
            alpha = fd["default"] if s["amode"] == "omit" else (s["at"] or {}).get("alpha", 0)
            for v, r in zip(s["outs"], np_fsem(fd["tag"], a, alpha)):
                env[v] = np.asarray(r)
        elif k == "if":
            b = s["subs"][0] if bool(env[s["args"][0]["v"]]) else s["subs"][1]
            e2 = dict(env)
            np_block(b["body"], e2, fdesc)
            env[s["outs"][0]] = e2[b["res"][0]]
        elif k == "loop":
            b = s["subs"][0]
            a = np_args("Loop", s["args"], env)
            curs = list(a[2:])
            ncar = len(curs)
            acc = []
            for it in range(int(a[0])):
                e2 = dict(env)
                for v, x in zip(b["ins"], [np.array(it, np.int64), np.array(True)] + curs):
                    e2[v] = x
                np_block(b["body"], e2, fdesc)
                curs = [e2[v] for v in b["res"][1:1 + ncar]]
                if len(b["res"]) > 1 + ncar:
                    acc.append(e2[b["res"][-1]])
            outs = curs + ([np.stack(acc)] if len(s["outs"]) > ncar else [])
            for v, x in zip(s["outs"], outs):
                env[v] = x
        elif k == "scan":
            b = s["subs"][0]
            a = np_args("Scan", s["args"], env)
            curs, xs = list(a[:-1]), a[-1]
            ns = len(curs)
            acc = []
            for it in range(xs.shape[0]):
                e2 = dict(env)
                for v, x in zip(b["ins"], curs + [xs[it]]):
                    e2[v] = x
                np_block(b["body"], e2, fdesc)
                curs = [e2[v] for v in b["res"][:ns]]
                acc.append(e2[b["res"][ns]])
            for v, x in zip(s["outs"], curs + [np.stack(acc)]):
                env[v] = x
    return env


def enc(a):
    a = np.asarray(a)
    return {"dt": DTN.get(a.dtype, str(a.dtype)), "shape": list(a.shape), "data": [int(x) if float(x) == int(x) else float(x) for x in a.reshape(-1).astype(np.float64)]}


# ------------------------------------------------------------------ replay of a trace into the REAL GraphBuilder
def _irdt(dt):
    import onnx_ir as ir

    return {"i64": ir.DataType.INT64, "f32": ir.DataType.FLOAT, "bool": ir.DataType.BOOL}[dt]


def _typed(name, dt, shape):
    import onnx_ir as ir

    return ir.Value(name=name, type=ir.TensorType(_irdt(dt)), shape=ir.Shape(list(shape)))


class _Raised(Exception):
    def __init__(self, k, ex):
        super().__init__(f"call #{k}: {type(ex).__name__}: {str(ex)[:200]}")
        self.k = k


def _ospec_kw(s, n):
    import onnx_ir as ir

    m = s["ospec"]["m"]
    if m == "cnt":
        return {"_outputs": n}
    if m == "names":
        return {"_outputs": list(s["ospec"]["names"])}
    if m == "vals":
        return {"_outputs": [ir.Value(name=x) for x in s["ospec"]["names"]]}
    return {}


def run_block(op, stmts, env, case):
    """execute the traced calls of one block against the real OpBuilder `op`; env: value id -> ir.Value"""
    import onnx_ir as ir

    names = case["names"]
    fobjs = functions()

    def arg(a):
        return env[a["v"]] if a["a"] == "v" else (None if a["a"] == "n" else LIT[a["l"]])

    def bind(s, r):
        rs = list(r) if isinstance(r, (list, tuple)) else [r]
        if len(rs) != len(s["outs"]):
            raise core.MachineryError(f"call #{s['k']} returned {len(rs)} values, trace expects {len(s['outs'])}")
        for v, x in zip(s["outs"], rs):
            env[v] = x

    def sub(b, outnames, kind, k, intypes):
        def trace(op2, *ins):
            e2 = env  # outer values stay visible (captured); ids are unique, so one dict serves all scopes
            for v, x in zip(b["ins"], ins):
                e2[v] = x
            run_block(op2, b["body"], e2, case)
            res = [e2[v] for v in b["res"]]
            return res if len(res) > 1 else res[0]

        ins = [_typed(n, names[v - 1]["dt"], names[v - 1]["shape"]) for n, v in zip(intypes, b["ins"])]
        # like the documentation's examples the author declares type and shape of the body's outputs
        outs = [_typed(n, names[v - 1]["dt"], names[v - 1]["shape"]) for n, v in zip(outnames, b["res"])]
        return op.builder.subgraph(trace, inputs=ins, outputs=outs, name=f"{kind}{k}")

    for s in stmts:
        k = s["k"]
        kind = s["kind"]
        try:
            if kind == "push":
                op.builder.push_module(s["op"])
            elif kind == "pop":
                op.builder.pop_module()
            elif kind == "op":
                at = dict(s["at"] or {})
                pos = []
                if s["pos"] == 1:           # the single attribute is passed positionally after the inputs
                    (an, av), = at.items()
                    pos, at = [av], {}
                bind(s, getattr(op, s["op"])(*[arg(a) for a in s["args"]], *pos, **at, **_ospec_kw(s, len(s["outs"]))))
            elif kind == "if":
                tb = sub(s["subs"][0], [f"t{k}"], "then", k, [])
                eb = sub(s["subs"][1], [f"e{k}"], "else", k, [])
                bind(s, op.If(arg(s["args"][0]), then_branch=tb, else_branch=eb))
            elif kind == "loop":
                b = s["subs"][0]
                ncar = len(s["args"]) - 2
                outs = [f"co{k}", f"so{k}"] + ([f"to{k}"] if ncar == 2 else []) + ([f"sc{k}"] if len(b["res"]) > 1 + ncar else [])
                lb = sub(b, outs, "loop", k, [f"it{k}", f"cn{k}", f"st{k}"] + ([f"s2{k}"] if ncar == 2 else []))
                bind(s, op.Loop(*[arg(a) for a in s["args"]], body=lb, **_ospec_kw(s, len(s["outs"]))))
            elif kind == "scan":
                b = s["subs"][0]
                two = len(s["args"]) == 3
                sb = sub(b, [f"so{k}"] + ([f"to{k}"] if two else []) + [f"sc{k}"], "scan", k, [f"ss{k}"] + ([f"s2{k}"] if two else []) + [f"xi{k}"])
                bind(s, op.Scan(*[arg(a) for a in s["args"]], body=sb, num_scan_inputs=1, **_ospec_kw(s, len(s["outs"]))))
            elif kind in ("call", "inline"):
                f = fobjs[s["fn"] - 1]["obj"]
                kw = {}
                if s["amode"] == "py":
                    kw["alpha"] = s["at"]["alpha"]
                elif s["amode"] == "attr":
                    kw["alpha"] = ir.AttrInt64("alpha", s["at"]["alpha"])
                if kind == "call":
                    bind(s, op.call(f, *[arg(a) for a in s["args"]], **_ospec_kw(s, len(s["outs"])), **kw))
                else:
                    on = list(s["ospec"]["names"]) if s["ospec"]["m"] == "names" else None
                    bind(s, op.call_inline(f, *[arg(a) for a in s["args"]], _outputs=on, _prefix=s["pfx"], **kw))
            else:
                raise core.MachineryError(f"unknown statement kind {kind}")
        except (_Raised, core.MachineryError):
            raise
        except Exception as ex:  # noqa: BLE001 - the builder refusing / crashing on a traced call is an observation
            raise _Raised(k, ex) from ex


def check_wiring(stmts, env, fdesc, bad):
    """the built graph IS the traced sequence of calls: the node that produced each returned value has the traced
    operator, the traced values as operands (same ir.Value objects), the traced literals as constants and the traced
    attributes - also in code whose results are never used"""
    import onnx_ir as ir

    def const_of(v):
        if v is None:
            return None
        if v.const_value is not None and v.producer() is None:
            return v.const_value.numpy()
        p = v.producer()
        if p is not None and p.op_type == "CastLike":
            return const_of(p.inputs[0])
        return None

    for s in stmts:
        kind = s["kind"]
        if kind in ("push", "pop"):
            continue
        outs = [env.get(v) for v in s["outs"]]
        if any(o is None for o in outs):
            bad.append(f"call #{s['k']} ({s['op']}): a returned value is missing")
            continue
        node = outs[0].producer()
        if kind == "inline":
            fd = fdesc[s["fn"] - 1]
            for o, v in zip(fd["outputs"], outs):
                want = next(n["op"] for n in fd["nodes"] if any(x[1] == o for x in n["outs"]))
                if v.producer() is None or v.producer().op_type != want:
                    bad.append(f"call #{s['k']}: inlined {s['op']} returns a value produced by {v.producer().op_type if v.producer() else None}, its body computes that output with {want}")
            continue
        if node is None:
            bad.append(f"call #{s['k']} ({s['op']}): returned value has no producer")
            continue
        if node.op_type != s["op"] or any(o.producer() is not node for o in outs) or list(node.outputs) != outs:
            bad.append(f"call #{s['k']}: traced {s['op']}, node is {node.op_type} with outputs {[o.name for o in node.outputs]}")
            continue
        ins = list(node.inputs)
        if len(ins) != len(s["args"]):
            bad.append(f"call #{s['k']} ({s['op']}): {len(s['args'])} operands traced, node has {len(ins)}")
            continue
        for j, a in enumerate(s["args"]):
            if a["a"] == "v":
                if ins[j] is not env[a["v"]]:
                    bad.append(f"call #{s['k']} ({s['op']}): operand {j} is {ins[j].name if ins[j] is not None else None}, traced value is {env[a['v']].name}")
            elif a["a"] == "n":
                if ins[j] is not None:
                    bad.append(f"call #{s['k']} ({s['op']}): operand {j} was None in the trace")
            else:
                c = const_of(ins[j])
                if c is None or not np.array_equal(np.asarray(c).astype(np.float64), np.asarray(LIT[a["l"]], dtype=np.float64)):
                    bad.append(f"call #{s['k']} ({s['op']}): operand {j} should be the literal {LIT[a['l']]}, is {None if c is None else np.asarray(c).tolist()}")
        if kind == "op":
            for an, av in (s["at"] or {}).items():
                at = node.attributes.get(an)
                got = None if at is None else (list(at.value) if isinstance(at.value, (list, tuple)) else at.value)
                if got != av:
                    bad.append(f"call #{s['k']} ({s['op']}): attribute {an} = {got}, traced {av}")
        if kind in ("if", "loop", "scan"):
            names = ["then_branch", "else_branch"] if kind == "if" else ["body"]
            for b, an in zip(s["subs"], names):
                g = node.attributes[an].as_graph()
                if [v for v in g.outputs] != [env.get(v) for v in b["res"]] or any(x is not y for x, y in zip(g.outputs, [env.get(v) for v in b["res"]])):
                    bad.append(f"call #{s['k']} ({s['op']}): outputs of {an} are not the values the body returned")
                if any(x is not env.get(v) for x, v in zip(g.inputs, b["ins"])) or len(g.inputs) != len(b["ins"]):
                    bad.append(f"call #{s['k']} ({s['op']}): inputs of {an} are not the declared ones")
                check_wiring(b["body"], env, fdesc, bad)


def real_nodes(graph):
    """alpha of the built graph: node tree with names (same shape as the spec's node records)"""
    import onnx_ir as ir

    out = []
    for n in graph:
        subs = []
        for a in n.attributes.values():
            if a.type == ir.AttributeType.GRAPH:
                subs.append((a.name, a.as_graph()))
        # the spec lists then_branch before else_branch, body alone
        order = {"then_branch": 0, "else_branch": 1, "body": 0}
        subs.sort(key=lambda t: order.get(t[0], 5))
        out.append({"nm": n.name, "op": n.op_type, "dom": n.domain, "ins": [("" if v is None else v.name) for v in n.inputs],
                    "outs": [v.name for v in n.outputs],
                    "subs": [{"ins": [v.name for v in g.inputs], "outs": [v.name for v in g.outputs], "nodes": real_nodes(g)} for _, g in subs]})
    return out


def model_nodes(nodes, names):
    out = []
    for n in nodes:
        out.append({"nm": n["nm"], "op": n["op"], "dom": n["dom"],
                    "ins": [names[v - 1]["nm"] if v else c for v, c in zip(n["iv"], n["cn"])],
                    "outs": [names[v - 1]["nm"] for v in n["ov"]],
                    "subs": [{"ins": [names[v - 1]["nm"] for v in g["iv"]], "outs": [names[v - 1]["nm"] for v in g["ov"]],
                              "nodes": model_nodes(g["nodes"], names)} for g in n["subs"]]})
    return out


def all_names(nodes, acc_v, acc_n):
    for n in nodes:
        acc_n.append(n["nm"])
        acc_v.extend(x for x in n["outs"] if x)
        for g in n["subs"]:
            acc_v.extend(g["ins"])
            all_names(g["nodes"], acc_v, acc_n)


def _bld_begin():
    from onnxscript._internal import _verif

    if _verif.ENABLED:
        _verif.abort_all()
        del _verif.traces[:]


def _bld_take(gb, obs, case):
    """the recorded trace of the root builder gb (hooks in builder.py / _parameter.py), for BuilderTrace.tla"""
    from onnxscript._internal import _verif

    if not _verif.ENABLED or not case.get("_bld"):
        return
    _verif.abort_all()
    me = _verif.tok(gb, "b")
    got = [t for t in _verif.traces if str(t.get("kind", "")).startswith("builder/") and t.get("meta", {}).get("b") == me]
    del _verif.traces[:]
    if got:
        obs["bldtrace"] = dict(got[0], allowed_findings=list(case.get("why") or []))


def replay_trace(case):
    """-> observation dict of the real builder on one TLC trace"""
    import onnx
    import onnx_ir as ir
    import onnxruntime as ort

    from onnxscript._internal import builder as B

    ort.set_default_logger_severity(4)
    fdesc = _FDESC[0]
    obs = {"outcome": "ok", "err": None, "nodes": None, "inits": None, "ort": None, "np": None, "checker": None, "patched_outputs": 0}
    # the property's reference: NumPy replay
    ref = []
    for inp in INPUTS:
        env = {i + 1: inp[n] for i, n in enumerate(INPUT_NAMES)}
        np_block(case["prog"], env, fdesc)
        ref.append([enc(env[v]) for v in case["outs"]])
    obs["np"] = ref
    g = ir.Graph(name="main", inputs=[], outputs=[], nodes=[], opset_imports={"": OPSET})
    _bld_begin()
    gb = B.GraphBuilder(g)
    env = {}
    for i, n in enumerate(INPUT_NAMES):
        a = INPUTS[0][n]
        env[i + 1] = gb.input(n, _irdt(DTN[a.dtype]), list(a.shape))
    try:
        run_block(gb.op, case["prog"], env, case)
    except _Raised as ex:
        obs["outcome"] = "raise"
        obs["err"] = str(ex)
        _bld_take(gb, obs, case)
        return obs
    if gb._scope_stack:   # noqa: SLF001
        obs["scope_left"] = list(gb._scope_stack)
    for v in case["outs"]:
        val = env[v]
        gb.add_output(val, None)
        # declaring the graph outputs' types is the model author's job: filled from the trace where inference gave none
        info = case["names"][v - 1]
        if val.type is None:
            val.type = ir.TensorType(_irdt(info["dt"]))
            obs["patched_outputs"] += 1
        if val.shape is None:
            val.shape = ir.Shape(list(info["shape"]))
    _bld_take(gb, obs, case)
    for f in gb.functions.values():
        g.opset_imports.setdefault(f.domain, 1)
    wiring = []
    check_wiring(case["prog"], env, fdesc, wiring)
    obs["wiring"] = wiring
    obs["nodes"] = real_nodes(g)
    obs["inits"] = [{"nm": k, "dt": DTN.get(np.dtype(v.const_value.dtype.numpy()), "?"), "shape": list(v.const_value.shape),
                     "data": [int(x) for x in np.asarray(v.const_value.numpy()).reshape(-1)]} for k, v in g.initializers.items()]
    obs["outnames"] = [env[v].name for v in case["outs"]]
    obs["functions"] = sorted(f.name for f in gb.functions.values())
    try:
        model = ir.Model(g, ir_version=10, functions=list(gb.functions.values()))
        mp = ir.serde.serialize_model(model)
    except Exception as ex:  # noqa: BLE001
        obs["outcome"] = "invalid"
        obs["err"] = f"serialize: {type(ex).__name__}: {str(ex)[:200]}"
        return obs
    obs["abstract"] = core.abstract_model("m", mp)
    try:
        onnx.checker.check_model(mp, full_check=True)
        obs["checker"] = "ok"
    except Exception as ex:  # noqa: BLE001
        obs["checker"] = f"{type(ex).__name__}: {str(ex)[:240]}"
    try:
        sess = core.ort_session(mp)
    except Exception as ex:  # noqa: BLE001
        obs["outcome"] = "invalid"
        obs["err"] = f"onnxruntime: {str(ex)[:300]}"
        return obs
    res = []
    for inp in INPUTS:
        try:
            res.append([enc(r) for r in sess.run(None, inp)])
        except Exception as ex:  # noqa: BLE001
            res.append(f"ERR {str(ex)[:200]}")
    obs["ort"] = res
    return obs


_FDESC = [None]


def _trace_worker(case):
    if _FDESC[0] is None:
        _FDESC[0] = dump_funcs()
    return replay_trace(case)


# ------------------------------------------------------------------ part 2: module trees
_POL = [None]


def _tree_classes():
    import onnx_ir as ir

    from onnxscript import nn

    def visit(op, ch, x):
        pol = _POL[0]
        if isinstance(ch, nn.Sequential):
            if pol["sp"] == "call":
                return ch(op, x)
            for m in ch:                      # iterated by the parent like a ModuleList
                x = m(op, x)
            return x
        if isinstance(ch, nn.ModuleList):
            if getattr(ch, "c18_donor", False):      # its children were handed to a Sequential, which calls them
                return x
            lp = pol["lp"]
            if lp == "rev":
                seq = list(ch[::-1])
            elif lp == "slices":
                seq = list(ch[:1]) + list(ch[1:])
            elif lp == "index":
                seq = [ch[i] for i in range(len(ch))]
            else:
                seq = list(ch)
            for m in seq:
                x = visit(op, m, x)
            return x
        return ch(op, x)

    class Lin(nn.Module):
        def __init__(self, pid, name=None):
            super().__init__(name)
            self.pid = pid
            self.w = nn.Parameter([2], dtype=ir.DataType.INT64, data=ir.tensor(np.array([pid, pid], dtype=np.int64)))
            self.w.pid = pid

        def forward(self, op, x):
            x = op.Add(op.Mul(x, 2), self.w)

            def kids(op2, x2):
                for _, ch in list(self._modules.items()):
                    x2 = visit(op2, ch, x2)
                return x2

            if _POL[0]["sub"] == self.pid and self._modules:
                cond = op.Cast(op.Constant(value_int=1), to=9)
                def then(o2):
                    r = kids(o2, x)
                    return o2.Identity(r) if r is x else r      # a branch must produce its own output

                tb = op.builder.subgraph(then, inputs=[], outputs=[ir.Value(name=f"t_{self.pid}")], name="then")
                eb = op.builder.subgraph(lambda o2: o2.Identity(x), inputs=[], outputs=[ir.Value(name=f"e_{self.pid}")], name="else")
                return op.If(cond, then_branch=tb, else_branch=eb)
            return kids(op, x)

    return nn, Lin


def build_tree(case):
    nn, Lin = _tree_classes()
    none = "<none>"
    objs = [None]
    rk, rn = case["rootkind"], case["rootname"]
    objs.append(Lin(1, None if rn == none else rn) if rk == "M" else nn.Sequential())
    for h in case["hist"]:
        if h[0] == "new":
            pid = len(objs)
            objs.append(Lin(pid, None if h[2] == none else h[2]) if h[1] == "M" else (nn.ModuleList() if h[1] == "L" else nn.Sequential()))
        elif h[0] == "setattr":
            p, c = divmod(h[3], 100)
            setattr(objs[p], h[1], objs[c])
        elif h[0] == "append":
            l, c = divmod(h[3], 100)
            objs[l].append(objs[c])
        elif h[0] == "share":                     # objs[s] = Sequential(*objs[l])
            l, sq = divmod(h[3], 100)
            objs[sq] = nn.Sequential(*objs[l])
            object.__setattr__(objs[l], "c18_donor", True)
    return objs


def _trace_tree(root):
    import onnx_ir as ir

    from onnxscript._internal import builder as B

    g = ir.Graph(name="main", inputs=[], outputs=[], nodes=[], opset_imports={"": OPSET})
    gb = B.GraphBuilder(g)
    x = gb.input("x", ir.DataType.INT64, [2])
    out = root(gb.op, x)
    return g, gb, out


def replay_tree(case):
    import onnx
    import onnx_ir as ir
    import onnxruntime as ort

    ort.set_default_logger_severity(4)
    _POL[0] = case["pol"]
    obs = {"err": None}
    try:
        objs = build_tree(case)
        root = objs[1]
        sd = list(root.state_dict().keys())
        obs["state_dict"] = sd
        obs["named_parameters"] = [k for k, _ in root.named_parameters()]
        obs["keys_by_param"] = {}
        for k, prm in root.named_parameters():
            obs["keys_by_param"].setdefault(str(prm.pid), []).append(k)
        byid = {id(p): k for k, p in root.named_parameters()}
        _bld_begin()
        g, gb, out = _trace_tree(root)
        _bld_take(gb, obs, case)
    except Exception as ex:  # noqa: BLE001
        obs["err"] = f"{type(ex).__name__}: {str(ex)[:300]}"
        return obs
    obs["scope_left"] = list(gb._scope_stack)  # noqa: SLF001
    obs["inits"] = [[k, getattr(v, "pid", 0)] for k, v in g.initializers.items() if getattr(v, "pid", 0)]
    obs["other_inits"] = [k for k, v in g.initializers.items() if not getattr(v, "pid", 0)]
    obs["param_names"] = sorted([p.name, p.pid] for p in root.parameters())
    gb.add_output(out, None)
    if out.type is None:
        out.type = ir.TensorType(ir.DataType.INT64)
    if out.shape is None:
        out.shape = ir.Shape([2])
    try:
        mp = ir.serde.serialize_model(ir.Model(g, ir_version=10))
        obs["abstract"] = core.abstract_model("m", mp)
        obs["nodes"] = real_nodes(g)
        try:
            onnx.checker.check_model(mp, full_check=True)
            obs["checker"] = "ok"
        except Exception as ex:  # noqa: BLE001
            obs["checker"] = f"{type(ex).__name__}: {str(ex)[:240]}"
        r = core.ort_session(mp).run(None, {"x": np.array([1, 1], dtype=np.int64)})[0]
        obs["value"] = [int(v) for v in r]
    except Exception as ex:  # noqa: BLE001
        obs["run_err"] = f"{type(ex).__name__}: {str(ex)[:300]}"
    # the same tree built into a second graph
    try:
        g2, _, _ = _trace_tree(root)
        obs["second"] = [[k, v.pid] for k, v in g2.initializers.items() if getattr(v, "pid", 0)]
    except Exception as ex:  # noqa: BLE001
        obs["second_err"] = f"{type(ex).__name__}: {str(ex)[:200]}"
    return obs


# ------------------------------------------------------------------ judging
_REPORTED = {}


def _report(ctx, case, what, finding=None):
    """ctx.report, but an (as yet unlisted) deviation id is reported for at most 25 cases per run: the finding is one defect,
    not thousands of replay files.  Failures without a deviation id are always reported."""
    if finding is not None and ctx.known_finding(finding) is None:
        _REPORTED[finding] = _REPORTED.get(finding, 0) + 1
        ctx.add("cases_of_" + finding)
        if _REPORTED[finding] > 25:
            return
        what = f"[model: deviation {finding}] " + what
    ctx.report(case, what, finding=finding)


def _dups(obs_nodes, extra_values):
    """duplicate value / node names of a real graph with the graph path of every definition"""
    vdefs, ndefs = {}, {}

    def walk(nodes, path):
        for i, n in enumerate(nodes):
            ndefs.setdefault(n["nm"], []).append(path)
            for o in n["outs"]:
                if o:
                    vdefs.setdefault(o, []).append(path)
            for j, g in enumerate(n["subs"]):
                sp = f"{path}/{i}.{j}"
                for x in g["ins"]:
                    vdefs.setdefault(x, []).append(sp)
                walk(g["nodes"], sp)

    for x in extra_values:
        vdefs.setdefault(x, []).append("")
    walk(obs_nodes, "")
    dv = {k: v for k, v in vdefs.items() if len(v) > 1}
    dn = {k: v for k, v in ndefs.items() if len(v) > 1}
    return dv, dn


def _cross_graph(d):
    """the guard of deviation subgraph_name_reuse: every repeated name is defined in at least two different graphs"""
    return bool(d) and all(len(set(paths)) > 1 for paths in d.values())


def prog_size(stmts):
    n = 0
    for s in stmts:
        if s["kind"] not in ("push", "pop"):
            n += 1
        for b in s["subs"]:
            n += prog_size(b["body"])
    return n


def prog_features(stmts, acc=None):
    acc = set() if acc is None else acc
    for s in stmts:
        acc.add(s["kind"])
        if s["kind"] == "op":
            acc.add("op:" + s["op"])
        if any(a["a"] == "l" for a in s["args"]):
            acc.add("literal")
        if s["ospec"]["m"] in ("names", "vals"):
            acc.add("explicit_outputs")
        for b in s["subs"]:
            prog_features(b["body"], acc)
    return acc


def judge_trace(ctx, case, obs, wf):
    """property verdicts (ctx.report) + model agreement; returns number of SPEC-MISMATCHes"""
    mism = []
    why = list(case["why"])
    small = {"prog": case["prog"], "outs": case["outs"], "names": case["names"], "model": {"outcome": case["outcome"], "why": why, "uniq": case["uniq"]},
             "kind": "trace"}
    exp = [[{"dt": t["dt"], "shape": list(t["shape"]), "data": list(t["data"])} for t in row] for row in case["exp"]]
    if obs["np"] != exp:
        mism.append(f"TLC's Replay {exp} differs from the NumPy replay {obs['np']}")
    if obs["outcome"] != case["outcome"] and not (case["outcome"] == "either" and obs["outcome"] in ("ok", "invalid")):
        mism.append(f"outcome: model {case['outcome']}, builder {obs['outcome']} ({obs['err']})")
    # ---- property
    if obs["outcome"] == "raise":
        _report(ctx, dict(small, observed=obs["err"]), f"the builder raised on a traced call that the property covers: {obs['err']}",
                   finding="inline_raw_python_args" if ("inline_raw_python_args" in why and case["outcome"] == "raise") else None)
        return mism
    mnodes = model_nodes(case["nodes"], case["names"])
    if obs["nodes"] != mnodes:
        mism.append("node tree (names / operands) differs from the model's")
    minits = [{"nm": c["nm"], "dt": c["dt"], "shape": list(c["shape"]), "data": list(c["data"])} for c in case["inits"]]
    if obs["inits"] != minits:
        mism.append(f"initializers {obs['inits']} differ from the model's {minits}")
    if obs.get("wiring"):
        _report(ctx, dict(small, wiring=obs["wiring"]), f"the built graph is not the traced sequence of calls: {obs['wiring'][:3]}")
    if obs["outcome"] == "invalid":
        # a deviation explains an unusable model only where the implementation model predicts one
        fid = None
        if case["outcome"] in ("invalid", "either"):
            fid = "inline_default_attr_dropped" if "inline_default_attr_dropped" in why else ("subgraph_name_reuse" if "subgraph_name_reuse" in why else None)
        _report(ctx, dict(small, observed=obs["err"]), f"the built model is not valid: {obs['err']}", finding=fid)
        return mism
    dv, dn = _dups(obs["nodes"], INPUT_NAMES + [i["nm"] for i in obs["inits"]])
    uniq = not dv and not dn
    if uniq != case["uniq"]:
        mism.append(f"name uniqueness: model {case['uniq']}, builder {uniq} ({list(dv)[:3]} {list(dn)[:3]})")
    ssa_tla = all(w[0] for w in wf) if wf else None
    if wf is not None and (ssa_tla is False) != bool(dv):
        mism.append(f"Graph.tla SSA verdict {ssa_tla} disagrees with the Python duplicate scan {list(dv)[:3]}")
    if not uniq:
        fid = "subgraph_name_reuse" if (not case["uniq"] and _cross_graph(dict(dv, **{"node:" + k: v for k, v in dn.items()}))) else None
        _report(ctx, dict(small, duplicate_values=dv, duplicate_nodes=dn),
                   f"names are not unique: values {sorted(dv)[:4]} nodes {sorted(dn)[:4]}", finding=fid)
    if obs["checker"] != "ok":
        # the strict checker trips over a repeated VALUE name (two types for one name); repeated node names do not bother it
        fid = "subgraph_name_reuse" if (dv and not case["uniq"] and _cross_graph(dv)) else None
        _report(ctx, dict(small, observed=obs["checker"]), f"onnx.checker rejects the built model: {obs['checker']}", finding=fid)
    if wf is not None and not all(all(w[1:]) for w in wf):
        _report(ctx, dict(small, wf=[list(w) for w in wf]), f"Graph.tla WF fails on the built model (scoped, outputs, imports): {wf}")
    if obs["ort"] != obs["np"]:
        fid = "subgraph_name_reuse" if (dv and not case["uniq"] and _cross_graph(dv)) else None
        _report(ctx, dict(small, ort=obs["ort"], numpy=obs["np"]), f"onnxruntime on the built graph gives {obs['ort']}, the NumPy replay of the trace {obs['np']}", finding=fid)
    return mism


def regs_bad(pairs, kbp, pre):
    """parameters NOT registered exactly once under root name + one of their own state_dict keys"""
    regs = {}
    for k, pid in pairs:
        regs.setdefault(str(pid), []).append(k)
    bad = [pid for pid in kbp if len(regs.get(pid, [])) != 1 or regs[pid][0] not in [pre + k for k in kbp[pid]]]
    bad += [pid for pid in regs if pid not in kbp]
    names = [k for k, _ in pairs]
    if len(set(names)) != len(names):
        bad.append("duplicate names")
    return sorted(set(bad))


def judge_tree(ctx, case, obs, wf):
    mism = []
    why = sorted(case["why"])
    small = {"kind": "tree", "hist": case["hist"], "pol": case["pol"], "rootkind": case["rootkind"], "rootname": case["rootname"],
             "own_tensor_value": case["dvalue"]}
    if obs.get("err"):
        _report(ctx, dict(small, observed=obs["err"]), f"building/tracing the module tree raised: {obs['err']}")
        return mism
    pre = "" if case["rootname"] == "<none>" else case["rootname"] + "."
    expected = [pre + k for k in obs["state_dict"]]           # the property's reference: the real state_dict()
    if expected != [e["k"] for e in case["keys"]]:
        mism.append(f"state_dict keys {expected} differ from the model's {[e['k'] for e in case['keys']]}")
    if obs["named_parameters"] != obs["state_dict"]:
        _report(ctx, dict(small, observed=obs), f"named_parameters() {obs['named_parameters']} and state_dict() {obs['state_dict']} disagree")
    # the model's registrations as the dict the code keeps (a repeated name keeps its place and takes the last tensor)
    md = {}
    for e in case["inits"]:
        md[e["k"]] = e["p"]
    if obs["inits"] != [[k, p] for k, p in md.items()]:
        mism.append(f"initializers {obs['inits']} differ from the model's {[[k, p] for k, p in md.items()]}")
    if obs.get("value") != [case["value"]] * 2 and "run_err" not in obs:
        mism.append(f"value {obs.get('value')} differs from the model's {case['value']}")
    if [k for k, _ in obs.get("second") or []] != list(case["second"]):
        mism.append(f"second build {obs.get('second')} differs from the model's {case['second']}")
    # ---- property: every parameter is registered exactly once, under root name + one of ITS state_dict keys
    names = [k for k, _ in obs["inits"]]
    kbp = obs["keys_by_param"]
    bad = regs_bad(obs["inits"], kbp, pre)
    if bad:
        fid = why[0] if (why and not mism) else None
        _report(ctx, dict(small, initializers=obs["inits"], expected=expected),
                   f"parameter initializers {names} are not root name + state_dict keys {expected} (parameters {sorted(bad)})", finding=fid)
    if obs.get("scope_left"):
        _report(ctx, dict(small, scope=obs["scope_left"]), f"scope stack not balanced after tracing: {obs['scope_left']}")
    if "run_err" in obs:
        _report(ctx, dict(small, observed=obs["run_err"]), f"the built model cannot be serialized/run: {obs['run_err']}", finding=(why[0] if why and not mism else None))
    else:
        if obs["value"] != [case["dvalue"]] * 2:
            _report(ctx, dict(small, value=obs["value"], expected=case["dvalue"]),
                       f"the graph computes {obs['value']} but the traced calls with each module's own parameter give {case['dvalue']}",
                       finding=(why[0] if why and not mism else None))
        if obs.get("checker") != "ok":
            _report(ctx, dict(small, observed=obs["checker"]), f"onnx.checker rejects the built model: {obs['checker']}")
        dv, dn = _dups(obs["nodes"], ["x"] + [k for k, _ in obs["inits"]] + obs["other_inits"])
        if dv or dn:
            fid = "subgraph_name_reuse" if _cross_graph(dict(dv, **{"node:" + k: v for k, v in dn.items()})) else None
            _report(ctx, dict(small, duplicate_values=dv, duplicate_nodes=dn), f"names are not unique: values {sorted(dv)[:4]} nodes {sorted(dn)[:4]}", finding=fid)
    if kbp and regs_bad(obs.get("second") or [], kbp, pre):
        _report(ctx, dict(small, second=obs.get("second"), expected=expected),
                   f"building the same tree into a second graph registers {obs.get('second')} instead of {expected}",
                   finding="realized_sticky" if obs.get("second") == [] else None)
    return mism


# ------------------------------------------------------------------ run
def _tlc_jobs(jobs):
    """run several TLC jobs side by side (each is its own JVM); jobs: {label: kwargs of core.run_tlc}"""
    import concurrent.futures as cf

    out = {}
    with cf.ThreadPoolExecutor(max_workers=len(jobs)) as ex:
        futs = {k: ex.submit(core.run_tlc, **kw) for k, kw in jobs.items()}
        for k, f in futs.items():
            out[k] = f.result()
    return out


def _cases(res, tag):
    return [json.loads(p[1]) for p in res.printed if p and p[0] == tag]


def walk(stmts):
    for s in stmts:
        yield s
        for b in s["subs"]:
            yield from walk(b["body"])


def run(ctx: core.Ctx):
    env = spec_env()
    q = ctx.quick
    w = max(2, core.NCPU // 3)
    jobs = {
        "Builder exhaustive": dict(module="Builder", cfg="Builder_quick.cfg" if q else "Builder_thorough.cfg", env=env, workers=w, timeout=3000),
        "Builder simulate": dict(module="Builder", cfg="Builder_sim.cfg", env=env, workers=8, simulate=f"num={24 if q else 300}", depth=45,
                                 seed=ctx.seed + 1, timeout=3000),
        "Builder untyped": dict(module="Builder", cfg="Builder_untyped.cfg", env=env, workers=4, timeout=3000),
        "Builder carry": dict(module="Builder", cfg="Builder_carry.cfg", env=env, workers=3, timeout=3000),
        # straight-line traces in which every op call has a literal operand, over the binary / variadic / ternary operators, literal
        # first and literal last, int / float / bool / list literals beside INT64 and FLOAT values (promotion through _cast_inputs)
        "Builder lits": dict(module="Builder", cfg="Builder_lits.cfg", env=env, workers=4, timeout=3000),
        "Builder design": dict(module="Builder", cfg="Builder_design.cfg", env=env, workers=2, timeout=3000),
        "Builder vacuity": dict(module="Builder", cfg="Builder_vacuity.cfg", env=env, workers=1, timeout=1500),
        "ModuleTree exhaustive": dict(module="ModuleTree", cfg="ModuleTree_quick.cfg" if q else "ModuleTree_thorough.cfg", workers=2 if q else w, timeout=3000),
        "ModuleTree orders": dict(module="ModuleTree", cfg="ModuleTree_orders.cfg", workers=4, timeout=3000),
        "ModuleTree simulate": dict(module="ModuleTree", cfg="ModuleTree_sim.cfg", workers=2, simulate=f"num={60 if q else 1500}", depth=24,
                                    seed=ctx.seed + 2, timeout=3000),
        "ModuleTree design": dict(module="ModuleTree", cfg="ModuleTree_design.cfg", workers=1, timeout=1500),
        "ModuleTree vacuity": dict(module="ModuleTree", cfg="ModuleTree_vacuity.cfg", workers=1, timeout=1500),
    }
    res = _tlc_jobs(jobs)
    for label, r in res.items():
        ctx.tlc(r, label)
        if label.endswith("vacuity"):
            if r.ok:
                raise core.MachineryError(f"vacuity: witness invariant of {label} was never violated")
        elif not r.ok or r.violated:
            raise core.MachineryError(f"TLC reports {r.violated} in {label}:\n{r.out[-2000:]}")
    rng = random.Random(ctx.seed)

    # ---------------- part 1: traces
    seen = set()
    traces = []
    for label in ("Builder exhaustive", "Builder untyped", "Builder carry", "Builder lits", "Builder simulate"):
        for c in _cases(res[label], "CASE"):
            key = json.dumps(c["prog"], sort_keys=True)
            if key not in seen:
                seen.add(key)
                c["src"] = label
                traces.append(c)
    ctx.set("spec_traces", len(traces))
    if not traces:
        raise core.MachineryError("TLC printed no trace")
    for c in traces:
        if not c["consistent"]:
            raise core.MachineryError(f"spec: stepwise values and full Replay differ on {json.dumps(c['prog'])[:300]}")
    feats = [prog_features(c["prog"]) for c in traces]
    witnesses = {
        "a subgraph inside a subgraph": any(any(s["kind"] in ("if", "loop", "scan") for b in t["subs"] for s in walk(b["body"])) for c in traces for t in walk(c["prog"]) if t["subs"]),
        "an inlined function in a loadable model": any("inline" in f and c["outcome"] == "ok" for f, c in zip(feats, traces)),
        "a dynamic CastLike helper": any(any(n["hid"] and not n["tk"] for n in c["names"]) for c in traces),
        "names repeated across graphs": any("subgraph_name_reuse" in c["why"] for c in traces),
        "Scan": any("scan" in f for f in feats), "Loop": any("loop" in f for f in feats), "If": any("if" in f for f in feats),
        "function call": any("call" in f for f in feats), "push_module": any("push" in f for f in feats),
    }
    missing = [k for k, v in witnesses.items() if not v]
    if missing:
        raise core.MachineryError(f"vacuity: no derived trace has {missing}")
    ops_seen = {x[3:] for f in feats for x in f if x.startswith("op:")}
    ctx.set("operators_exercised", len(ops_seen) + 3)
    if not q and set(MENU) - ops_seen:
        raise core.MachineryError(f"operators never derived: {sorted(set(MENU) - ops_seen)}")
    if q and len(traces) > 2600:
        # keep the cases the implementation model marks as deviating and every case in which a literal meets an untyped
        # value inside a subgraph (helper nodes created in an inner scope), sample the rest
        issharp = {id(c): untyped_literal_in_subgraph(c) or literal_carried(c) or c["src"] == "Builder lits" for c in traces}
        sharp = [c for c in traces if not c["why"] and issharp[id(c)]]
        dev = [c for c in traces if c["why"]]
        rest = [c for c in traces if not c["why"] and not issharp[id(c)]]
        for l in (sharp, dev, rest):
            rng.shuffle(l)
        sharp, dev = sharp[:1800], dev[:500]
        traces = dev + sharp + rest[: max(0, 2600 - len(dev) - len(sharp))]
    ctx.set("traces_with_untyped_literal_in_subgraph", sum(1 for c in traces if untyped_literal_in_subgraph(c)))
    ctx.set("traces_with_literal_loop_carried_operand", sum(1 for c in traces if literal_carried(c)))
    for k in rng.sample(range(len(traces)), min(len(traces), int(os.environ.get("VERIF_BLD_SAMPLE", 0)) or (500 if q else 4000))):
        traces[k]["_bld"] = True
    obs = core.pmap_safe(_trace_worker, traces, timeout=120)
    items = []
    for i, o in enumerate(obs):
        if isinstance(o, dict) and o.get("abstract"):
            items += [dict(it, id=f"t{i}:{it['id']}") for it in o["abstract"]]
    # ---------------- part 2: trees
    trees = []
    seen = set()
    for label in ("ModuleTree exhaustive", "ModuleTree orders", "ModuleTree simulate"):
        for c in _cases(res[label], "TREE"):
            key = json.dumps([c["hist"], c["pol"], c["rootkind"], c["rootname"]], sort_keys=True)
            if key not in seen:
                seen.add(key)
                trees.append(c)
    ctx.set("spec_trees", len(trees))
    if not any(c["depth"] == 4 for c in trees):
        raise core.MachineryError("vacuity: no module tree of depth 4 derived")
    for k in ("M", "L", "S"):
        if not any(any(o["kind"] == k for o in c["objs"][1:]) for c in trees):
            raise core.MachineryError(f"vacuity: no tree with a child of kind {k}")
    cap = 1500 if q else 40000
    if len(trees) > cap:
        # every tree in which a POPULATED container is appended into another container (names must be re-qualified through
        # the nested container), a share of those assigned to a Module attribute, the deviating ones, a sample of the rest
        # ... and every tree with a child that already had a name when its container registered it (explicit name,
        # or the children of a ModuleList handed to a Sequential)
        pba = {id(c): (3 if prenamed(c) else populated_before_attach(c)) for c in trees}
        pren = [c for c in trees if pba[id(c)] == 3]
        nested = [c for c in trees if pba[id(c)] == 2]
        attr = [c for c in trees if pba[id(c)] == 1]
        dev = [c for c in trees if c["why"] and pba[id(c)] == 0]
        rest = [c for c in trees if not c["why"] and pba[id(c)] == 0]
        for l in (pren, nested, attr, dev, rest):
            rng.shuffle(l)
        pren, nested, attr, dev = pren[: cap], nested[: cap], attr[: cap // 3], dev[: cap // 3]
        trees = pren + nested + attr + dev + rest[: max(cap // 3, cap - len(pren) - len(nested) - len(attr) - len(dev))]
    ctx.set("trees_with_prenamed_container_child", sum(1 for c in trees if prenamed(c)))
    ctx.set("trees_with_populated_container_nested", sum(1 for c in trees if populated_before_attach(c) == 2))
    for k in rng.sample(range(len(trees)), min(len(trees), int(os.environ.get("VERIF_BLD_SAMPLE", 0)) or (400 if q else 4000))):
        trees[k]["_bld"] = True
    tobs = core.pmap_safe(replay_tree, trees, timeout=120)
    tsel = set(rng.sample(range(len(trees)), min(len(trees), 250 if q else 3000)))
    for i, o in enumerate(tobs):
        if i in tsel and isinstance(o, dict) and o.get("abstract"):
            items += [dict(it, id=f"m{i}:{it['id']}") for it in o["abstract"]]
    wf = core.graphcheck(ctx, items, "GraphCheck (Graph.tla WF on the built protos)")
    by = {}
    for k, v in wf.items():
        by.setdefault(k.split(":", 1)[0], []).append(v)

    # ---------------- verdicts
    nmis = 0
    nontriv = set()
    for i, (c, o) in enumerate(zip(traces, obs)):
        ctx.add("evaluations")
        if o is core.HANG:
            ctx.report({"prog": c["prog"], "kind": "trace"}, "replaying the trace into GraphBuilder did not finish within 120 s")
            continue
        if isinstance(o, core.MachineryErrorResult):
            raise core.MachineryError(f"trace replay failed: {o.msg}\n{json.dumps(c['prog'])[:600]}")
        ctx.add("traces_validated_against_impl")
        ctx.add("graph_outputs_typed_by_harness", o.get("patched_outputs", 0))
        f = prog_features(c["prog"])
        if f & {"if", "loop", "scan", "call", "inline", "literal", "explicit_outputs", "push"}:
            nontriv.add(json.dumps(c["prog"], sort_keys=True))
        mm = judge_trace(ctx, c, o, by.get(f"t{i}"))
        for m in mm:
            nmis += 1
            if nmis <= 12:
                print(f"SPEC-MISMATCH C18 trace: {m}\n   program: {json.dumps(c['prog'])[:700]}", flush=True)
        if mm and len(ctx.coverage.setdefault("mismatch_cases", [])) < 3:
            ctx.coverage["mismatch_cases"].append({"what": mm, "case": c})
        if i % 400 == 0:
            ctx.sample({"program": c["prog"], "outcome": o["outcome"], "ort": o["ort"], "numpy": o["np"]}, limit=3)
    for i, (c, o) in enumerate(zip(trees, tobs)):
        ctx.add("evaluations")
        if o is core.HANG:
            ctx.report({"hist": c["hist"], "kind": "tree"}, "building the module tree did not finish within 120 s")
            continue
        if isinstance(o, core.MachineryErrorResult):
            raise core.MachineryError(f"tree replay failed: {o.msg}\n{json.dumps(c['hist'])[:600]}")
        ctx.add("traces_validated_against_impl")
        if len(c["objs"]) >= 2:
            nontriv.add(json.dumps([c["hist"], c["pol"], c["rootkind"], c["rootname"]]))
        mm = judge_tree(ctx, c, o, by.get(f"m{i}"))
        for m in mm:
            nmis += 1
            if nmis <= 12:
                print(f"SPEC-MISMATCH C18 tree: {m}\n   construction: {json.dumps(c['hist'])} policy {c['pol']}", flush=True)
        if i % 500 == 0:
            ctx.sample({"construction": c["hist"], "policy": c["pol"], "initializers": o.get("inits"), "state_dict": o.get("state_dict")}, limit=6)
    ctx.set("model_impl_mismatches", nmis)
    # hand-written traces for a combination the menus do not derive: build_function bodies with control-flow subgraphs whose
    # literals are used only inside the nested bodies, called as a node and inlined
    from . import builder_extra

    for bc in builder_extra.cases():
        ctx.add("evaluations")
        ctx.add("hand_written_builder_traces")
        for msg in builder_extra.run_case(bc):
            ctx.report({"kind": "builder_extra", "case": bc, "failure": msg}, f"hand-written builder trace {bc['name']}: {msg}")
            break
    # direction B: the recorded executions of the builder (repository tests, hand-written drivers, a sample of the replayed traces
    # and module trees) are executed event by event by BuilderApply.tla
    from . import bldtrace

    case_traces = []
    for tag, oo in (("trace", obs), ("tree", tobs)):
        for i, o in enumerate(oo):
            if isinstance(o, dict) and o.get("bldtrace"):
                case_traces.append(dict(o["bldtrace"], id=f"{tag}/{i}"))
    bldtrace.stage(ctx, case_traces)
    ctx.set("distinct_nontrivial", len(nontriv))
    ctx.set("exhaustive", False)
    ctx.set("rule", "traces = 'done' states of Builder.tla: exhaustive over a small menu (cfg) plus random derivations (-simulate) over the full menu "
                    "(41 operators + If/Loop/Scan, literals, _outputs forms, push/pop_module, call/call_inline of 4 functions); trees = 'done' states of "
                    "ModuleTree.tla (all construction orders x call policies up to MaxObjs, plus simulated trees of 5-6 modules, depth <= 4); "
                    "non-trivial = distinct program with a subgraph / function / literal / explicit output / scope, or tree with >= 2 modules; "
                    "every case is built with the real GraphBuilder / onnxscript.nn and run on 2 inputs")
    ctx.assumptions += [
        "values are INT64 / BOOL / integer-valued FLOAT tensors of at most 8 elements: equality is exact",
        "onnxruntime (optimizations disabled) implements the 41 operators, If, Loop and Scan as ONNX specifies; NumPy is the reference of the trace",
        "the model author declares type/shape of graph outputs that shape inference could not type (after function calls) and imports the domains of called functions",
        "explicit module names equal the attribute they are assigned to; modules are not shared between containers; every registered child is called",
        "names repeated only between SIBLING subgraphs are counted as not unique (Graph.tla SSA), although runtimes accept them",
    ]


def replay(ctx, path):
    with open(path) as f:
        blob = json.load(f)
    case = blob["case"]
    print(blob.get("what"))
    if "trace_full" in case:
        # a recorded builder trace that BuilderApply.tla rejected: validate the recorded trace again (the verdict names the clause)
        from . import bldtrace

        t = dict(case["trace_full"], id="replay/0")
        verdicts, notes = bldtrace.validate(ctx, [t], "replay")
        idx, clause, _ = verdicts["replay/0"]
        print(f"BuilderApply.tla verdict: event {idx}: {clause}; soft clauses: {notes.get('replay/0', [])}")
        if 0 < idx <= len(t["events"]):
            print("offending event:", json.dumps(t["events"][idx - 1]))
        bad = idx != 0 or bool(notes.get("replay/0"))
        print("recorded trace accepted now" if not bad else "recorded trace still rejected")
        return 1 if bad else 0
    if case.get("kind") == "tree":
        o = replay_tree({"hist": case["hist"], "pol": case["pol"], "rootkind": case["rootkind"], "rootname": case["rootname"]})
        print(json.dumps({k: v for k, v in o.items() if k not in ("abstract", "nodes")}, indent=1))
        pre = "" if case["rootname"] == "<none>" else case["rootname"] + "."
        kbp = o.get("keys_by_param", {})
        bad = (o.get("err") or "run_err" in o or regs_bad(o.get("inits", []), kbp, pre)
               or (kbp and regs_bad(o.get("second") or [], kbp, pre))
               or ("own_tensor_value" in case and o.get("value") != [case["own_tensor_value"]] * 2))
        print("property holds now" if not bad else "property still violated")
        return 1 if bad else 0
    o = _trace_worker({"prog": case["prog"], "outs": case["outs"], "names": case["names"]})
    print(json.dumps({k: v for k, v in o.items() if k not in ("abstract", "nodes")}, indent=1))
    bad = o["outcome"] != "ok" or o["checker"] != "ok" or o["ort"] != o["np"] or bool(o.get("wiring"))
    if not bad:
        dv, dn = _dups(o["nodes"], INPUT_NAMES + [i["nm"] for i in o["inits"]])
        bad = bool(dv or dn)
    print("property holds now" if not bad else "property still violated")
    return 1 if bad else 0


def populated_before_attach(case):
    """construction-order feature: a container that already holds children is appended to / assigned into its parent;
    2 = ... into a container (nested containers), 1 = ... into a Module attribute, 0 = never"""
    kinds = {1: case["rootkind"]}
    nkids = {}
    best = 0
    for h in case["hist"]:
        if h[0] == "new":
            kinds[len(kinds) + 1] = h[1]
        elif h[0] == "share":
            l, sq = divmod(h[3], 100)
            nkids[sq] = nkids.get(l, 0)
        else:
            p, c = divmod(h[3], 100)
            if kinds[c] in ("L", "S") and nkids.get(c, 0) > 0:
                best = max(best, 2 if h[0] == "append" else 1)
            nkids[p] = nkids.get(p, 0) + 1
    return best


def untyped_literal_in_subgraph(case):
    unt = {i + 1 for i, v in enumerate(case["names"]) if not v["tk"] and not v["hid"]}

    def rec(stmts, depth):
        for s in stmts:
            if depth > 0 and s["kind"] == "op" and any(a["a"] == "l" for a in s["args"]) and any(a["a"] == "v" and a["v"] in unt for a in s["args"]):
                return True
            if any(rec(b["body"], depth + 1) for b in s["subs"]):
                return True
        return False

    return rec(case["prog"], 0)


def prenamed(case):
    return any(o.get("pre") for o in case["objs"])


def literal_carried(case):
    return any((s["kind"] == "loop" and len(s["args"]) == 4) or (s["kind"] == "scan" and len(s["args"]) == 3) for s in walk(case["prog"]))
