"""Direction B for the script converter: traces recorded by the hooks in converter.py
(ONNXSCRIPT_VERIF=1) are validated by TLC against spec/Converter.tla (ConverterTrace.tla).

Sources of traces:
  * the repository's own programs: tests/models/*.py, docs examples, the scripted torch_lib
    functions (imported in a fresh interpreter with the hooks on),
  * the repository's own converter tests, run under pytest with the hooks on (every script()
    call the tests make is a trace),
  * the programs Script.tla derives (collected by the C01/C02 workers).

The abstract statement tree sent with each trace is computed HERE from the source text with
Python's ast module - independently of onnxscript's analysis.py, whose results (via the hooks'
If/Loop events) are what the specification judges.
"""
from __future__ import annotations

import ast
import glob
import json
import os
import re
import subprocess
import sys
import textwrap

from . import core

# clause -> property that owns it
STRUCTURAL = ("param_", "gen_", "emit_", "enter_", "exit_", "end_outputs", "end_scope", "unknown_event")


def clause_property(clause: str) -> str:
    return "C02" if clause.startswith(STRUCTURAL) else "C01"


def owns(prop: str, clause: str) -> bool:
    # a graph that violates a structural clause cannot be executed faithfully either: C01 owns every clause,
    # C02 the structural ones
    return prop == "C01" or clause_property(clause) == prop


# ------------------------------------------------------------------------------------------------
# abstract statement tree (def/use sets) from source text
# ------------------------------------------------------------------------------------------------
def _names_loaded(expr) -> list[str]:
    """All variables an expression reads, as Python evaluates it - except the callee of a call
    (op.Add, a script function, range/print), which is resolved at script time, not a tensor use."""
    out: list[str] = []

    def visit(e):
        if e is None:
            return
        if isinstance(e, ast.Name):
            if isinstance(e.ctx, ast.Load):
                out.append(e.id)
            return
        if isinstance(e, ast.Call):
            for a in e.args:
                visit(a)
            for k in e.keywords:
                visit(k.value)
            return
        for c in ast.iter_child_nodes(e):
            visit(c)

    visit(expr)
    return out


def _targets(lhs) -> list[str]:
    if isinstance(lhs, ast.Tuple):
        return [x.id for x in lhs.elts if isinstance(x, ast.Name)]
    if isinstance(lhs, ast.Name):
        return [lhs.id]
    return []


def _stmt(s, consts: dict, locals_: set[str]):
    base = {"k": "other", "defs": [], "uses": [], "v": "", "t": [], "f": [], "c": "none", "line": getattr(s, "lineno", 0), "params": []}

    def uses(e):
        return sorted({n for n in _names_loaded(e) if n in locals_})

    if isinstance(s, ast.Assign):
        base.update(k="asg", defs=sorted(set(_targets(s.targets[0]))), uses=uses(s.value))
    elif isinstance(s, ast.AnnAssign):
        base.update(k="asg", defs=sorted(set(_targets(s.target))), uses=uses(s.value))
    elif isinstance(s, ast.Return):
        base.update(k="ret", uses=uses(s.value))
    elif isinstance(s, ast.If):
        c = consts.get(str(s.lineno))
        base.update(k="if", uses=uses(s.test), t=_block(s.body, consts, locals_), f=_block(s.orelse, consts, locals_),
                    c="none" if c is None else ("true" if c else "false"))
    elif isinstance(s, ast.For):
        v = s.target.id if isinstance(s.target, ast.Name) else ""
        it = s.iter.args[0] if isinstance(s.iter, ast.Call) and s.iter.args else s.iter
        base.update(k="for", v=v, uses=uses(it), t=_block(s.body, consts, locals_))
    elif isinstance(s, ast.While):
        base.update(k="while", uses=uses(s.test), t=_block(s.body, consts, locals_))
    elif isinstance(s, ast.Break):
        base.update(k="brk")
    elif isinstance(s, ast.FunctionDef):
        params = [a.arg for a in s.args.args]
        base.update(k="fndef", v=s.name, params=params, t=_block(s.body, consts, locals_ | set(params) | _assigned_anywhere(s.body)))
    return base


def _block(stmts, consts, locals_):
    return [_stmt(s, consts, locals_) for s in stmts]


def _assigned_anywhere(stmts) -> set[str]:
    out = set()
    for s in stmts:
        for n in ast.walk(s):
            if isinstance(n, (ast.Assign,)):
                out |= set(_targets(n.targets[0]))
            elif isinstance(n, ast.AnnAssign):
                out |= set(_targets(n.target))
            elif isinstance(n, ast.For) and isinstance(n.target, ast.Name):
                out.add(n.target.id)
            elif isinstance(n, ast.FunctionDef):
                out.add(n.name)
    return out


def abstract_ast(source: str, fn_name: str, constant_ifs: dict) -> list[dict]:
    tree = ast.parse(textwrap.dedent(source))
    fn = next(n for n in tree.body if isinstance(n, ast.FunctionDef))
    locals_ = {a.arg for a in fn.args.args} | _assigned_anywhere(fn.body)
    return _block(fn.body, constant_ifs or {}, locals_)


# ------------------------------------------------------------------------------------------------
# collecting traces
# ------------------------------------------------------------------------------------------------
_COLLECT = r"""
import os, sys, glob, importlib, runpy, json, traceback, warnings
warnings.filterwarnings("ignore")
sys.path.insert(0, os.environ["VERIF_REPO_DIR"])
os.chdir(os.environ["VERIF_REPO_DIR"])
from onnxscript._internal import _verif
assert _verif.ENABLED
out = {"imported": [], "failed": []}
for f in sorted(glob.glob("tests/models/*.py")):
    m = "tests.models." + os.path.basename(f)[:-3]
    if m.endswith("__init__"): continue
    try:
        importlib.import_module(m); out["imported"].append(m)
    except Exception as e:
        _verif.abort_all(); out["failed"].append([m, repr(e)[:200]])
for f in sorted(glob.glob("docs/tutorial/examples/*.py") + glob.glob("docs/examples/*.py") + glob.glob("examples/*.py")):
    try:
        src = open(f).read()
        if "torch" in src and "import torch" in src: continue
        runpy.run_path(f, run_name="__verif__"); out["imported"].append(f)
    except BaseException as e:
        _verif.abort_all(); out["failed"].append([f, repr(e)[:200]])
if os.environ.get("VERIF_TORCHLIB") == "1":
    try:
        import onnxscript.function_libs.torch_lib.ops  # noqa
        out["imported"].append("torch_lib.ops")
    except Exception as e:
        _verif.abort_all(); out["failed"].append(["torch_lib", repr(e)[:200]])
_verif.abort_all()
print("COLLECTED " + json.dumps(out))
"""


def _read_trace_files(prefix: str) -> list[dict]:
    traces = []
    for f in sorted(glob.glob(prefix + ".*")):
        with open(f) as fh:
            for line in fh:
                line = line.strip()
                if line:
                    traces.append(json.loads(line))
        os.remove(f)
    return [t for t in traces if t.get("kind") == "converter"]


def collect_corpus(torchlib: bool = True) -> tuple[list[dict], dict]:
    prefix = os.path.join(core.scratch(), "convtrace_corpus")
    env = dict(os.environ, ONNXSCRIPT_VERIF="1", ONNXSCRIPT_VERIF_TRACE=prefix, VERIF_REPO_DIR=core.REPO,
               VERIF_TORCHLIB="1" if torchlib else "0", PYTHONHASHSEED="0")
    p = subprocess.run([sys.executable, "-c", _COLLECT], env=env, capture_output=True, text=True, timeout=900)
    info = {}
    for line in p.stdout.splitlines():
        if line.startswith("COLLECTED "):
            info = json.loads(line[len("COLLECTED "):])
    if not info:
        raise core.MachineryError(f"corpus collection failed: {p.stderr[-1500:]}")
    return _read_trace_files(prefix), info


def collect_pytest(paths: list[str], timeout: int = 1500) -> tuple[list[dict], str]:
    """Run repository tests with the hooks on; every script() call they make is a trace."""
    prefix = os.path.join(core.scratch(), "convtrace_pytest")
    env = dict(os.environ, ONNXSCRIPT_VERIF="1", ONNXSCRIPT_VERIF_TRACE=prefix, PYTHONHASHSEED="0")
    cmd = [sys.executable, "-m", "pytest", "-q", "-p", "no:cacheprovider", "-x", "--timeout=600", "-n", str(min(8, core.NCPU))] + paths
    p = subprocess.run(cmd, cwd=core.REPO, env=env, capture_output=True, text=True, timeout=timeout)
    tail = (p.stdout.strip().splitlines() or [""])[-1]
    return _read_trace_files(prefix), tail


# ------------------------------------------------------------------------------------------------
# validation by TLC
# ------------------------------------------------------------------------------------------------
_EVENT_FIELDS = {
    "Param": ("name", "signature"), "Gen": ("cand", "result"), "Emit": ("op", "ins", "outs"), "Bind": ("var", "value"),
    "Enter": ("depth",), "Exit": ("depth", "params", "outputs"),
    "If": ("lineno", "live_defs", "outs", "then_outs", "else_outs"), "BodyEnd": ("state", "outputs"),
    "Loop": ("lineno", "loop", "loop_var", "state", "ins", "outs", "body_params", "body_outs"),
}


def to_tlc(trace: dict, tid: str) -> dict | None:
    meta = trace["meta"]
    try:
        tree = abstract_ast(meta["source"], meta["fn"], meta.get("constant_ifs") or {})
    except Exception as e:  # source we cannot parse: not a trace we can judge
        return None
    evs = []
    for e in trace["events"]:
        keep = {"ev": e["ev"]}
        for k in _EVENT_FIELDS.get(e["ev"], ()):
            keep[k] = e[k]
        if e["ev"] == "Enter":
            n = e["name"]
            keep["scope"] = "then" if n.startswith("thenGraph_") else "else" if n.startswith("elseGraph_") else "loop" if n == "loop_body" else "fn"
        evs.append(keep)
    return {"id": tid, "ast": tree, "events": evs, "finished": bool(trace.get("finished")),
            "endOutputs": list((trace.get("end") or {}).get("outputs", []))}


_RE_VERDICT = re.compile(r'<<\s*"VERDICT",\s*"([^"]*)",\s*(\d+),\s*"([^"]*)",\s*\d+,\s*\d+\s*>>')


def validate(ctx, traces: list[dict], label: str) -> dict:
    """traces: raw hook traces with an 'id'.  Returns {id: (event index, clause)}; (0, 'accepted'|'refused_prefix_consistent') = ok."""
    items = []
    skipped = 0
    for t in traces:
        it = to_tlc(t, t["id"])
        if it is None:
            skipped += 1
        else:
            items.append(it)
    verdicts: dict[str, tuple[int, str]] = {}
    B = 600
    for off in range(0, len(items), B):
        path = os.path.join(core.scratch(), f"convtraces_{label}_{off}.json")
        core.write_tlc_json(path, items[off:off + B])
        res = core.run_tlc("ConverterTrace", "ConverterTrace.cfg", workers=1, env={"TRACE_FILE": path}, timeout=1800, heap="6g")
        ctx.tlc(res, f"ConverterTrace:{label}")
        if not res.ok:
            raise core.MachineryError(f"ConverterTrace failed: {res.out[-2500:]}")
        for m in _RE_VERDICT.finditer(res.out):  # long tuples are pretty-printed over several lines
            verdicts[m.group(1)] = (int(m.group(2)), m.group(3))
        os.remove(path)
    missing = [it["id"] for it in items if it["id"] not in verdicts]
    if missing:
        raise core.MachineryError(f"ConverterTrace gave no verdict for {missing[:3]} ({len(missing)} traces)")
    ctx.add("converter_traces_unparsable_source", skipped)
    return verdicts


def sorted_selection_violations(trace: dict) -> list[str]:
    """C14 side condition checked on the raw events: selections are emitted in sorted order."""
    bad = []
    for e in trace["events"]:
        if e["ev"] == "If" and list(e["live_defs"]) != sorted(e["live_defs"]):
            bad.append(f"If at line {e['lineno']}: outputs {e['live_defs']} not in sorted order")
        if e["ev"] == "Loop" and list(e["state"]) != sorted(e["state"]):
            bad.append(f"Loop at line {e['lineno']}: state {e['state']} not in sorted order")
    return bad


# ------------------------------------------------------------------------------------------------
# traces of generated programs (workers of the calling check; hooks are on when ./check sets ONNXSCRIPT_VERIF=1)
# ------------------------------------------------------------------------------------------------
def _gen_worker(arg):
    idx, src = arg
    from onnxscript._internal import _verif

    from . import scriptgen

    if not _verif.ENABLED:
        return {"idx": idx, "error": "hooks are off (ONNXSCRIPT_VERIF != 1 when onnxscript was imported)"}
    del _verif.traces[:]
    try:
        scriptgen.load_source(src, "ctr")
    except Exception as e:  # refused program: the trace is left open
        _verif.abort_all()
    ts = [t for t in _verif.traces if t["kind"] == "converter" and t["meta"]["fn"] == "f"]
    del _verif.traces[:]
    return {"idx": idx, "trace": ts[-1] if ts else None}


def collect_generated(sources: list[str]) -> list[dict]:
    res = core.pmap_safe(_gen_worker, list(enumerate(sources)), timeout=60)
    out = []
    for r, src in zip(res, sources):
        if isinstance(r, dict) and r.get("error"):
            raise core.MachineryError(r["error"])
        if isinstance(r, dict) and r.get("trace"):
            t = r["trace"]
            t["id"] = f"generated/{r['idx']}"
            out.append(t)
    return out


PYTEST_QUICK = ["onnxscript/_internal/converter_test.py", "tests/loop_test.py", "tests/if_test.py", "onnxscript/_internal/analysis_test.py"]
PYTEST_THOROUGH = PYTEST_QUICK + ["tests/eager_mode_test.py", "tests/operator_test.py", "tests/external_tensor_test.py", "tests/onnx_types_test.py",
                                  "onnxscript/_internal/main_test.py", "onnxscript/_internal/evaluator_test.py", "onnxscript/_internal/values_test.py",
                                  "onnxscript/tensor_test.py", "docs/test"]


def _selftest_traces(traces: list[dict]) -> list[dict]:
    """Corrupted copies of accepted traces: each MUST be rejected (the binding is not vacuous)."""
    out = []
    import copy

    with_if = next((t for t in traces if t.get("finished") and any(e["ev"] == "If" for e in t["events"])), None)
    if with_if is not None:
        c = copy.deepcopy(with_if)
        e = next(e for e in c["events"] if e["ev"] == "If")
        e["live_defs"] = list(e["live_defs"]) + ["zz_not_assigned"]
        e["outs"] = list(e["outs"]) + [e["outs"][0]]
        c["id"] = "selftest/if_exports_extra_variable"
        c["expect_clause"] = "if_outputs_are_assigned_and_live"
        out.append(c)
    with_gen = next((t for t in traces if t.get("finished") and any(e["ev"] == "Gen" for e in t["events"])), None)
    if with_gen is not None:
        c = copy.deepcopy(with_gen)
        k = next(i for i, e in enumerate(c["events"]) if e["ev"] == "Gen")
        del c["events"][k]
        c["id"] = "selftest/dropped_gen_event"
        c["expect_clause"] = "emit_outputs_generated"
        out.append(c)
    with_loop = next((t for t in traces if t.get("finished") and any(e["ev"] == "Loop" and len(e["state"]) >= 2 for e in t["events"])), None)
    if with_loop is not None:
        c = copy.deepcopy(with_loop)
        e = next(e for e in c["events"] if e["ev"] == "Loop" and len(e["state"]) >= 2)
        e["ins"][2], e["ins"][3] = e["ins"][3], e["ins"][2]
        c["id"] = "selftest/loop_inputs_permuted"
        c["expect_clause"] = "loop_input_is_current_value"
        out.append(c)
    return out


def stage(ctx, sources: list[str], owner: str, extra_traces=()):
    """Validate recorded converter traces; report rejections whose clause belongs to property `owner`."""
    corpus, info = collect_corpus(torchlib=True)
    for i, t in enumerate(corpus):
        t["id"] = f"corpus/{i}/{t['meta']['fn']}"
    tests, tail = collect_pytest(PYTEST_QUICK if ctx.quick else PYTEST_THOROUGH)
    for i, t in enumerate(tests):
        t["id"] = f"pytest/{i}/{t['meta']['fn']}"
    gen = collect_generated(sources)
    if len(corpus) < 100 or len(tests) < 50:
        raise core.MachineryError(f"too few recorded traces (corpus {len(corpus)}, tests {len(tests)}: {tail}); are the hooks in converter.py present?")
    allt = corpus + tests + gen + list(extra_traces)
    self_t = _selftest_traces(allt)
    verdicts = validate(ctx, allt + self_t, owner)
    for t in self_t:
        idx, clause = verdicts[t["id"]]
        if idx == 0:
            raise core.MachineryError(f"binding self-test: corrupted trace {t['id']} was accepted")
    if len(self_t) < 2:
        raise core.MachineryError("binding self-test: no trace with an If / Gen event to corrupt")
    n_sel = sum(1 for t in allt for e in t["events"] if e["ev"] in ("If", "Loop"))
    if n_sel == 0:
        raise core.MachineryError("no If/Loop selection in any recorded trace (vacuous)")
    other = 0
    for t in allt:
        idx, clause = verdicts[t["id"]]
        if idx == 0:
            continue
        if not owns(owner, clause):
            other += 1
            continue
        ev = t["events"][idx - 1] if 0 < idx <= len(t["events"]) else {"ev": "End", "outputs": (t.get("end") or {}).get("outputs")}
        ctx.report({"trace": t["id"], "event_index": idx, "event": ev, "clause": clause, "source": t["meta"]["source"]},
                   f"recorded converter trace {t['id']} rejected by Converter.tla at event {idx} ({ev.get('ev')}): clause {clause} does not hold\n"
                   f"event: {json.dumps(ev)[:400]}\n{t['meta']['source'][:1500]}")
    ctx.add("traces_validated_against_impl", len(allt))
    ctx.set("converter_traces", {"corpus": len(corpus), "repository_tests": len(tests), "repository_tests_result": re.sub(r"\x1b\[[0-9;]*m", "", tail),
                                 "generated_programs": len(gen), "hand_written_programs": len(extra_traces), "events": sum(len(t["events"]) for t in allt),
                                 "if_loop_selections_judged": n_sel,
                                 "refused_prefixes": sum(1 for t in allt if verdicts[t["id"]][1] == "refused_prefix_consistent"),
                                 "rejected_with_clause_of_other_property": other,
                                 "selftest_corruptions_rejected": {t["id"]: verdicts[t["id"]][1] for t in self_t},
                                 "corpus_modules_failed_to_import": info.get("failed", [])})


# ------------------------------------------------------------------------------------------------
# hand-written programs outside Script.tla's grammar (harness/extra_programs.py)
# ------------------------------------------------------------------------------------------------
def _call_model(fn, feeds, attrs, eager_outs):
    """A model whose graph is one call of fn's FunctionProto (attribute values as node attributes)."""
    import numpy as np
    import onnx
    from onnx import helper

    fp = fn.to_function_proto()
    mp_funcs = []
    try:
        mp_funcs = list(fn.to_model_proto().functions)
    except Exception:
        pass
    kw = {k: (int(v) if isinstance(v, (bool, np.bool_)) else v) for k, v in attrs.items()}
    node = helper.make_node(fp.name, list(fp.input), [f"o{i}" for i in range(len(fp.output))], domain=fp.domain, **kw)
    g = helper.make_graph(
        [node], "caller",
        [helper.make_tensor_value_info(i, helper.np_dtype_to_tensor_dtype(feeds[i].dtype), list(feeds[i].shape)) for i in fp.input],
        [helper.make_tensor_value_info(f"o{i}", helper.np_dtype_to_tensor_dtype(eager_outs[i].dtype), [None] * eager_outs[i].ndim) for i in range(len(fp.output))],
    )
    ops = {(o.domain, o.version) for o in fp.opset_import} | {(fp.domain, 1)}
    funcs = [fp] + [f for f in mp_funcs if not (f.name == fp.name and f.domain == fp.domain)]
    for f in funcs:
        ops |= {(o.domain, o.version) for o in f.opset_import} | {(f.domain, 1)}
    m = helper.make_model(g, opset_imports=[helper.make_opsetid(d, v) for d, v in sorted(ops)], functions=funcs)
    m.ir_version = 10
    return m


def _extra_worker(arg):
    name, src = arg
    import numpy as np
    from onnxscript._internal import _verif

    from . import scriptgen

    out = {"name": name, "accepted": False, "err": None, "runs": [], "trace": None}
    del _verif.traces[:]
    try:
        mod = scriptgen.load_source(src, "xp")
    except Exception as e:
        _verif.abort_all()
        out["err"] = f"{type(e).__name__}: {str(e)[:400]}"
    ts = [t for t in _verif.traces if t["kind"] == "converter" and t["meta"]["fn"] == "f"]
    del _verif.traces[:]
    out["trace"] = ts[-1] if ts else None
    if out["err"]:
        return out
    out["accepted"] = True
    f = mod.f
    attr_names = {a.name for a in f.function_ir.attrs}
    sess = None
    if not attr_names:
        try:
            sess = core.ort_session(f.to_model_proto())
        except Exception as e:
            out["err"] = f"model: {type(e).__name__}: {str(e)[:400]}"
            return out
    for inp in mod.INPUTS:
        rec = {"input": {k: np.asarray(v).tolist() for k, v in inp.items()}}
        eager = None
        try:
            e = f(**inp)
            e = list(e) if isinstance(e, (tuple, list)) else [e]
            eager = [np.asarray(getattr(x, "value", x)) for x in e]
            rec["eager"] = [x.tolist() for x in eager]
        except Exception as ex:
            rec["eager_err"] = f"{type(ex).__name__}: {str(ex)[:300]}"
        feeds = {k: np.asarray(v) for k, v in inp.items() if k not in attr_names}
        attrs = {k: v for k, v in inp.items() if k in attr_names}
        graphs = {}
        if sess is not None:   # to_model_proto() of a function with attribute parameters is documented as unsupported
            try:
                graphs["model"] = [np.asarray(x) for x in sess.run(None, feeds)]
            except Exception as ex:
                graphs["model"] = f"{type(ex).__name__}: {str(ex)[:300]}"
        if eager is not None:
            try:
                cm = _call_model(f, feeds, attrs, eager)
                try:
                    import onnx

                    onnx.checker.check_model(cm)
                except Exception as ex:
                    raise RuntimeError(f"CHECKER: {type(ex).__name__}: {str(ex)[:250]}") from ex
                graphs["call"] = [np.asarray(x) for x in core.ort_session(cm).run(None, feeds)]
            except Exception as ex:
                graphs["call"] = f"{type(ex).__name__}: {str(ex)[:300]}"
        rec["agree"] = {}
        for mode, g in graphs.items():
            if isinstance(g, str):
                rec[mode + "_err"] = g
                continue
            rec[mode] = [x.tolist() for x in g]
            if eager is not None:
                rec["agree"][mode] = len(eager) == len(g) and all(
                    a.dtype == b.dtype and a.shape == b.shape and core.same_array(a, b, exact=a.dtype.kind in "iub") for a, b in zip(eager, g))
        out["runs"].append(rec)
    return out


def run_extra(ctx, owner: str = "C01"):
    """Returns (results, traces).  Reports the violations itself: C01 owns eager != graph, C02 owns 'accepted but the model / the
    function call cannot be built or loaded' (the emitted proto is not valid)."""
    from . import extra_programs

    srcs = extra_programs.sources()
    res = core.pmap_safe(_extra_worker, sorted(srcs.items()), timeout=120)
    traces = []
    for (name, src), r in zip(sorted(srcs.items()), res):
        ctx.add("extra_programs")
        if not isinstance(r, dict):
            ctx.report({"program": name, "src": src}, f"extra program {name}: worker did not finish: {r}")
            continue
        if r.get("trace"):
            r["trace"]["id"] = f"extra/{name}"
            traces.append(r["trace"])
        if not r["accepted"]:
            # every program here is inside the documented subset: a refusal is not a wrong graph, but it is unexpected
            print(f"SPEC-MISMATCH C01 extra program {name} refused: {r['err']}")
            ctx.add("extra_programs_refused")
            continue
        if r["err"]:
            ctx.report({"program": name, "src": src, "err": r["err"]}, f"extra program {name}: accepted but the model cannot be built/loaded: {r['err']}\n{src}")
            continue
        for rec in r["runs"]:
            ctx.add("evaluations")
            if owner == "C02":
                # validity only: the model was loaded by onnxruntime above; the function-call form must pass the checker
                if "CHECKER:" in rec.get("call_err", ""):
                    ctx.report({"program": name, "src": src, "run": rec}, f"extra program {name}: the FunctionProto called from a model is rejected: {rec['call_err']}\n{src}")
                continue
            if "eager_err" in rec:
                # eager mode itself refuses (e.g. returns a Python int): nothing to compare with
                ctx.add("extra_eager_errors")
                print(f"NOTE C01 extra program {name}: eager call raised {rec['eager_err']} on {rec['input']}")
                continue
            for mode in ("model", "call"):
                if mode + "_err" in rec:
                    if mode == "call" and "CHECKER:" not in rec["call_err"]:
                        ctx.add("extra_call_mode_not_runnable")   # onnxruntime cannot always type-check function bodies with subgraphs
                        continue
                    ctx.report({"program": name, "src": src, "run": rec}, f"extra program {name}: eager returns {rec['eager']} but the {mode} fails on onnxruntime: {rec[mode + '_err']} on {rec['input']}\n{src}")
                elif mode in rec["agree"] and not rec["agree"][mode]:
                    ctx.report({"program": name, "src": src, "run": rec, "mode": mode},
                               f"extra program {name}: eager {rec['eager']} != {mode} on onnxruntime {rec[mode]} on {rec['input']}\n{src}")
    return res, traces
