"""C04 - optimize() is total on valid models; the result is valid with the same interface.

Shares spec/Optimizer.tla with C03 (harness/optgen.py): the design level of the spec keeps, after EVERY optimizer step,
NeverRaises, SigKept (graph inputs/outputs and overridable defaults unchanged), WellFormed (Graph.tla SSA / Scoped on the abstract
graph) and the outputs under an OVERRIDE of every overridable initializer-input (probe 4); the implementation model predicts
where the code departs (named deviations).

Direction A: every emitted model -> real ModelProto -> optimize / optimize_ir / fold_constants (also with a should_fold callback
returning True) / remove_unused_nodes / rewrite under option tuples.  Judged on real observables: no exception, termination,
onnx.checker on the result, Graph.tla WF evaluated by TLC on the result (SSA, scoping/topological order, opset imports), signature
before vs after, and for models with overridable initializer-inputs: run with the default omitted AND with an override value,
original vs optimized on onnxruntime.  Breadth: the lifted ONNX backend test models (inputs as overridable defaults, If / function
wrapping).
"""
from __future__ import annotations

import json

from . import core, foldtrace, optgen, rwtrace

LEVEL = "model_checking"


def _blob(case, v, extra):
    d = {"kind": "tlc", "model": case["model"], "feeds": case["feeds"], "expect": case["expect"], "variant": v["name"] if v else None,
         "spec_used": case["used"], "spec_log": case["log"], "world": case["world"]}
    d.update(extra)
    return d


def _orig_text(case):
    return optgen.describe(optgen.build_model(case["model"], optgen.outmeta(case)), 1200)


def judge_tlc(ctx, case, res, mism, wf):
    if res is core.HANG:
        ctx.report(_blob(case, None, {"symptom": "hang"}), f"an optimizer entry point did not terminate within 120 s\n{_orig_text(case)}")
        return False
    if isinstance(res, core.MachineryErrorResult):
        raise core.MachineryError(res.msg)
    if res["invalid"] and res["invalid"].startswith("onnxruntime cannot run"):
        # DESIGN 2.3: a case the reference runtime refuses on the ORIGINAL model is discarded and counted (run() bounds the count)
        ctx.add("original_not_runnable_on_onnxruntime")
        return False
    if res["invalid"]:
        raise core.MachineryError(f"a model derived by Optimizer.tla is not a valid/executable ONNX model: {res['invalid']}\n{json.dumps(case['model'])[:800]}")
    if res["spec_eval"]:
        raise core.MachineryError(f"spec/impl mismatch on the ORIGINAL model (Optimizer.tla Eval is wrong): {res['spec_eval']}\n{json.dumps(case['model'])[:800]}")
    has_ovr = any(i["kind"] == "ovr" for i in case["model"]["ins"])
    for v in res["variants"]:
        ctx.add("evaluations")
        default = v["name"] == "optimize"
        if v["exc"]:
            fid = optgen.attribute(case, v, "raise", v["exc"])
            ctx.report(_blob(case, v, {"symptom": "raise", "detail": v["exc"], "site": v["site"]}),
                       f"{v['name']} raised on a valid model: {v['exc']} (at {v['site']})\n{_orig_text(case)}", finding=fid)
            if default and not case["raised"]:
                mism.append(f"model predicts no exception, real optimize() raised {v['exc'][:200]}")
            continue
        if default and case["raised"]:
            mism.append(f"model predicts an exception in {case['raised']}, real optimize() returned")
        if v["check"]:
            ctx.report(_blob(case, v, {"symptom": "check", "detail": v["check"]}),
                       f"{v['name']}: onnx.checker rejects the result: {v['check']}\n{_orig_text(case)}", finding=optgen.attribute(case, v, "check", v["check"]))
        for d in v["sig"]:
            ctx.report(_blob(case, v, {"symptom": "sig", "detail": d}),
                       f"{v['name']}: interface changed: {d}\n{_orig_text(case)}", finding=optgen.attribute(case, v, "sig", d))
        if default and not case["raised"] and bool(v["sig"]) == bool(case["sig"]):
            mism.append(f"signature: model predicts {'kept' if case['sig'] else 'changed'}, real differences {v['sig']}")
        w = wf.get(f"{res['idx']}/{v['name']}/graph")
        if w is not None:
            # Graph.tla SSA is global; ONNX lets sibling branches reuse a name: SSA counts only if the scoped rule fails too
            w = (w[0] or v.get("ssa_scoped", False), w[1], w[2], w[3])
        if w is not None and not (w[0] and w[1] and w[3]):
            what = ", ".join(n for n, ok in zip(("names not unique (SSA)", "a value is used before / outside its definition (scope, topological order)", "", "an operator domain has no opset import"), w) if not ok and n)
            ctx.report(_blob(case, v, {"symptom": "wf", "detail": what}), f"{v['name']}: Graph.tla WF fails on the result: {what}\n{_orig_text(case)}",
                       finding=optgen.attribute(case, v, "wf", what))
        if default and not case["raised"] and w is not None and bool(w[0] and w[1]) != bool(case["wf"]):
            mism.append(f"well-formedness: model predicts {case['wf']}, Graph.tla on the real result gives {w}")
        for k, symptom, detail in v["fail"]:
            # C04 judges: a result the runtime cannot load; for models with overridable defaults: default omitted / overridden
            if not (symptom == "load" or has_ovr):
                continue
            v["probe"] = k
            fid = optgen.attribute(case, v, symptom, detail)
            which = "with the overrides supplied" if k == optgen.NPROBE else "with the defaults omitted" if k >= 0 else "at load time"
            ctx.report(_blob(case, v, {"probe": k, "symptom": symptom, "detail": detail}),
                       f"{v['name']}: {which}: {symptom}: {detail}\n--- original\n{_orig_text(case)}\n--- optimized\n{v.get('text', '')}", finding=fid)
            break
    return has_ovr or bool(case["log"])


def judge_lib(ctx, plan, res, wf):
    rel, modes, vnames = plan
    if res is core.HANG:
        ctx.report({"kind": "library", "rel": rel, "modes": modes, "variants": vnames, "symptom": "hang"}, f"{rel}: an optimizer entry point did not terminate within 300 s")
        return 0
    if isinstance(res, core.MachineryErrorResult):
        raise core.MachineryError(f"{rel}: {res.msg}")
    if res["skip"]:
        ctx.add("library_models_skipped")
        return 0
    n = 0
    for r in res["runs"]:
        if r["skip"]:
            ctx.add("library_lifts_not_runnable")
            continue
        for v in r["variants"]:
            ctx.add("evaluations")
            n += 1
            base = {"kind": "library", "rel": rel, "mode": r["mode"], "variant": v["name"]}
            if v["exc"]:
                ctx.report(dict(base, symptom="raise", detail=v["exc"], site=v["site"]),
                           f"{rel} lifted as {r['mode']}: {v['name']} raised on a valid model: {v['exc']} (at {v['site']})",
                           finding=optgen.lib_attribute(rel, r["mode"], v, "raise", v["exc"], r.get("feats")))
                continue
            if v["check"]:
                ctx.report(dict(base, symptom="check", detail=v["check"]), f"{rel} lifted as {r['mode']}: {v['name']}: onnx.checker rejects the result: {v['check']}",
                           finding=optgen.lib_attribute(rel, r["mode"], v, "check", v["check"], r.get("feats")))
            for d in v["sig"]:
                ctx.report(dict(base, symptom="sig", detail=d), f"{rel} lifted as {r['mode']}: {v['name']}: interface changed: {d}",
                           finding=optgen.lib_attribute(rel, r["mode"], v, "sig", d, r.get("feats")))
            w = wf.get(f"{rel}/{r['mode']}/{v['name']}/graph")
            w0 = wf.get(f"{rel}/{r['mode']}/orig/graph")
            if w is not None and w0 is not None:
                w = (w[0] or v.get("ssa_scoped", False), w[1], w[2], w[3])
                bad = [n2 for n2, ok, ok0 in zip(("SSA", "scope/topological order", "", "opset imports"), w, w0) if n2 and ok0 and not ok]
                if bad:
                    ctx.report(dict(base, symptom="wf", detail=bad), f"{rel} lifted as {r['mode']}: {v['name']}: Graph.tla WF fails on the result: {bad}",
                               finding=optgen.lib_attribute(rel, r["mode"], v, "wf", str(bad), r.get("feats")))
            for k, symptom, detail in v["fail"]:
                if not (symptom == "load" or r["mode"] == "ovr"):
                    continue
                ctx.report(dict(base, probe=k, symptom=symptom, detail=detail), f"{rel} lifted as {r['mode']}: {v['name']}: feed {k}: {symptom}: {detail}",
                           finding=optgen.lib_attribute(rel, r["mode"], v, symptom, detail, r.get("feats")))
                break
    return n


def run(ctx: core.Ctx):
    pairs = optgen.direction_a(ctx, want_abs=True)
    items = []
    for case, res in pairs:
        if isinstance(res, dict):
            for v in res["variants"]:
                if v.get("abs"):
                    items += [it for it in v["abs"] if it["id"].endswith("/graph")]
    lib = optgen.direction_lib(ctx, want_abs=True)
    for plan, res in lib:
        if isinstance(res, dict):
            for r in res["runs"]:
                for v in r["variants"]:
                    if v.get("abs"):
                        items += [it for it in v["abs"] if it["id"].endswith("/graph")]
                if r.get("abs0"):
                    items += [it for it in r["abs0"] if it["id"].endswith("/graph")]
    fams = optgen.direction_family(ctx, want_abs=True)
    # direction B: rewriter traces recorded while the family models went through optimize()/rewrite() (default rules on
    # nested graphs) and while the repository's own rewriter / optimizer tests ran, executed by TLC on RewriteApply.tla
    fam_traces = []
    for fam, res in fams:
        if isinstance(res, dict):
            for v in res["variants"]:
                for t in v.pop("rwtraces", None) or []:
                    t["id"] = f"family/{fam[0]}/{v['name']}/{len(fam_traces)}"
                    fam_traces.append(t)
    rwtrace.stage(ctx, fam_traces, "C04", known_clause_findings={
        "apply_overwritten_initializer_unused": "init_clash_overwrite",
        "end_every_graph_topologically_ordered": "multi_output_insertion_point",
        "apply_replacement_reads_visible_values": "multi_output_insertion_point",
    })
    # ... and the recorded executions of the constant folder (hooks in _constant_folding.py), executed by TLC on FoldApply.tla
    case_traces = optgen.fold_traces_of(pairs, "derived") + optgen.fold_traces_of(lib, "library") + optgen.fold_traces_of(fams, "family")
    foldtrace.stage(ctx, foldtrace.dedup(case_traces, 2500 if ctx.quick else 30000, ctx.seed), "C04")
    for fam, res in fams:
        if isinstance(res, dict):
            for v in res["variants"]:
                if v.get("abs"):
                    items += [it for it in v["abs"] if it["id"].endswith("/graph")]
            if res.get("abs0"):
                items += [it for it in res["abs0"] if it["id"].endswith("/graph")]
    # identical abstract graphs are judged once; TLC wraps long printed tuples, so the batch uses short ids
    uniq = {}
    key_of = {}
    for it in items:
        k = json.dumps([it["graph"], it["imports"]], sort_keys=True)
        key_of[it["id"]] = k
        uniq.setdefault(k, it)
    keys = sorted(uniq)
    cap = 6000 if ctx.quick else 40000
    if len(keys) > cap:
        import random

        random.Random(ctx.seed).shuffle(keys)
        ctx.set("graphs_not_checked_by_Graph_tla_over_cap", len(keys) - cap)
        keys = keys[:cap]
    short = {k: f"g{n}" for n, k in enumerate(keys)}
    wf_short = core.graphcheck(ctx, [dict(uniq[k], id=short[k]) for k in keys], "GraphCheck (WF of optimized models)")
    wf = {i: wf_short[short[k]] for i, k in key_of.items() if k in short}
    ctx.set("distinct_graphs_checked_by_Graph_tla", len(keys))
    ctx.set("graphs_checked_by_Graph_tla", len(items))
    mism = []
    nontriv = 0
    for case, res in pairs:
        m1 = []
        if judge_tlc(ctx, case, res, m1, wf):
            nontriv += 1
        ctx.add("traces_validated_against_impl")
        mism += [(case, t) for t in m1]
        if isinstance(res, dict) and len(ctx.coverage["samples"]) < 4 and any(i["kind"] == "ovr" for i in case["model"]["ins"]):
            ctx.sample({"model": _orig_text(case)[:600], "spec_steps": case["log"], "spec_deviations": case["used"], "variants": [v["name"] for v in res["variants"]]})
    if ctx.coverage.get("original_not_runnable_on_onnxruntime", 0) > max(3, len(pairs) // 100):
        raise core.MachineryError(f"onnxruntime refuses {ctx.coverage['original_not_runnable_on_onnxruntime']} of {len(pairs)} derived models: the model derivation is off")
    for case, t in mism[:8]:
        print(f"SPEC-MISMATCH C04: {t}\n{_orig_text(case)[:900]}", flush=True)
    ctx.set("model_impl_mismatches", len(mism))
    nlib = 0
    for plan, res in lib:
        nlib += judge_lib(ctx, plan, res, wf)
    for fam, res in fams:
        name = fam[0]
        if res is core.HANG:
            ctx.report({"kind": "family", "name": name, "symptom": "hang"}, f"family {name}: an entry point did not terminate within 200 s")
            continue
        if isinstance(res, core.MachineryErrorResult):
            raise core.MachineryError(f"family {name}: {res}")
        if res["skip"]:
            raise core.MachineryError(f"family model {name} is not a valid/executable model: {res['skip']}")
        w0 = wf.get(f"{name}/orig/graph")
        for v in res["variants"]:
            ctx.add("evaluations")
            ctx.add("family_runs")
            if v["changed"]:
                ctx.add("family_runs_where_a_rule_fired")
            base = {"kind": "family", "name": name, "variant": v["name"]}
            if v["exc"]:
                ctx.report(dict(base, symptom="raise", detail=v["exc"], site=v["site"]), f"family {name}: {v['name']} raised on a valid model: {v['exc']} (at {v['site']})")
                continue
            if v["check"]:
                ctx.report(dict(base, symptom="check", detail=v["check"]), f"family {name}: {v['name']}: onnx.checker rejects the result: {v['check']}")
            for d in v["sig"]:
                ctx.report(dict(base, symptom="sig", detail=d), f"family {name}: {v['name']}: interface changed: {d}")
            w = wf.get(f"{name}/{v['name']}/graph")
            if w is not None and w0 is not None:
                w = (w[0] or v.get("ssa_scoped", False), w[1], w[2], w[3])
                bad = [n2 for n2, ok, ok0 in zip(("SSA", "scope/topological order", "", "opset imports"), w, w0) if n2 and ok0 and not ok]
                if bad:
                    ctx.report(dict(base, symptom="wf", detail=bad), f"family {name}: {v['name']}: Graph.tla WF fails on the result: {bad}")
            for k, symptom, detail in v["fail"]:
                if symptom == "load":
                    ctx.report(dict(base, probe=k, symptom=symptom, detail=detail), f"family {name}: {v['name']}: the runtime cannot load the result: {detail}")
                    break
    if not ctx.coverage.get("family_runs_where_a_rule_fired"):
        raise core.MachineryError("vacuity: no rule fired on any family model")
    ctx.set("library_models", len(lib))
    ctx.set("library_runs", nlib)
    ctx.set("distinct_nontrivial", nontriv)
    ctx.set("exhaustive", False)
    ctx.set("rule", "models = distinct 'done' states of Optimizer.tla (as C03); non-trivial = replayed models with an overridable initializer-input or on which "
                    "the spec's optimizer run takes at least one step; each replayed through the default optimize() plus further entry points / option "
                    "tuples: exception, termination (120 s watchdog), onnx.checker, Graph.tla WF by TLC, signature, default-omitted and override runs")
    ctx.assumptions += [
        "a refined output shape (unknown dim -> static dim) is not counted as a changed declared type; a changed element type, rank, static dim, name or order is",
        "Graph.tla clause 'outputs produced by own nodes' is not required (ONNX and onnxruntime accept an initializer / input as a graph output)",
        "override values keep the declared ranks of the model outputs true (scalars +1, bools flipped, shape vectors reversed)",
        "quick tier replays a seeded stratified sample of the TLC models and of the library models; thorough replays all",
    ]


def replay(ctx, path):
    with open(path) as f:
        blob = json.load(f)
    c = blob["case"]
    print(blob["what"][:3000])
    if c.get("kind") == "tlc" and c.get("variant"):
        case = {"model": c["model"], "feeds": c["feeds"], "expect": c["expect"], "used": c.get("spec_used", []), "log": c.get("spec_log", []),
                "raised": "", "outs": c["expect"], "ops": [], "world": c.get("world")}
        r = optgen.replay_case((0, case, [c["variant"]], False))
        print(json.dumps(r, indent=1, default=str)[:4000])
    elif c.get("kind") == "family":
        fam = [f for f in optgen.family_models(ctx) if f[0] == c["name"]]
        print(json.dumps(optgen.replay_family(fam[0][:3] + ([c["variant"]], fam[0][4], False)), indent=1, default=str)[:4000] if fam and c.get("variant") else "family model not found for this seed")
    elif c.get("kind") == "library":
        r = optgen.replay_library((c["rel"], [c["mode"]] if "mode" in c else c["modes"], [c["variant"]] if "variant" in c else c["variants"], False))
        print(json.dumps(r, indent=1, default=str)[:4000])
    return 0
