"""Direction B for the constant folder: traces recorded by the hooks in onnxscript/optimizer/_constant_folding.py
(ONNXSCRIPT_VERIF=1) - a model snapshot at the start of FoldConstantsPass.call, one event per state change (SubstInput, Fold,
InlineIf, Replace, Cleared, ReplaceOutput), a snapshot at the end - are validated by TLC against spec/FoldApply.tla
(FoldTrace.tla): the specification executes every event on its abstract model under the clauses the properties need and the
final snapshot must equal what it computed.

Sources: the repository's own optimizer / rewriter tests run under pytest with the hooks on, and the models the calling check
sends through optimize()/fold_constants() (its workers return the traces).
"""
from __future__ import annotations

import copy
import json
import os
import re

from . import core, rwtrace

# clause -> property that owns it (a rejection is reported by the check of the owning property only)
C03_CLAUSES = {"fold_not_control_flow", "fold_not_non_deterministic", "fold_every_input_is_a_constant", "fold_not_a_constant_node",
               "inline_condition_is_a_constant", "inline_node_is_an_if", "inline_condition_is_the_first_input",
               "inline_branch_is_a_subgraph_of_the_node", "inline_moves_every_branch_node_in_order", "inline_outputs_are_the_branch_outputs",
               "inline_moves_every_branch_initializer", "replace_after_fold_inserts_only_a_constant", "replace_after_inline_inserts_the_branch",
               "subst_old_is_the_current_input", "output_old_is_the_current_output", "end_modified_flag_is_truthful",
               "end_node_lists_are_what_the_steps_produce", "end_nodes_wired_as_the_steps_produce",
               "end_graph_interfaces_are_what_the_steps_produce", "end_initializers_are_what_the_steps_produce"}
# clauses a listed known finding explains
KNOWN = {"inline_condition_is_not_an_overridable_input": "overridable_read_as_const",
         "cleared_initializer_is_not_an_overridable_input": "overridable_default_dropped",
         "end_overridable_defaults_kept": "overridable_default_dropped"}
KNOWN_OWNER = {"inline_condition_is_not_an_overridable_input": "C04", "cleared_initializer_is_not_an_overridable_input": "C04",
               "end_overridable_defaults_kept": "C04"}


def owns(prop: str, clause: str) -> bool:
    if prop == "C03":
        return clause in C03_CLAUSES
    return clause not in C03_CLAUSES        # C04 owns the validity / interface / visibility clauses


def to_tlc(t: dict) -> dict:
    evs = []
    for e in t["events"]:
        evs.append({k: v for k, v in e.items()})
    end = t.get("end") or {}
    return {"id": t["id"], "model": t["meta"]["model"], "events": evs, "finished": bool(t.get("finished")),
            "endModified": bool(end.get("modified", False)), "endModel": end.get("model", t["meta"]["model"])}


_RE_VERDICT = re.compile(r'<<\s*"VERDICT",\s*"([^"]*)",\s*(\d+),\s*"([^"]*)",\s*(\d+),\s*(\d+)\s*>>')
_RE_NOTE = re.compile(r'<<\s*"NOTE",\s*"([^"]*)",\s*(\d+),\s*"([^"]*)"\s*>>')


def _size(t: dict) -> int:
    return sum(len(g["nodes"]) for g in t["meta"]["model"]["graphs"])


def validate(ctx, traces: list[dict], label: str):
    verdicts: dict[str, tuple[int, str, int, int]] = {}
    notes: dict[str, list[tuple[int, str]]] = {}
    items = [to_tlc(t) for t in traces]
    batches, cur, size = [], [], 0
    for it, t in zip(items, traces):
        s = _size(t) * (3 + len(it["events"]) // 2) + 10
        if cur and size + s > 30000:
            batches.append(cur)
            cur, size = [], 0
        cur.append(it)
        size += s
    if cur:
        batches.append(cur)
    for k, b in enumerate(batches):
        path = os.path.join(core.scratch(), f"foldtraces_{label}_{k}.json")
        core.write_tlc_json(path, b)
        res = core.run_tlc("FoldTrace", "FoldTrace.cfg", workers=1, env={"TRACE_FILE": path}, timeout=2400, heap="6g")
        ctx.tlc(res, f"FoldTrace:{label}")
        if not res.ok:
            raise core.MachineryError(f"FoldTrace failed: {res.out[-2500:]}")
        for m in _RE_VERDICT.finditer(res.out):
            verdicts[m.group(1)] = (int(m.group(2)), m.group(3), int(m.group(4)), int(m.group(5)))
        for m in _RE_NOTE.finditer(res.out):
            notes.setdefault(m.group(1), [])
            if (int(m.group(2)), m.group(3)) not in notes[m.group(1)]:
                notes[m.group(1)].append((int(m.group(2)), m.group(3)))
        os.remove(path)
    missing = [it["id"] for it in items if it["id"] not in verdicts]
    if missing:
        raise core.MachineryError(f"FoldTrace gave no verdict for {missing[:3]} ({len(missing)} traces)")
    return verdicts, notes


def dedup(traces: list[dict], cap: int, seed: int) -> list[dict]:
    """Traces that are equal up to the naming of tokens are validated once; at most `cap` (seeded sample, every shape of event list kept first)."""
    import random

    def canon(t):
        ren: dict[str, str] = {}

        def r(x):
            if isinstance(x, str) and re.fullmatch(r"[gnv]\d+", x):
                return ren.setdefault(x, f"{x[0]}{len(ren)}")
            if isinstance(x, list):
                return [r(y) for y in x]
            if isinstance(x, dict):
                return {k: r(v) for k, v in x.items()}
            return x
        return json.dumps(r([t["meta"]["model"], t["events"], t.get("finished"), (t.get("end") or {}).get("modified")]), sort_keys=True)

    seen, out = set(), []
    for t in traces:
        k = canon(t)
        if k not in seen:
            seen.add(k)
            out.append(t)
    if len(out) > cap:
        byshape: dict[str, list[dict]] = {}
        for t in out:
            byshape.setdefault(",".join(e["ev"] for e in t["events"]) + ("" if t.get("finished") else "!"), []).append(t)
        rnd = random.Random(seed)
        keep = [v[0] for v in byshape.values()][:cap]
        rest = [t for v in byshape.values() for t in v[1:]]
        rnd.shuffle(rest)
        out = keep + rest[:max(0, cap - len(keep))]
    return out


def _selftest(traces: list[dict]) -> list[dict]:
    """Corrupted copies of accepted traces: each must be rejected (binding demonstration)."""
    out = []
    t = next((t for t in traces if t.get("finished") and any(e["ev"] == "Fold" for e in t["events"]) and _size(t) <= 40), None)
    if t is not None:
        # (a) one Replace is missing from the trace: the Fold stays pending / the snapshot differs from the computed state
        c = copy.deepcopy(t)
        k = next(i for i, e in enumerate(c["events"]) if e["ev"] == "Replace")
        del c["events"][k]
        c["id"] = "selftest/dropped_replace_event"
        out.append(c)
        # (b) an operand of a folded node is declared a graph input: folding it would freeze an overridable value
        c = copy.deepcopy(t)
        f = next(e for e in c["events"] if e["ev"] == "Fold")
        node = next((n for g in c["meta"]["model"]["graphs"] for n in g["nodes"] if n["id"] == f["node"]), None)
        if node is not None and any(node["ins"]):
            v = next(x for x in node["ins"] if x)
            main = next(g for g in c["meta"]["model"]["graphs"] if g["id"] == c["meta"]["model"]["main"])
            if v not in main["inputs"]:
                main["inputs"].append(v)
                for g in c["end"]["model"]["graphs"]:
                    if g["id"] == c["end"]["model"]["main"]:
                        g["inputs"].append(v)
                c["id"] = "selftest/folded_operand_is_a_graph_input"
                out.append(c)
        # (c) the pass reports "not modified" although it changed the model
        c = copy.deepcopy(t)
        c["end"]["modified"] = False
        c["id"] = "selftest/modified_flag_false"
        out.append(c)
    t = next((t for t in traces if t.get("finished") and any(e["ev"] == "SubstInput" for e in t["events"]) and _size(t) <= 40), None)
    if t is not None:
        # (d) an input redirected to a value that is defined later in the graph
        c = copy.deepcopy(t)
        e = next(e for e in c["events"] if e["ev"] == "SubstInput")
        g = next((g for g in c["meta"]["model"]["graphs"] if any(n["id"] == e["node"] for n in g["nodes"])), None)
        if g is not None:
            k = next(i for i, n in enumerate(g["nodes"]) if n["id"] == e["node"])
            later = [o for n in g["nodes"][k:] for o in n["outs"] if o]
            if later:
                e["new"] = later[-1]
                c["id"] = "selftest/input_redirected_to_a_later_value"
                out.append(c)
    return out


# hand-written models that take every kind of step (initializer fold, fold inside a function, If inlined with a branch
# initializer, Identity outputs redirected, shape values substituted, Concat/Reshape partial evaluation, nested bodies)
OWN_MODELS = [
    """<ir_version: 8, opset_import: ["" : 18, "local": 1]>
agraph (float[N] x, bool c = {1}) => (float[N] z, int64[1] s) <bool t = {1}, float[1] one = {1.0}, float[1] two={2.0}> {
   three = Add(one, two)
   y = Mul(x, three)
   z0 = If (t) <then_branch = tb () => (float[N] r) <float[1] k = {5.0}> { r = Add(y, k) }, else_branch = eb () => (float[N] r2) { r2 = Identity(y) }>
   z1 = local.f(z0)
   z = Identity(z1)
   sh = Shape(x)
   s = Identity(sh)
}
<domain: "local", opset_import: ["" : 18]>
f (a) => (b) { o = Constant<value_float=1.0>()  p = Constant<value_float=2.0>() q = Add(o,p) b = Mul(a, q) }
""",
    """<ir_version: 8, opset_import: ["" : 18]>
agraph (float[2,3] x, bool c) => (float[6] z, float[2,3] w) <int64[1] m1 = {-1}> {
   sh = Shape(x)
   i0 = Constant<value_int=0>()
   a = Gather<axis=0>(sh, i0)
   z = Reshape(x, m1)
   w = If (c) <then_branch = tb () => (float[2,3] r) { one = Constant<value_float=1.0>() two = Constant<value_float=2.0>() k = Add(one, two) r = Mul(x, k) },
               else_branch = eb () => (float[2,3] r2) { r2 = Identity(x) }>
}
""",
    """<ir_version: 8, opset_import: ["" : 18]>
agraph (float[N,4] x, int64 n) => (float[N,4] y, float[M] acc) <float[1] one = {1.0}, float[1] two = {2.0}, bool tt = {1}> {
   y, acc = Loop (n, tt, x) <body = b (int64 i, bool ci, float[N,4] s) => (bool co, float[N,4] so, float so2) {
       co = Identity(ci)
       k = Add(one, two)
       so = Mul(s, k)
       sh = Shape(s)
       d = Size(sh)
       so2 = Cast<to=1>(d)
   }>
}
""",
]
_OWN_SCRIPT = """
import sys, json, onnx, onnx.parser
from onnxscript import ir, optimizer
models = json.load(open(sys.argv[1]))
for text in models:
    m = onnx.parser.parse_model(text)
    mi = ir.serde.deserialize_model(m)
    try:
        optimizer.fold_constants(mi)
        optimizer.optimize(ir.serde.deserialize_model(m))
    except Exception as e:
        print("RAISED", type(e).__name__, e)
"""


def collect_own() -> list[dict]:
    import subprocess
    import sys

    d = core.scratch()
    prefix = os.path.join(d, "foldtrace_owntr")
    mp, sp = os.path.join(d, "foldtrace_own_models.json"), os.path.join(d, "foldtrace_own.py")
    with open(mp, "w") as f:
        json.dump([m for m in OWN_MODELS], f)
    with open(sp, "w") as f:
        f.write(_OWN_SCRIPT)
    env = dict(os.environ, ONNXSCRIPT_VERIF="1", ONNXSCRIPT_VERIF_TRACE=prefix, PYTHONHASHSEED="0")
    p = subprocess.run([sys.executable, sp, mp], env=env, capture_output=True, text=True, timeout=600)
    if p.returncode != 0:
        raise core.MachineryError(f"foldtrace own models: {p.stderr[-1500:]}")
    import glob

    out = []
    for fpath in sorted(glob.glob(prefix + ".*")):
        with open(fpath) as fh:
            out += [json.loads(l) for l in fh if l.strip()]
        os.remove(fpath)
    out = [t for t in out if t.get("kind") == "folder"]
    for i, t in enumerate(out):
        t["id"] = f"own/{i}"
    return out


PYTEST_QUICK = ["onnxscript/optimizer/_constant_folding_test.py", "onnxscript/optimizer/_optimizer_test.py"]
PYTEST_THOROUGH = ["onnxscript/optimizer", "onnxscript/rewriter/rules/common"]


def collect_pytest(ctx, cap_nodes: int = 150):
    """Folder traces of the repository's tests: taken from the run rwtrace.stage already made in this process, else own run."""
    if rwtrace.OTHER_TRACES:
        allt, tail = list(rwtrace.OTHER_TRACES), rwtrace.OTHER_TAIL
    else:
        rwtrace.collect_pytest(PYTEST_QUICK if ctx.quick else PYTEST_THOROUGH)
        allt, tail = list(rwtrace.OTHER_TRACES), rwtrace.OTHER_TAIL
    tests = [t for t in allt if t.get("kind") == "folder"]
    big = sum(1 for t in tests if _size(t) > cap_nodes)
    tests = [t for t in tests if _size(t) <= cap_nodes]
    return tests, tail, big


def stage(ctx, case_traces: list[dict], owner: str):
    """Validate folder traces; report rejections whose clause the property `owner` owns."""
    tests, tail, big = collect_pytest(ctx)
    tests = dedup(tests, 4000, ctx.seed)       # identical traces (the same test model folded again) are validated once
    for i, t in enumerate(tests):
        t["id"] = f"pytest/{i}"
    for i, t in enumerate(case_traces):
        t.setdefault("id", f"case/{i}")
    if len(tests) < 30:
        raise core.MachineryError(f"too few recorded folder traces from the repository tests ({len(tests)}: {tail}); are the hooks in _constant_folding.py present?")
    own = collect_own()
    allt = tests + own + list(case_traces)
    self_t = _selftest(own + tests)
    verdicts, notes = validate(ctx, allt + self_t, owner)
    if len(self_t) < 3:
        raise core.MachineryError("binding self-test: no small trace with a Fold / SubstInput event to corrupt")
    for t in self_t:
        if verdicts[t["id"]][0] == 0:
            raise core.MachineryError(f"binding self-test: corrupted trace {t['id']} was accepted")
    n_steps = sum(verdicts[t["id"]][2] for t in allt)
    kinds: dict[str, int] = {}
    for t in allt:
        for e in t["events"]:
            kinds[e["ev"]] = kinds.get(e["ev"], 0) + 1
    for need in ("Fold", "Replace", "SubstInput", "Cleared", "ReplaceOutput", "InlineIf"):
        if not kinds.get(need):
            raise core.MachineryError(f"no {need} event in any recorded folder trace (vacuous for that action)")
    other = 0
    for t in allt:
        idx, clause, _, _ = verdicts[t["id"]]
        rej = [] if idx == 0 else [(idx, clause, None)]
        rej += [(i, c, KNOWN.get(c)) for i, c in notes.get(t["id"], [])]
        for idx, clause, finding in rej:
            if finding is not None:
                if KNOWN_OWNER.get(clause, "C04") != owner:
                    other += 1
                    continue
            elif not owns(owner, clause):
                other += 1
                continue
            ev = t["events"][idx - 1] if 0 < idx <= len(t["events"]) else {"ev": "End"}
            ctx.report({"trace": t["id"], "event_index": idx, "event": ev, "clause": clause, "trace_full": t},
                       f"recorded constant-folder trace {t['id']} rejected by FoldApply.tla at event {idx} ({ev.get('ev')}): clause {clause} does not hold; "
                       f"event {json.dumps(ev)[:500]}", finding=finding)
    ctx.add("traces_validated_against_impl", len(allt))
    ctx.set("folder_traces", {"repository_tests": len(tests), "repository_tests_result": tail, "skipped_large_models": big,
                              "hand_written_models": len(own), "generated_cases": len(case_traces), "state_changes_executed_by_spec": n_steps, "events_by_kind": kinds,
                              "initial_model_not_well_formed_not_judged": sum(1 for t in allt if verdicts[t["id"]][1].startswith("initial_model_not")),
                              "raised_prefixes": sum(1 for t in allt if verdicts[t["id"]][1] == "raised_prefix_consistent"),
                              "rejected_with_clause_of_other_property": other,
                              "selftest_corruptions_rejected": {t["id"]: verdicts[t["id"]][1] for t in self_t}})
