"""Shared by C01/C02/C13/C14: programs derived by spec/Script.tla -> Python source -> real @script functions."""
from __future__ import annotations

import importlib
import os
import random
import sys

import numpy as np

from . import core

NAME_SCHEMES = [
    {"x": "x", "y": "y", "w": "w", "b": "b", "i": "i", "j": "j", "k": "k", "a": "a", "n": "n"},
    {"x": "x", "y": "x_1", "w": "cond", "b": "cond_1", "i": "i", "j": "j", "k": "k", "a": "a", "n": "n"},      # user names that look like generated ones
    {"x": "y_0", "y": "y", "w": "cond_out", "b": "not_break", "i": "i_2", "j": "i", "k": "k", "a": "a", "n": "n"},
]


def expr_src(e, nm):
    op, a, b, c = e
    if op == "addc" and c == 1 and nm.get("#closure"):
        return f"{nm.get(a, a)} + KC1"          # the literal 1 comes from a closure variable of the enclosing factory
    A = nm.get(a, a)
    B = nm.get(b, b)
    if op == "v":
        return A
    if op == "c":
        return str(c)
    if op == "addc":
        return f"{A} + {c}" if c >= 0 else f"{A} - {-c}"
    if op == "add":
        return f"{A} + {B}"
    if op == "mul":
        return f"{A} * {B}"
    if op == "sub":
        return f"{A} - {B}"
    if op == "lt":
        return f"{A} < {c}"
    if op == "gt":
        return f"{A} > {c}"
    if op == "call":
        return f"h({A})"
    if op == "modc":
        return f"{A} % {c}"
    if op == "neg":
        return f"-{A}"
    if op == "call2":
        return f"g({A}, {c}, {B})"
    if op == "call2l":
        return f"g({A}, 3, 5)"
    if op == "idx":
        return f"op.Squeeze(v[{c}:{c + 1}])"
    if op == "attr":
        return f"{A} * alpha"
    if op == "kw":
        return f"op.Add({A}, B={B} * 1)"
    raise ValueError(op)


def uses(prog, opname):
    for s in prog:
        if s["k"] in ("asg", "pasg") and s["e"][0] == opname:
            return True
        if uses(s["t"], opname) or uses(s["f"], opname):
            return True
    return False


def block_src(b, nm, ind):
    out = []
    pad = "    " * ind
    for s in b:
        k = s["k"]
        if k == "asg":
            out.append(f"{pad}{nm[s['v']]} = {expr_src(s['e'], nm)}")
        elif k == "pasg":
            s2 = s["t"][0]
            out.append(f"{pad}{nm[s['v']]}, {nm[s2['v']]} = {expr_src(s['e'], nm)}, {expr_src(s2['e'], nm)}")
        elif k == "if":
            out.append(f"{pad}if {nm[s['v']]} > 0:")
            out += block_src(s["t"], nm, ind + 1)
            if s["f"]:
                out.append(f"{pad}else:")
                out += block_src(s["f"], nm, ind + 1)
        elif k == "for":
            out.append(f"{pad}for {nm[s['v']]} in range({expr_src(s['e'], nm)}):")
            out += block_src(s["t"], nm, ind + 1)
        elif k == "while":
            out.append(f"{pad}while {nm['w']}:")
            out += block_src(s["t"], nm, ind + 1)
        elif k == "brk":
            out.append(f"{pad}if {nm[s['v']]}:")
            out.append(f"{pad}    break")
        else:
            raise ValueError(k)
    return out


def program_src(prog, ret, scheme=0, fname="f", closure=False):
    """closure=True: the script function is defined inside a factory and takes its constant 1 from the factory's
    argument KC1 while the module has a global KC1 with another value (script-time constants are read from the closure)"""
    nm = dict(NAME_SCHEMES[scheme])
    if closure:
        nm["#closure"] = True
    lines = ["from typing import Tuple", "from onnxscript import script, INT64, BOOL", "from onnxscript import opset18 as op", ""]
    if uses(prog, "call"):
        lines += ["@script(default_opset=op)", "def h(u: INT64) -> INT64:", "    return u * 2 + 1", ""]
    if uses(prog, "call2") or uses(prog, "call2l"):
        lines += ["@script(default_opset=op)", "def g(x: INT64, k: int, y: INT64) -> INT64:", "    return x * k + y", ""]
    params = f"{nm['a']}: INT64, {nm['n']}: INT64"
    if uses(prog, "idx"):
        params += ", v: INT64[3]"
    if uses(prog, "attr"):
        params += ", alpha: int = 2"
    rt = "INT64" if len(ret) == 1 else "Tuple[" + ", ".join(["INT64"] * len(ret)) + "]"
    if closure:
        lines += ["KC1 = 9", "", "def make(KC1):", "    @script(default_opset=op)", f"    def {fname}({params}) -> {rt}:"]
        lines += block_src(prog, nm, 2)
        lines.append("        return " + ", ".join(nm[v] for v in ret))
        lines += [f"    return {fname}", "", f"{fname} = make(1)"]
        return "\n".join(lines) + "\n"
    lines += ["@script(default_opset=op)", f"def {fname}({params}) -> {rt}:"]
    lines += block_src(prog, nm, 1)
    lines.append("    return " + ", ".join(nm[v] for v in ret))
    return "\n".join(lines) + "\n"


_N = [0]


def load_source(src: str, tag="sg"):
    """Write src to a real file, import it as a module (script() needs inspect.getsource). Returns module."""
    d = core.scratch_sub("scriptmods")
    _N[0] += 1
    name = f"{tag}_{os.getpid()}_{_N[0]}"
    path = os.path.join(d, name + ".py")
    with open(path, "w") as fh:
        fh.write(src)
    if d not in sys.path:
        sys.path.insert(0, d)
    try:
        return importlib.import_module(name)
    finally:
        sys.modules.pop(name, None)
        try:
            os.remove(path)
        except OSError:
            pass


def call_model(fn):
    """A model whose graph is a single call to fn's FunctionProto (plus the functions it needs)."""
    import onnx
    from onnx import TensorProto, helper

    fp = fn.to_function_proto()
    mp = fn.to_model_proto()
    node = helper.make_node(fp.name, list(fp.input), [f"o{i}" for i in range(len(fp.output))], domain=fp.domain)
    g = helper.make_graph(
        [node], "caller",
        [helper.make_tensor_value_info(i, TensorProto.INT64, [3] if i == "v" else []) for i in fp.input],
        [helper.make_tensor_value_info(f"o{i}", TensorProto.INT64, None) for i in range(len(fp.output))],
    )
    ops = {(o.domain, o.version) for o in fp.opset_import} | {(fp.domain, 1)}
    funcs = [fp] + [f for f in mp.functions if not (f.name == fp.name and f.domain == fp.domain)]
    for f in funcs:
        ops |= {(o.domain, o.version) for o in f.opset_import} | {(f.domain, 1)}
    m = helper.make_model(g, opset_imports=[helper.make_opsetid(d, v) for d, v in sorted(ops)], functions=funcs)
    m.ir_version = mp.ir_version
    return m


# ------------------------------------------------------------------ TLC side
def tlc_programs(ctx, exhaustive_cfg, sim_cfg=None, sim_num=0, sim_depth=14, cap_per_cfg=120000):
    """returns list of 'done' states of Script.tla (dicts) from an exhaustive run plus simulation"""
    import json

    states = []
    seen_ex = set()
    cfgs = [exhaustive_cfg] if isinstance(exhaustive_cfg, str) else list(exhaustive_cfg)
    # the configurations are independent: run them side by side (a small model does not use 16 TLC workers well)
    from concurrent.futures import ThreadPoolExecutor

    par = min(4, len(cfgs))
    with ThreadPoolExecutor(max_workers=par) as ex:
        results = list(ex.map(lambda c: core.run_tlc("Script", c, timeout=3000, workers=max(2, core.NCPU // par)), cfgs))
    for cfg, res in zip(cfgs, results):
        ctx.tlc(res, cfg)
        if not res.ok:
            raise core.MachineryError(f"TLC reports {res.violated} on {cfg}:\n{res.out[-2000:]}")
        lines = [pr[1] for pr in res.printed if pr and pr[0] == "CASE"]
        res.out = ""
        res.printed = []
        if len(lines) > cap_per_cfg:
            # bounded memory: a seeded sample of a very large exhaustive space (recorded in the evidence)
            import random as _r
            ctx.set("sampled_from_" + cfg, len(lines))
            lines = _r.Random(ctx.seed).sample(lines, cap_per_cfg)
        for ln in lines:
            h = hash(ln)
            if h not in seen_ex:
                seen_ex.add(h)
                states.append(_norm(json.loads(ln)))
    if sim_cfg and sim_num:
        d = core.scratch_sub("sim")
        per = max(1, sim_num // core.NCPU)
        sres = core.run_tlc("Script", sim_cfg, simulate=f"num={per}", depth=sim_depth, seed=ctx.seed + 1, timeout=1500)
        ctx.tlc(sres, sim_cfg + " (simulate)")
        if sres.violated:
            raise core.MachineryError(f"TLC simulation reports {sres.violated} on {sim_cfg}:\n{sres.out[-2000:]}")
        seen = set()
        nsim = 0
        for pr in sres.printed:
            if pr and pr[0] == "CASE" and pr[1] not in seen:
                seen.add(pr[1])
                states.append(_norm(json.loads(pr[1])))
                nsim += 1
        ctx.set("simulated_programs", nsim)
    return states


def _norm(c):
    """JSON case -> the shape the harness uses (info.why merged in)"""
    c["info"] = {"why": c.pop("why", []), "sel": c.pop("sel", [])}
    return c


def has_kind(b, kind):
    return any(s["k"] == kind or has_kind(s["t"], kind) or has_kind(s["f"], kind) for s in b)


def depth(b):
    return max([0] + [1 + max(depth(s["t"]), depth(s["f"])) for s in b if s["k"] not in ("asg", "pasg", "brk")])
