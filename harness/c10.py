"""C10 - opset version conversion yields a valid, equivalent model at the target version.

spec/VersionConvert.tla is a step-level model of onnxscript.version_converter.convert_version
(inline -> path decision -> per-node/per-version adapter steps | C-API fallback + initializer
recovery | raise -> set opset -> proto copy-back).  TLC enumerates every configuration
(source opset, target opset, entry point, fallback flag, model contents) inside the bounds of the
cfg, checks the property on the *design* (Deviations = {}) and predicts what the code really does
(Deviations = RealDevs).  Every TLC configuration is then concretised to a real ONNX model
(direction A), pushed through the real convert_version, and the result is judged against the
property on implementation observables only (declared opsets, IR node versions, onnx.checker,
ONNX Runtime outputs before/after, graph signature, initializers).  The spec's prediction is
compared too, but a difference there is only a SPEC-MISMATCH warning.

VERIF_C10_MAX=<n> (optional, for experiments such as mutation runs) replays a seeded sample of n
TLC cases instead of all of them; the evidence then says exhaustive=false.
"""
from __future__ import annotations

import copy
import json
import logging
import os
import random
import re

import numpy as np

from . import core

LEVEL = "model_checking"

# ------------------------------------------------------------------ schema dump for the spec
SPEC_OPS = ["DFT", "GridSample", "GroupNormalization", "Relu", "Cast", "Add", "If", "Loop", "Neg", "Identity",
            "Constant", "Reshape", "Expand"]


def schema_table():
    """Real ONNX operator schemas (all generations) of the ops the spec talks about."""
    import onnx

    out = []
    for s in onnx.defs.get_all_schemas_with_history():
        if s.domain != "" or s.name not in SPEC_OPS:
            continue
        variadic = any(i.option == onnx.defs.OpSchema.FormalParameterOption.Variadic for i in s.inputs)
        out.append({
            "op": s.name, "since": int(s.since_version), "deprecated": bool(s.deprecated),
            "min_in": int(s.min_input), "max_in": 99 if variadic else int(s.max_input),
            "attrs": sorted(s.attributes.keys()),
        })
    out.sort(key=lambda e: (e["op"], e["since"]))
    return out


def adapter_keys():
    """The REAL adapter registry: [op, from_version] for up-conversion in the default domain."""
    from onnxscript.version_converter import _version_converter as _vc

    keys = []
    for (domain, op, ver, up) in _vc.registry.op_adapters:
        if domain == "" and up:
            keys.append([op, int(ver)])
    return sorted(keys)


# ------------------------------------------------------------------ concretisation (gamma)
BIG = 1100   # > _BIG_TENSOR_SIZE_LIMIT elements: the C-API wrapper strips the value
NOAXIS = 99  # VersionConvert.tla: D.ax


def _vi(name, dtype, shape):
    from onnx import helper as h

    return h.make_tensor_value_info(name, dtype, shape)


def build_item(i: int, kind: str, par: dict, s: int, rng: np.random.Generator):
    """One model item: returns dict(nodes, ins, outs, inits, feeds, y).  All names carry index i.
    `par` is the parameter record of VersionConvert.tla; the concrete node is the form of
    (kind, par) that is valid at source opset `s`."""
    from onnx import TensorProto as T
    from onnx import helper as h
    from onnx import numpy_helper as nh

    x, y = f"x{i}", f"y{i}"
    ins, inits, feeds, nodes = [], [], {}, []
    outtype = T.FLOAT

    def fl(*shape):
        return rng.integers(-4, 5, size=shape).astype(np.float32) * np.float32(0.5)

    if kind in ("relu", "cast", "custom"):
        ins = [_vi(x, T.FLOAT, [2, 3])]
        feeds[x] = fl(2, 3)
        if kind == "relu":
            nodes = [h.make_node("Relu", [x], [y], name=f"n{i}")]
        elif kind == "cast":
            nodes = [h.make_node("Cast", [x], [y], to=T.INT32, name=f"n{i}")]
            outtype = T.INT32
        else:
            nodes = [h.make_node("Gelu", [x], [y], domain="com.microsoft", name=f"n{i}")]
        outshape = [2, 3]
    elif kind == "add":
        n = BIG if par["big"] else 3
        ins = [_vi(x, T.FLOAT, [2, n])]
        feeds[x] = fl(2, n)
        w = f"w{i}"
        wv = (np.arange(n, dtype=np.float32) % 7) - 3
        inits = [nh.from_array(wv, w)]
        if par["ovr"]:  # initializer that is also a graph input (overridable default)
            ins.append(_vi(w, T.FLOAT, [n]))
        nodes = [h.make_node("Add", [x, w], [y], name=f"n{i}")]
        outshape = [2, n]
    elif kind == "dft":
        last = 2 if par["iv"] else 1                    # inverse: complex input
        shape = ([2, 3, 4] if par["rk"] == 4 else [3, 4]) + [last]
        ins = [_vi(x, T.FLOAT, shape)]
        feeds[x] = fl(*shape)
        outshape = shape[:-1] + [2]
        if par["ax"] != NOAXIS:
            a = par["ax"] % len(shape)
            n = par["ln"] if par["ln"] > 0 else shape[a]
            outshape[a] = n // 2 + 1 if par["os"] else n
        attrs = {}
        if par["os"]:
            attrs["onesided"] = 1
        if par["iv"]:
            attrs["inverse"] = 1
        ln = ""
        if par["ln"] > 0:
            ln = f"ln{i}"
            inits.append(nh.from_array(np.array(par["ln"], dtype=np.int64), ln))
        if par["ax"] == NOAXIS:
            nodes = [h.make_node("DFT", [x], [y], name=f"n{i}", **attrs)]
        elif s < 20:
            nodes = [h.make_node("DFT", [x] + ([ln] if ln else []), [y], axis=par["ax"], name=f"n{i}", **attrs)]
        else:
            ax = f"ax{i}"
            inits.append(nh.from_array(np.array(par["ax"], dtype=np.int64), ax))
            nodes = [h.make_node("DFT", [x, ln, ax], [y], name=f"n{i}", **attrs)]
    elif kind == "gs":
        g = f"g{i}"
        ins = [_vi(x, T.FLOAT, [1, 1, 3, 3]), _vi(g, T.FLOAT, [1, 2, 2, 2])]
        feeds[x] = fl(1, 1, 3, 3)
        feeds[g] = (rng.integers(-10, 11, size=(1, 2, 2, 2)).astype(np.float32) / np.float32(8))
        attrs = {}
        if par["md"]:
            new = {"bilinear": "linear", "bicubic": "cubic", "nearest": "nearest"}[par["md"]]
            attrs["mode"] = par["md"] if s < 20 else new
        if par["pd"]:
            attrs["padding_mode"] = par["pd"]
        if par["al"] >= 0:
            attrs["align_corners"] = par["al"]
        nodes = [h.make_node("GridSample", [x, g], [y], name=f"n{i}", **attrs)]
        outshape = [1, 1, 2, 2]
    elif kind == "gn":
        sc, b = f"sc{i}", f"b{i}"
        ch, groups = par["ch"], par["gr"]
        per = groups if s < 21 else ch      # opset 18-20: one scale per group; 21+: per channel
        dims = [par["nb"], ch] + [2] * (par["rk"] - 2)
        xshape = list(dims)
        if par["sh"] == "symc":
            xshape[1] = "Cdim"
        ins = [_vi(x, T.FLOAT, xshape), _vi(sc, T.FLOAT, [per]), _vi(b, T.FLOAT, [per])]
        feeds[x] = fl(*dims) * fl(*dims)
        feeds[sc] = np.arange(1, per + 1, dtype=np.float32)
        feeds[b] = np.arange(per, dtype=np.float32) * np.float32(0.5)
        gx, gsc, gb = x, sc, b
        # "no shape" variants: the operand is an intermediate value without value_info (the IR
        # then has shape None for it; no shape inference is run by convert_version)
        if par["sh"] == "nox":
            gx = x + "_i"
            nodes.append(h.make_node("Identity", [x], [gx], name=f"idx{i}"))
        if par["sh"] == "nosc":
            gsc, gb = sc + "_i", b + "_i"
            nodes.append(h.make_node("Identity", [sc], [gsc], name=f"idsc{i}"))
            nodes.append(h.make_node("Identity", [b], [gb], name=f"idb{i}"))
        extra = {"epsilon": 0.5} if par["ep"] else {}
        nodes.append(h.make_node("GroupNormalization", [gx, gsc, gb], [y], num_groups=groups, name=f"n{i}", **extra))
        outshape = xshape
    else:
        raise core.MachineryError(f"unknown item kind {kind}")
    out_vi = _vi(y, outtype, outshape)
    return {"nodes": nodes, "ins": ins, "outs": [out_vi], "inits": inits, "feeds": feeds, "y": y,
            "outtype": outtype}


def build_model(case: dict, feed_seed: int = 0):
    """case: {s, items:[{kind, place}]} -> (ModelProto, [feeds, ...])"""
    import onnx
    from onnx import TensorProto as T
    from onnx import helper as h

    s = case["s"]
    rng = np.random.default_rng([case.get("seed", 0), feed_seed, s])
    nodes, ins, outs, inits, functions = [], [], [], [], []
    feeds = {}
    conds = []
    trips = []
    opsets = [h.make_opsetid("", s)]
    # graph names are not identifiers in ONNX: in half of the models every body graph has the same name (as exporters emit)
    generic = bool(rng.integers(0, 2))
    for i, it in enumerate(case["items"], start=1):
        b = build_item(i, it["kind"], it["par"], s, rng)
        place = it["place"]
        if any(n.domain == "com.microsoft" for n in b["nodes"]) and not any(o.domain == "com.microsoft" for o in opsets):
            opsets.append(h.make_opsetid("com.microsoft", 1))
        ins += b["ins"]
        inits += b["inits"]
        feeds.update(b["feeds"])
        outs += b["outs"]
        if place == "top":
            nodes += b["nodes"]
        elif place == "ifbody":
            c = f"c{i}"
            ins.append(_vi(c, T.BOOL, []))
            conds.append(c)
            y = b["y"]
            then_nodes = copy.deepcopy(b["nodes"])
            else_nodes = copy.deepcopy(b["nodes"])
            for n in then_nodes:
                n.name += "_t"
                n.output[0] = y + "_t"       # single-node items only (multi-node kinds stay at top level)
            for n in else_nodes:
                n.name += "_e"
                n.output[0] = y + "_e0"
            if len(b["nodes"]) != 1:
                raise core.MachineryError(f"item kind {it['kind']} cannot be placed in an If body")
            if b["outtype"] == T.FLOAT:
                else_nodes.append(h.make_node("Neg", [y + "_e0"], [y + "_e"], name=f"neg{i}"))
            else:
                else_nodes[-1].output[0] = y + "_e"
            ovi = b["outs"][0]
            tvi, evi = copy.deepcopy(ovi), copy.deepcopy(ovi)
            tvi.name, evi.name = y + "_t", y + "_e"
            tg = h.make_graph(then_nodes, "branch" if generic else f"then{i}", [], [tvi])
            eg = h.make_graph(else_nodes, "branch" if generic else f"else{i}", [], [evi])
            nodes.append(h.make_node("If", [c], [y], then_branch=tg, else_branch=eg, name=f"if{i}"))
        elif place == "loopbody":
            # Loop(m, k) with a body whose scan output is the item's output (item reads outer-scope values)
            mname, kname = f"m{i}", f"k{i}"
            ins.append(_vi(mname, T.INT64, []))
            ins.append(_vi(kname, T.BOOL, []))
            trips.append((mname, kname))
            if len(b["nodes"]) != 1:
                raise core.MachineryError(f"item kind {it['kind']} cannot be placed in a Loop body")
            y = b["y"]
            body_nodes = [h.make_node("Identity", [f"cin{i}"], [f"cout{i}"], name=f"idc{i}")] + copy.deepcopy(b["nodes"])
            body_nodes[-1].name += "_l"
            body_nodes[-1].output[0] = y + "_l"
            ovi = b["outs"][0]
            bvi = copy.deepcopy(ovi)
            bvi.name = y + "_l"
            bg = h.make_graph(body_nodes, "branch" if generic else f"body{i}", [_vi(f"it{i}", T.INT64, []), _vi(f"cin{i}", T.BOOL, [])],
                              [_vi(f"cout{i}", T.BOOL, []), bvi])
            nodes.append(h.make_node("Loop", [mname, kname], [y], body=bg, name=f"loop{i}"))
            dims = [d.dim_value if d.HasField("dim_value") else (d.dim_param or None) for d in ovi.type.tensor_type.shape.dim]
            outs[-1] = _vi(y, b["outtype"], [None] + dims)
        elif place == "func":
            fin = [v.name for v in b["ins"]] + [t.name for t in b["inits"] if t.name not in {v.name for v in b["ins"]}]
            fops = [h.make_opsetid("", s)]
            if any(n.domain == "com.microsoft" for n in b["nodes"]):
                fops.append(h.make_opsetid("com.microsoft", 1))
            functions.append(h.make_function("local", f"F{i}", fin, [b["y"]], copy.deepcopy(b["nodes"]), fops))
            nodes.append(h.make_node(f"F{i}", fin, [b["y"]], domain="local", name=f"call{i}"))
            if not any(o.domain == "local" for o in opsets):
                opsets.append(h.make_opsetid("local", 1))
        else:
            raise core.MachineryError(f"unknown place {place}")
    g = h.make_graph(nodes, "g", ins, outs, initializer=inits)
    m = h.make_model(g, opset_imports=opsets, ir_version=10, functions=functions)
    init_names = {t.name for t in inits}
    base = {k: v for k, v in feeds.items() if k not in init_names}
    feedsets = []
    for variant in range(2):
        f = dict(base)
        for c in conds:
            f[c] = np.array(variant == 0, dtype=np.bool_)
        for mname, kname in trips:
            f[mname] = np.array(2 + variant, dtype=np.int64)
            f[kname] = np.array(True, dtype=np.bool_)
        if variant == 1:
            r2 = np.random.default_rng([case.get("seed", 0), feed_seed, 77])
            for k, v in list(f.items()):
                if v.dtype == np.float32 and not k.startswith(("g", "sc", "b")):
                    f[k] = (v + r2.integers(-2, 3, size=v.shape).astype(np.float32)).astype(np.float32)
            # an overridable initializer is fed explicitly in the second input set
            for t in inits:
                if any(v.name == t.name for v in ins):
                    f[t.name] = np.full(list(t.dims), 2.0, dtype=np.float32)
        feedsets.append(f)
    return m, feedsets


# ------------------------------------------------------------------ observation (alpha)
def _checker(m):
    import onnx

    try:
        onnx.checker.check_model(m, full_check=True)
        return "ok"
    except Exception as e:  # noqa: BLE001 - any checker complaint is a verdict, not a crash
        return "fail: " + str(e).replace("\n", " ")[:160]


def _run(m, feedsets):
    """-> list of outputs per feed set, or "fail: ..." when ORT refuses the model."""
    try:
        sess = core.ort_session(m)
    except Exception as e:  # noqa: BLE001
        return "fail: " + str(e).replace("\n", " ")[:160]
    res = []
    for f in feedsets:
        try:
            res.append(sess.run(None, f))
        except Exception as e:  # noqa: BLE001
            res.append("fail: " + str(e).replace("\n", " ")[:160])
    return res


def _same_outputs(a, b):
    if isinstance(a, str) or isinstance(b, str):
        return False
    if len(a) != len(b):
        return False
    for ra, rb in zip(a, b):
        if isinstance(ra, str) or isinstance(rb, str):
            return False
        if len(ra) != len(rb):
            return False
        for u, v in zip(ra, rb):
            if not core.same_array(u, v, exact=False, rtol=1e-4, atol=1e-4):
                return False
    return True


def _sig(m):
    def vi(v):
        tt = v.type.tensor_type
        shape = None
        if tt.HasField("shape"):
            shape = [d.dim_value if d.HasField("dim_value") else (d.dim_param or "?") for d in tt.shape.dim]
        return [v.name, int(tt.elem_type), shape]

    return {"inputs": [vi(v) for v in m.graph.input], "outputs": [vi(v) for v in m.graph.output]}


def _sig_kept(before, after) -> bool:
    """same names, types and order; a dimension the source left unknown may have been filled in"""
    for key in ("inputs", "outputs"):
        if len(before[key]) != len(after[key]):
            return False
        for (n0, t0, s0), (n1, t1, s1) in zip(before[key], after[key]):
            if n0 != n1 or t0 != t1:
                return False
            if s0 is None:
                continue
            if s1 is None or len(s0) != len(s1):
                return False
            for d0, d1 in zip(s0, s1):
                if d0 != d1 and d0 != "?":
                    return False
    return True


def _inits(m):
    from onnx import numpy_helper as nh

    return {t.name: nh.to_array(t) for t in m.graph.initializer}


def _default_opset(opset_imports):
    vs = [int(o.version) for o in opset_imports if o.domain in ("", "ai.onnx")]
    return vs


def _all_nodes(graph):
    for n in graph.node:
        yield n
        for a in n.attribute:
            if a.type == a.GRAPH:
                yield from _all_nodes(a.g)
            elif a.type == a.GRAPHS:
                for g in a.graphs:
                    yield from _all_nodes(g)


def _shape_of(m):
    """structural projection: [op, n_inputs(non-trailing-empty), sorted attr names, mode attr] per default-domain node"""
    out = []
    for n in list(_all_nodes(m.graph)) + [n for f in m.functions for n in f.node]:
        if n.domain not in ("", "ai.onnx"):
            out.append([n.domain + "::" + n.op_type, len(n.input), []])
            continue
        attrs = sorted(a.name for a in n.attribute)
        mode = next((a.s.decode() for a in n.attribute if a.name == "mode"), None)
        out.append([n.op_type, len(n.input), attrs] + ([mode] if mode else []))
    return out


def observe(case: dict) -> dict:
    """Build the model of `case`, run the REAL convert_version, return implementation observables."""
    import onnx
    from onnxscript import ir, version_converter

    logging.getLogger("onnxscript").setLevel(logging.CRITICAL)
    m, feedsets = build_model(case)
    t, entry, fb = case["t"], case["entry"], bool(case["fb"])
    mid, stamp = int(case.get("mid", 0) or 0), bool(case.get("stamp", False))
    # the object the caller holds: an ir.Model (optionally with node.version stamps, as a
    # builder/exporter leaves them) or a ModelProto
    if entry == "ir":
        obj = ir.serde.deserialize_model(copy.deepcopy(m))
        if stamp:
            for n in ir.traversal.RecursiveGraphIterator(obj.graph):
                if n.domain in ("", "ai.onnx"):
                    n.version = case["s"]
    else:
        obj = copy.deepcopy(m)
    first_exc = None
    if mid:
        # history: the same object was converted before (s -> mid); the call under judgement is
        # mid -> t and its "source model" is what the first call left behind
        try:
            version_converter.convert_version(obj, mid, fallback=fb)
        except Exception as e:  # noqa: BLE001 - a refusal is an outcome
            first_exc = f"{type(e).__name__}: {str(e)[:120]}"
        m = copy.deepcopy(ir.serde.serialize_model(obj)) if entry == "ir" else copy.deepcopy(obj)
    before_ck = _checker(m)
    before_run = _run(m, feedsets)
    runnable = not isinstance(before_run, str) and not any(isinstance(r, str) for r in before_run)
    ob = {"src_checker": before_ck, "src_runnable": runnable, "src_declared": _default_opset(m.opset_import),
          "first_exc": first_exc}
    if not runnable:
        ob["src_run_error"] = before_run if isinstance(before_run, str) else next(r for r in before_run if isinstance(r, str))
    exc = None
    ir_info = None
    from onnxscript._internal import _verif

    if _verif.ENABLED:
        del _verif.traces[:]
    if entry == "ir":
        im = obj
        try:
            version_converter.convert_version(im, t, fallback=fb)
        except Exception as e:  # noqa: BLE001 - a refusal is an outcome
            exc = f"{type(e).__name__}: {str(e)[:120]}"
        versions = sorted({-1 if n.version is None else int(n.version)
                           for n in ir.traversal.RecursiveGraphIterator(im.graph) if n.domain in ("", "ai.onnx")})
        fvers = {}
        for fid, f in im.functions.items():
            fvers[str(fid)] = [f.opset_imports.get(""),
                               sorted({-1 if n.version is None else int(n.version)
                                       for n in ir.traversal.RecursiveGraphIterator(f) if n.domain in ("", "ai.onnx")})]
        ir_info = {"model_opset": im.opset_imports.get(""), "graph_opset": im.graph.opset_imports.get(""),
                   "node_versions": versions, "functions": fvers}
        try:
            r = ir.serde.serialize_model(im)
        except Exception as e:  # noqa: BLE001
            ob.update({"exc": exc, "ir": ir_info, "serialize_error": f"{type(e).__name__}: {str(e)[:120]}"})
            return ob
    else:
        r = obj
        try:
            version_converter.convert_version(r, t, fallback=fb)
        except Exception as e:  # noqa: BLE001
            exc = f"{type(e).__name__}: {str(e)[:120]}"
    if _verif.ENABLED:
        # the recorded execution of _VersionConverter.visit_model for this call (validated by TLC against VersionApply.tla)
        _verif.abort_all()
        ob["vctraces"] = [tr for tr in _verif.traces if tr["kind"] == "vconv" and sum(len(g["nodes"]) for g in tr["meta"]["model"]["graphs"]) <= 80][:2]
        del _verif.traces[:]
    ob["exc"] = exc
    ob["ir"] = ir_info
    ob["declared"] = _default_opset(r.opset_import)
    ob["fn_declared"] = {f.domain + "::" + f.name: _default_opset(f.opset_import) for f in r.functions}
    ob["checker"] = _checker(r)
    after_run = _run(r, feedsets)
    ob["runs"] = not isinstance(after_run, str) and not any(isinstance(x, str) for x in after_run)
    if not ob["runs"]:
        ob["run_error"] = after_run if isinstance(after_run, str) else next(x for x in after_run if isinstance(x, str))
    ob["equivalent"] = bool(runnable and _same_outputs(before_run, after_run))
    ob["sig_kept"] = _sig_kept(_sig(m), _sig(r))
    if not ob["sig_kept"]:
        ob["sig"] = {"before": _sig(m), "after": _sig(r)}
    bi, ai = _inits(m), _inits(r)
    lost = sorted(k for k in bi if k not in ai)
    changed = sorted(k for k in bi if k in ai and not core.same_array(bi[k], ai[k]))
    ob["inits_lost"], ob["inits_changed"] = lost, changed
    ob["shape"] = _shape_of(r)
    ob["src_shape"] = _shape_of(m)
    ob["n_functions"] = len(r.functions)
    return ob


# ------------------------------------------------------------------ judging (property on observables only)
def _norm_shape(shape, with_mode=True):
    """multiset of default/custom-domain node shapes, call nodes of model-local functions dropped"""
    out = []
    for e in shape:
        if str(e[0]).startswith("local::"):
            continue
        out.append(json.dumps([e[0], e[1], sorted(e[2])] + (list(e[3:]) if with_mode else [])))
    return sorted(out)


def judge(case: dict, ob: dict) -> list[tuple[str, str]]:
    """-> [(clause, what)] : the clauses of the property that the REAL result violates."""
    t = case["t"]
    s = ob["src_declared"][0] if len(set(ob.get("src_declared") or [])) == 1 else case["s"]
    bad = []
    if "serialize_error" in ob:
        return [("valid", f"converted ir.Model cannot be serialised: {ob['serialize_error']}")]
    decl = ob["declared"]
    d = decl[0] if len(set(decl)) == 1 else None
    unchanged = _norm_shape(ob["shape"]) == _norm_shape(ob["src_shape"])
    if d is None:
        bad.append(("declared", f"result declares default-domain opsets {decl}"))
    elif d != t:
        if d != s:
            bad.append(("declared", f"result declares opset {d}, neither target {t} nor source {s}"))
        elif not unchanged:
            bad.append(("declared", f"half-converted: result still declares opset {s} (target {t}) but its nodes were rewritten"))
    # consistency of the declaration: functions, IR bookkeeping
    for fn, fv in sorted(ob["fn_declared"].items()):
        if d is not None and fv != [d]:
            bad.append(("consistent", f"function {fn} declares {fv}, model declares {d}"))
    ir = ob.get("ir")
    if ir is not None and d is not None:
        if ir["model_opset"] != d or ir["graph_opset"] != d:
            bad.append(("consistent", f"ir.Model opset_imports {ir['model_opset']}/{ir['graph_opset']} vs serialised {d}"))
        stale = [v for v in ir["node_versions"] if v not in (-1, d)]
        if stale:
            bad.append(("consistent", f"model declares opset {d} but default-domain nodes carry version {stale}"))
        for fn, (fo, fvs) in sorted(ir["functions"].items()):
            if fo != d or [v for v in fvs if v not in (-1, d)]:
                bad.append(("consistent", f"function {fn}: opset {fo}, node versions {fvs}, model {d}"))
    if ob["src_checker"] == "ok" and ob["checker"] != "ok":
        bad.append(("valid", f"onnx.checker rejects the result at its declared opset {decl}: {ob['checker'][6:]}"))
    if ob["src_runnable"]:
        if not ob["runs"]:
            bad.append(("equivalent", f"ONNX Runtime ran the source model but refuses the result: {ob.get('run_error', '')[6:]}"))
        elif not ob["equivalent"]:
            bad.append(("equivalent", "result computes different outputs than the source model on the same inputs"))
    if not ob["sig_kept"]:
        bad.append(("signature", f"graph inputs/outputs changed: {json.dumps(ob.get('sig'))[:300]}"))
    if ob["inits_lost"] or ob["inits_changed"]:
        bad.append(("initializers", f"initializers lost {ob['inits_lost']} / changed {ob['inits_changed']}"))
    return bad


def compare_model(rec: dict, ob: dict) -> list[str]:
    """implementation vs implementation-model (TLC record): list of differences (SPEC-MISMATCH)."""
    diffs = []
    if "serialize_error" in ob:
        return ["result not serialisable"]
    raised = bool(ob["exc"])
    if raised != (rec["path"] == "raised"):
        diffs.append(f"exception: model path={rec['path']} impl exc={ob['exc']}")
    if raised and not ob["exc"].startswith("VersionConverterError"):
        diffs.append(f"exception type: {ob['exc']}")
    if ob["declared"] != [rec["declared"]]:
        diffs.append(f"declared: model {rec['declared']} impl {ob['declared']}")
    if _norm_shape(rec["shape"], False) != _norm_shape(ob["shape"], False):
        diffs.append(f"nodes: model {_norm_shape(rec['shape'], False)} impl {_norm_shape(ob['shape'], False)}")
    for key, got in (("srcChecker", ob["src_checker"] == "ok"), ("checker", ob["checker"] == "ok"),
                     ("sig", ob["sig_kept"]), ("inits", not ob["inits_lost"] and not ob["inits_changed"]),
                     ("nfuncs", ob["n_functions"])):
        if rec[key] != got:
            diffs.append(f"{key}: model {rec[key]} impl {got}")
    if ob["src_runnable"]:
        if rec["runs"] != ob["runs"]:
            diffs.append(f"runs: model {rec['runs']} impl {ob['runs']} {ob.get('run_error', '')[:80]}")
        elif rec["equivalent"] != ob["equivalent"]:
            diffs.append(f"equivalent: model {rec['equivalent']} impl {ob['equivalent']}")
    else:
        diffs.append(f"source model not runnable: {ob.get('src_run_error', '')[:100]}")
    if ob.get("ir") is not None:
        mv = sorted(-1 if v == 0 else v for v in rec["irVersions"])
        if mv != ob["ir"]["node_versions"]:
            diffs.append(f"ir node versions: model {mv} impl {ob['ir']['node_versions']}")
        if ob["ir"]["model_opset"] != rec["irDeclared"]:
            diffs.append(f"ir declared: model {rec['irDeclared']} impl {ob['ir']['model_opset']}")
    return diffs


def case_of(rec: dict) -> dict:
    return {"s": rec["s"], "t": rec["t"], "entry": rec["entry"], "fb": rec["fb"],
            "mid": rec.get("mid", 0), "stamp": rec.get("stamp", False),
            "items": [{"kind": i["kind"], "place": i["place"], "par": i["par"]} for i in rec["items"]]}


_PAR_DEFAULT = {"ax": NOAXIS, "rk": 0, "os": 0, "iv": 0, "ln": 0, "md": "", "pd": "", "al": -1,
                "ch": 0, "gr": 0, "ep": 0, "nb": 0, "sh": "", "big": False, "ovr": False}


def item_text(i: dict) -> str:
    par = ",".join(f"{k}={v}" for k, v in i["par"].items() if _PAR_DEFAULT.get(k) != v)
    return f"{i['kind']}({par})@{i['place']}"


def case_text(c: dict) -> str:
    its = "+".join(item_text(i) for i in c["items"])
    hist = f"{c['s']}->{c['mid']}->{c['t']} (second call judged)" if c.get("mid") else f"{c['s']}->{c['t']}"
    return (f"[{its}] opset {hist} entry={c['entry']} fallback={c['fb']}"
            + (" nodes stamped with version" if c.get("stamp") else ""))


def _work(rec):
    import onnxruntime as ort

    ort.set_default_logger_severity(4)
    case = case_of(rec)
    try:
        ob = observe(case)
    except core.MachineryError:
        raise
    except Exception as e:  # noqa: BLE001 - the harness itself failed on this case
        return (rec, None, f"{type(e).__name__}: {e}")
    return (rec, ob, None)


# ------------------------------------------------------------------ TLC
_CASE_RE = re.compile(r'^<<"CASE", (".*")>>$')
_ADAPT_RE = re.compile(r'^<<"ADAPTERS", (".*")>>$')


def _parse_cases(out: str):
    cases, adapters = [], None
    for line in out.splitlines():
        m = _CASE_RE.match(line)
        if m:
            cases.append(json.loads(json.loads(m.group(1))))
            continue
        m = _ADAPT_RE.match(line)
        if m:
            adapters = sorted([k[0], k[1]] for k in json.loads(json.loads(m.group(1))))
    return cases, adapters


MY_DEVS = ["proto_opset_stale", "adapter_error_swallowed", "groupnorm_unknown_shape_skipped", "subgraph_name_clash",
           "dft_default_axis_changed", "groupnorm_epsilon_dropped"]


def _impl_cfg(base: str) -> str:
    """cfg of the implementation model: Deviations = every modelled deviation that is not recorded
    as fixed in known_findings.json (the static cfg is used when nothing is fixed)."""
    fixed = {(f.get("id") if isinstance(f, dict) else f) for f in core.load_known_findings().get("fixed", [])}
    live = [d for d in MY_DEVS if d not in fixed]
    if len(live) == len(MY_DEVS):
        return base
    with open(os.path.join(core.SPEC_DIR, base)) as f:
        text = f.read()
    text = text.replace("Deviations <- RealDevs", "Deviations = {%s}" % ", ".join(f'"{d}"' for d in live))
    path = os.path.join(core.scratch(), base)
    with open(path, "w") as f:
        f.write(text)
    return path


def tlc_cases(ctx):
    from concurrent.futures import ThreadPoolExecutor

    tier = "quick" if ctx.quick else "thorough"
    heap = "2g" if ctx.quick else "6g"   # six JVMs run side by side
    env = {"C10_SCHEMAS": core.write_tlc_json(os.path.join(core.scratch(), "c10_schemas.json"), schema_table())}
    jobs = {
        "impl": ("VersionConvert", _impl_cfg(f"VersionConvert_{tier}.cfg"), dict(workers=max(2, core.NCPU // 2), timeout=2400, heap=heap)),
        "design": ("VersionConvert", f"VersionConvert_design_{tier}.cfg", dict(workers=max(2, core.NCPU // 2), timeout=2400, heap=heap)),
    }
    for w in ("bites", "vacuity_adapter", "vacuity_fallback", "vacuity_refusal", "vacuity_history", "vacuity_stamp"):
        jobs[w] = ("VersionConvert", f"VersionConvert_{w}.cfg", dict(workers=1, timeout=600, heap="1g"))
    with ThreadPoolExecutor(len(jobs)) as ex:
        futs = {k: ex.submit(core.run_tlc, m, c, env=env, **kw) for k, (m, c, kw) in jobs.items()}
        res = {k: f.result() for k, f in futs.items()}
    for k, r in res.items():
        ctx.tlc(r, jobs[k][1] if isinstance(jobs[k][1], str) else k)
    if not res["design"].ok:
        raise core.MachineryError(f"design-level property fails in TLC ({res['design'].violated}):\n{res['design'].out[-2500:]}")
    if not res["impl"].ok:
        raise core.MachineryError(f"implementation model: {res['impl'].violated} violated (a property failure that no "
                                  f"named deviation explains):\n{res['impl'].out[-2500:]}")
    if res["bites"].ok:
        raise core.MachineryError("vacuity: Prop holds even with all deviations enabled - the invariant cannot fail")
    for w in ("vacuity_adapter", "vacuity_fallback", "vacuity_refusal", "vacuity_history", "vacuity_stamp"):
        if res[w].ok:
            raise core.MachineryError(f"vacuity: witness {w} is unreachable in VersionConvert.tla")
    cases, adapters = _parse_cases(res["impl"].out)
    if not cases:
        raise core.MachineryError("TLC printed no CASE lines")
    return cases, adapters


# ------------------------------------------------------------------ main
def run(ctx: core.Ctx):
    logging.getLogger("onnxscript").setLevel(logging.CRITICAL)
    cases, spec_adapters = tlc_cases(ctx)
    ctx.set("spec_cases", len(cases))
    mismatches = 0
    real_adapters = adapter_keys()
    if spec_adapters != real_adapters:
        mismatches += 1
        print(f"SPEC-MISMATCH C10 adapter registry: model {spec_adapters} impl {real_adapters}")
    cases.sort(key=lambda r: json.dumps(case_of(r), sort_keys=True))
    rng = random.Random(ctx.seed)
    budget = int(os.environ.get("VERIF_C10_MAX", "0") or 0)
    if budget and len(cases) > budget:
        cases = rng.sample(cases, budget)
        ctx.set("exhaustive", False)
    else:
        ctx.set("exhaustive", True)
    order = list(range(len(cases)))
    rng.shuffle(order)  # spread expensive cases over the pool
    results = core.pmap(_work, [cases[i] for i in order], chunksize=16)
    results.sort(key=lambda r: json.dumps(case_of(r[0]), sort_keys=True))
    # direction B: the recorded executions of the converter for these configurations, the repository's tests and hand-written
    # models, executed by TLC on VersionApply.tla
    from . import foldtrace, vctrace

    case_traces = []
    for rec, ob, err in results:
        for tr in (ob or {}).pop("vctraces", None) or []:
            tr["id"] = f"case/{len(case_traces)}"
            case_traces.append(tr)
    vctrace.stage(ctx, foldtrace.dedup(case_traces, 3000 if ctx.quick else 40000, ctx.seed), real_adapters)
    known_ids = {k["id"] for k in ctx.known}
    nontriv = set()
    discarded = 0
    unexplained = 0
    per_dev: dict[str, int] = {}
    stale_unchanged = 0
    reports = []
    for rec, ob, err in results:
        case = case_of(rec)
        if ob is None:
            raise core.MachineryError(f"harness failed on {case_text(case)}: {err}")
        ctx.add("evaluations")
        if case["s"] != case["t"]:
            nontriv.add(json.dumps(case, sort_keys=True))
        if not ob["src_runnable"]:
            discarded += 1
        diffs = compare_model(rec, ob)
        if diffs:
            mismatches += 1
            if mismatches <= 15:
                print(f"SPEC-MISMATCH C10 {case_text(case)}: " + "; ".join(diffs)[:400])
        bad = judge(case, ob)
        if ob.get("declared") == [case["s"]] and case["s"] != case["t"] and case["entry"] == "proto" \
                and rec["path"] in ("native", "fallback_ok") and not bad:
            stale_unchanged += 1
        full = dict(case)
        full["observed"] = {k: v for k, v in ob.items() if k not in ("src_shape",)}
        full["model"] = {k: rec[k] for k in ("path", "declared", "prop", "failing", "used")}
        if len(ctx.coverage["samples"]) < 6 and case["s"] != case["t"] and rng.random() < 0.01:
            ctx.sample({"case": case_text(case), "model_path": rec["path"], "declared": ob["declared"],
                        "violated": [b[0] for b in bad]})
        if not bad:
            continue
        finding = None
        clauses = sorted({b[0] for b in bad})
        if not rec["prop"] and rec["used"] and clauses == sorted(rec["failing"]):
            unlisted = sorted(u for u in rec["used"] if u not in known_ids)
            finding = unlisted[0] if unlisted else sorted(rec["used"])[0]
            per_dev[finding] = per_dev.get(finding, 0) + 1
        else:
            unexplained += 1
        what = f"convert_version on {case_text(case)}: " + " | ".join(f"{c}: {w}" for c, w in bad)
        if finding and finding not in known_ids:
            what += f"  [implementation model explains this by deviation '{finding}']"
        reports.append((0 if finding is None else 1, full, what, finding))
    # failures the implementation model does not explain first: they are the new ones
    for _, full, what, finding in sorted(reports, key=lambda r: r[0]):
        ctx.report(full, what, finding=finding)
    ctx.set("distinct_nontrivial", len(nontriv))
    ctx.add("traces_validated_against_impl", ctx.coverage.get("evaluations", 0))
    ctx.set("model_impl_mismatches", mismatches)
    ctx.set("source_not_runnable_discarded", discarded)
    ctx.set("violations_explained_by_deviation", per_dev)
    ctx.set("violations_unexplained_by_model", unexplained)
    ctx.set("proto_left_at_source_opset_but_unchanged_not_flagged", stale_unchanged)
    ctx.set("rule", "cases = finished behaviours of VersionConvert.tla (source x target opset in 18..25 x entry x "
                    "fallback x model contents from the cfg menus); every case is built as a real model and converted; "
                    "non-trivial = source opset differs from target (a conversion, refusal or fallback is actually "
                    "requested); distinct by the whole configuration")
    ctx.assumptions += [
        "ONNX Runtime (optimisations disabled) and onnx.checker (full_check) are the arbiters of 'computes the same outputs' / 'valid'; outputs compared with rtol=atol=1e-4 on two seeded input sets per model (If conditions both ways, overridable initializer overridden once)",
        "a source model the checker already rejects (GroupNormalization-18 is marked deprecated by onnx) is not judged for validity; a source model ORT cannot run is not judged for equivalence",
        "a result that still declares the source opset is accepted when its nodes are structurally unchanged (op, arity, attribute names, mode), even if the requested conversion was supported (literal reading of 'declared = t or unchanged')",
        "IR node.version None counts as consistent with any declared opset",
        "the onnx C-API converter's behaviour in the spec (which down-conversions it refuses) is an environment assumption checked by conformance",
        "ref-attribute nodes and models whose nodes carry differing versions are not generated (unreachable through the public entry point after inlining)",
    ]


def replay(ctx, path):
    with open(path) as f:
        blob = json.load(f)
    case = {k: blob["case"].get(k, 0) for k in ("s", "t", "entry", "fb", "items", "mid", "stamp")}
    logging.getLogger("onnxscript").setLevel(logging.CRITICAL)
    ob = observe(case)
    bad = judge(case, ob)
    print(json.dumps({"case": case, "model_then": blob["case"].get("model"),
                      "now": {k: v for k, v in ob.items() if k != "src_shape"},
                      "violated_now": bad}, indent=1, default=str))
    return 1 if bad else 0
