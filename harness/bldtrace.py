"""Direction B for the graph builder: traces recorded by the hooks in onnxscript/_internal/builder.py and
onnxscript/nn/_parameter.py (ONNXSCRIPT_VERIF=1) - one trace per ROOT GraphBuilder: the graph it starts from, then one event per
state change (Child / Inherit of a sub-builder, Push / Pop of a module scope, Input, Output, Init, Param, Const, Node, InlineEnd,
EndGraph) - are validated by TLC against spec/BuilderApply.tla (BuilderTrace.tla): the specification executes every event on its
abstract state (scope stacks, values defined per graph, root initializers by name, constant cache with the literal behind each
key) under the clauses C18 needs.

Sources: the repository's builder / nn tests under pytest with the hooks on, hand-written drivers (module trees with
subgraphs, literal mixes, call / call_inline), and the traces / module trees the C18 check replays (its workers return them).
"""
from __future__ import annotations

import ast
import copy
import glob
import json
import os
import re
import subprocess
import sys

from . import core

# soft clause -> the listed findings that can explain it (the harness accepts the explanation only where the caller says the
# implementation model predicts that finding for the case, or - for repository tests / own drivers - never)
SOFT = {"node_name_unique_across_graphs": ["subgraph_name_reuse"],
        "node_output_names_unique_across_graphs": ["subgraph_name_reuse"],
        "param_name_is_the_dotted_path_of_the_calling_scope": ["param_subgraph_scope"],
        "param_name_registered_once": ["sequential_child_direct", "named_child_keeps_name", "param_subgraph_scope"],
        "param_appears_once": ["sequential_child_direct", "named_child_keeps_name"]}


def _lit_list(s):
    try:
        v = ast.literal_eval(s) if s else []
        return [str(x) for x in v]
    except Exception:  # noqa: BLE001
        return ["<unparsable>", str(s)]


def to_tlc(t: dict) -> dict:
    meta = t["meta"]
    evs = []
    for e in t["events"]:
        e = dict(e)
        if e["ev"] == "Node":
            e["name_scopes"] = _lit_list(e.get("name_scopes", ""))
            e["class_hierarchy"] = _lit_list(e.get("class_hierarchy", ""))
        evs.append(e)
    return {"id": t["id"], "root": meta["b"], "graph": meta["graph"], "inputs": meta["inputs"], "input_names": meta["input_names"],
            "inits": meta["inits"], "nodes": meta["nodes"], "events": evs, "finished": bool(t.get("finished"))}


_RE_VERDICT = re.compile(r'<<\s*"VERDICT",\s*"([^"]*)",\s*(\d+),\s*"([^"]*)",\s*(\d+),\s*(\d+),\s*(\d+),\s*(\d+)\s*>>')
_RE_NOTE = re.compile(r'<<\s*"NOTE",\s*"([^"]*)",\s*(\d+),\s*"([^"]*)"\s*>>')


def validate(ctx, traces: list[dict], label: str):
    verdicts, notes = {}, {}
    batches, cur, size = [], [], 0
    for t in traces:
        s = len(t["events"]) * 8 + 10
        if cur and size + s > 40000:
            batches.append(cur)
            cur, size = [], 0
        cur.append(to_tlc(t))
        size += s
    if cur:
        batches.append(cur)
    for k, b in enumerate(batches):
        path = os.path.join(core.scratch(), f"bldtraces_{label}_{k}.json")
        core.write_tlc_json(path, b)
        res = core.run_tlc("BuilderTrace", "BuilderTrace.cfg", workers=1, env={"TRACE_FILE": path}, timeout=2400, heap="6g")
        ctx.tlc(res, f"BuilderTrace:{label}")
        if not res.ok:
            raise core.MachineryError(f"BuilderTrace failed: {res.out[-2500:]}")
        for m in _RE_VERDICT.finditer(res.out):
            verdicts[m.group(1)] = (int(m.group(2)), m.group(3), tuple(int(m.group(i)) for i in (4, 5, 6, 7)))
        for m in _RE_NOTE.finditer(res.out):
            notes.setdefault(m.group(1), [])
            if (int(m.group(2)), m.group(3)) not in notes[m.group(1)]:
                notes[m.group(1)].append((int(m.group(2)), m.group(3)))
        os.remove(path)
    missing = [t["id"] for t in traces if t["id"] not in verdicts]
    if missing:
        raise core.MachineryError(f"BuilderTrace gave no verdict for {missing[:3]} ({len(missing)} traces)")
    return verdicts, notes


def is_builder_trace(t: dict) -> bool:
    return str(t.get("kind", "")).startswith("builder/") and "b" in t.get("meta", {})


_OWN_SCRIPT = r'''
import numpy as np
import onnx_ir as ir
import onnxscript
from onnxscript import nn, script, FLOAT, INT64
from onnxscript import opset21 as op21
from onnxscript._internal import builder as B, _verif


def new_builder():
    g = ir.Graph(name="main", inputs=[], outputs=[], nodes=[], opset_imports={"": 21})
    return g, B.GraphBuilder(g)


class Lin(nn.Module):
    def __init__(s, name=None):
        super().__init__(name)
        s.w = nn.Parameter([2], dtype=ir.DataType.INT64, name="w", data=ir.tensor(np.array([2, 3], dtype=np.int64)))
        s.b = nn.Parameter([2], dtype=ir.DataType.INT64, name="b", data=ir.tensor(np.array([1, 1], dtype=np.int64)))

    def forward(s, op, x):
        return op.Add(op.Mul(x, s.w), s.b)


class Stack(nn.Module):
    def __init__(s, n, name=None):
        super().__init__(name)
        s.layers = nn.ModuleList([Lin() for _ in range(n)])
        s.head = nn.Sequential(Lin(), Lin())

    def forward(s, op, x):
        for l in s.layers:
            x = l(op, x)
        return op.Sub(s.head(op, x), 1)


class Root(nn.Module):
    def __init__(s):
        super().__init__("model")
        s.enc = Stack(2)
        s.dec = Stack(1)
        s.scale = nn.Parameter([2], dtype=ir.DataType.INT64, name="scale", data=ir.tensor(np.array([1, 2], dtype=np.int64)))

    def forward(s, op, x):
        return op.Mul(s.dec(op, s.enc(op, x)), s.scale)


# 1. a module tree of depth 4 with literals inside the modules
g, gb = new_builder()
x = gb.input("x", ir.DataType.INT64, [2])
gb.add_output(Root()(gb.op, x), "y")

# 2. literal mixes: the same number as int / float / bool / list, beside INT64 and FLOAT operands, in the root and in subgraphs
g, gb = new_builder()
op = gb.op
xi = gb.input("xi", ir.DataType.INT64, [2])
xf = gb.input("xf", ir.DataType.FLOAT, [2])
a = op.Add(xi, 1)
b = op.Add(xf, 1)
c = op.Add(xf, 1.0)
d = op.Mul(xi, 1)
e = op.Where(op.Equal(a, 1), True, False)
f = op.Unsqueeze(xi, [0])
h = op.Gather(f, 0, axis=1)
k = op.ReduceSum(xi, [0], keepdims=0)
r = op.Reshape(xi, [1, 2])
r2 = op.Reshape(xf, [2, 1])
r3 = op.Concat(op.Reshape(xi, [2]), [1, 2], axis=0)
cond = op.Less(k, 0)
t = op.If(cond,
          then_branch=gb.subgraph(lambda op: op.Add(a, 1), [], [B.make_value("t_out")], name="then"),
          else_branch=gb.subgraph(lambda op: op.Sub(op.Mul(a, 2), 1), [], [B.make_value("e_out")], name="else"))
for v, n in ((t, "t"), (b, "b"), (c, "c"), (d, "d"), (e, "e"), (h, "h"), (r, "r"), (r2, "r2"), (r3, "r3")):
    gb.add_output(v, n)

# 3. modules called inside a subgraph, with a scope pushed on the sub-builder
g, gb = new_builder()
x = gb.input("x", ir.DataType.INT64, [2])
lin = Lin("inner")
outer = Lin("outer")
y = outer(gb.op, x)


def body(op, i, cnd, s):
    return op.Identity(cnd), lin(op, s)


loop = gb.op.Loop(3, True, y, body=gb.subgraph(body, [B.make_value("i", INT64[...]), B.make_value("cnd", onnxscript.BOOL[...]), B.make_value("s", INT64[2])],
                                              [B.make_value("cnd_o"), B.make_value("s_o")], name="body"))
gb.add_output(loop, "z")

# 4. call / call_inline of a script function and of an ir.Function, with a prefix
@script()
def addmul(x: INT64["N"], y: INT64["N"]) -> INT64["N"]:
    return op21.Mul(op21.Add(x, y), y)


fn = B.build_function(lambda op, p, q: op.Sub(op.Mul(p, q), 1), [B.make_value("p"), B.make_value("q")], domain="local", name="MulSub1",
                      opset_imports={"": 21})
g, gb = new_builder()
x = gb.input("x", ir.DataType.INT64, [2])
y = gb.input("y", ir.DataType.INT64, [2])
u = gb.op.call(addmul, x, y)
v = gb.op.call_inline(addmul, x, y, _prefix="blk")
w = gb.op.call(fn, u, v)
w2 = gb.op.call_inline(fn, u, v, _outputs=["w2"])
gb.push_module("tail", "Tail")
z = gb.op.Add(w, w2)
gb.pop_module()
gb.add_output(z, "z")

# 5. build_graph as a root (no parent) with nested build_graph children
def outer_fn(op, x):
    inner = B.build_graph(lambda op2, q: op2.Add(q, 2), [B.make_value("q", INT64[2])], [B.make_value("qq", INT64[2])],
                          opset_imports={"": 21}, parent=op.builder, name="inner")
    return op.Scan(x, body=inner, num_scan_inputs=1)


B.build_graph(outer_fn, [B.make_value("x", INT64[3, 2])], [B.make_value("out", INT64[3, 2])], opset_imports={"": 21}, name="top")
_verif.abort_all()
'''


def _read(prefix: str) -> list[dict]:
    out = []
    for fpath in sorted(glob.glob(prefix + ".*")):
        with open(fpath) as fh:
            out += [json.loads(l) for l in fh if l.strip()]
        os.remove(fpath)
    return [t for t in out if is_builder_trace(t)]


def collect_own() -> list[dict]:
    d = core.scratch()
    prefix = os.path.join(d, "bldtrace_own")
    sp = os.path.join(d, "bldtrace_own_script.py")
    with open(sp, "w") as f:
        f.write(_OWN_SCRIPT)
    env = dict(os.environ, ONNXSCRIPT_VERIF="1", ONNXSCRIPT_VERIF_TRACE=prefix, PYTHONHASHSEED="0")
    p = subprocess.run([sys.executable, sp], env=env, capture_output=True, text=True, timeout=600)
    if p.returncode != 0:
        raise core.MachineryError(f"bldtrace own drivers: {p.stderr[-2000:]}")
    out = _read(prefix)
    for i, t in enumerate(out):
        t["id"] = f"own/{i}"
    return out


def collect_pytest(timeout: int = 1500) -> tuple[list[dict], str]:
    prefix = os.path.join(core.scratch(), "bldtrace_pytest")
    env = dict(os.environ, ONNXSCRIPT_VERIF="1", ONNXSCRIPT_VERIF_TRACE=prefix, PYTHONHASHSEED="0")
    cmd = [sys.executable, "-m", "pytest", "-q", "-p", "no:cacheprovider", "--timeout=600", "onnxscript/_internal/builder_test.py", "onnxscript/nn"]
    p = subprocess.run(cmd, cwd=core.REPO, env=env, capture_output=True, text=True, timeout=timeout)
    tail = re.sub(r"\x1b\[[0-9;]*m", "", (p.stdout.strip().splitlines() or [""])[-1])
    out = [t for t in _read(prefix) if len(t["events"]) <= 400]
    for i, t in enumerate(out):
        t["id"] = f"pytest/{i}"
    return out, tail


def _selftest(traces: list[dict]) -> list[dict]:
    out = []

    def pick(pred):
        return next((t for t in traces if pred(t)), None)

    # (a) a parameter registered under a name that is not its scope path
    t = pick(lambda t: any(e["ev"] == "Param" for e in t["events"]))
    if t:
        c = copy.deepcopy(t)
        e = next(e for e in c["events"] if e["ev"] == "Param")
        e["name"] = "x." + e["name"]
        c["id"] = "selftest/param_name_not_scope_path"
        out.append(c)
    # (b) a Pop event dropped: the scope metadata of a later node no longer equals the stack
    t = pick(lambda t: any(e["ev"] == "Pop" and any(f["ev"] == "Node" for f in t["events"][i + 1:]) for i, e in enumerate(t["events"])))
    if t:
        c = copy.deepcopy(t)
        k = next(i for i, e in enumerate(c["events"]) if e["ev"] == "Pop" and any(f["ev"] == "Node" for f in c["events"][i + 1:]))
        del c["events"][k]
        c["id"] = "selftest/dropped_pop_event"
        out.append(c)
    # (c) a cache hit for a key that stands for another literal
    t = pick(lambda t: sum(1 for e in t["events"] if e["ev"] == "Const" and not e["hit"]) >= 2)
    if t:
        c = copy.deepcopy(t)
        miss = [e for e in c["events"] if e["ev"] == "Const" and not e["hit"]]
        miss[1]["key"] = miss[0]["key"]
        miss[1]["hit"] = True
        miss[1]["value"] = miss[0]["value"]
        c["id"] = "selftest/two_literals_one_key"
        out.append(c)
    # (d) a node reading a value defined only in a sibling subgraph
    t = pick(lambda t: sum(1 for e in t["events"] if e["ev"] == "Child") >= 2 and any(e["ev"] == "Node" for e in t["events"]))
    if t:
        c = copy.deepcopy(t)
        childs = [e["b"] for e in c["events"] if e["ev"] == "Child"]
        first_out = next((e["outs"][0] for e in c["events"] if e["ev"] == "Node" and e["b"] == childs[0] and e["outs"]), None)
        victim = next((e for e in c["events"] if e["ev"] == "Node" and e["b"] == childs[1] and e["ins"]), None)
        if first_out and victim:
            victim["ins"][0] = first_out
            c["id"] = "selftest/reads_a_sibling_subgraph_value"
            out.append(c)
    # (e) an initializer registered twice under one name
    t = pick(lambda t: sum(1 for e in t["events"] if e["ev"] == "Init") >= 2)
    if t:
        c = copy.deepcopy(t)
        ini = [e for e in c["events"] if e["ev"] == "Init"]
        ini[1]["name"] = ini[0]["name"]
        ini[1]["requested"] = ini[0]["requested"]
        c["id"] = "selftest/initializer_registered_twice"
        out.append(c)
    return out


def stage(ctx, case_traces: list[dict], owner: str = "C18"):
    """case_traces: traces returned by the C18 workers; each may carry 'allowed_findings' (the deviations the implementation
    model predicts for that case)."""
    tests, tail = collect_pytest()
    own = collect_own()
    if len(own) < 5:
        raise core.MachineryError(f"too few recorded builder traces from the hand-written drivers ({len(own)}); are the hooks in builder.py present?")
    if len(tests) < 40:
        raise core.MachineryError(f"too few recorded builder traces from the repository tests ({len(tests)}: {tail})")
    for i, t in enumerate(case_traces):
        t.setdefault("id", f"case/{i}")
    allt = own + tests + list(case_traces)
    self_t = _selftest(own)
    verdicts, notes = validate(ctx, allt + self_t, owner)
    if len(self_t) < 5:
        raise core.MachineryError(f"binding self-test: only {len(self_t)} corruptions could be built from the hand-written drivers")
    for t in self_t:
        if verdicts[t["id"]][0] == 0:
            raise core.MachineryError(f"binding self-test: corrupted trace {t['id']} was accepted")
    tot = [sum(verdicts[t["id"]][2][k] for t in allt) for k in range(4)]
    if tot[0] == 0 or tot[1] == 0 or tot[2] == 0 or tot[3] == 0:
        raise core.MachineryError(f"vacuous builder traces: nodes/constants/initializers/scopes = {tot}")
    soft_counts: dict[str, int] = {}
    for t in allt:
        idx, clause, _ = verdicts[t["id"]]
        rej = [] if idx == 0 else [(idx, clause, None)]
        allowed = set(t.get("allowed_findings") or [])
        for i, c in notes.get(t["id"], []):
            expl = [f for f in SOFT.get(c, []) if f in allowed]
            # generated names restart in every subgraph: the listed finding subgraph_name_reuse is a property of the naming
            # scheme itself (every trace with two graphs that generate the same name), independent of the case
            if not expl and "subgraph_name_reuse" in SOFT.get(c, []):
                expl = ["subgraph_name_reuse"]
            # a parameter realized from a sub-builder whose scope differs from the root's and named by the ROOT's scope (the hard
            # clause param_name_is_a_dotted_scope_path held) is by definition the listed finding param_subgraph_scope
            if not expl and c == "param_name_is_the_dotted_path_of_the_calling_scope":
                expl = ["param_subgraph_scope"]
            rej.append((i, c, expl[0] if expl else None))
            soft_counts[c] = soft_counts.get(c, 0) + 1
        for idx, clause, finding in rej:
            ev = t["events"][idx - 1] if 0 < idx <= len(t["events"]) else {"ev": "End"}
            ctx.report({"trace": t["id"], "event_index": idx, "event": ev, "clause": clause, "trace_full": {k: v for k, v in t.items() if k != "allowed_findings"}},
                       f"recorded builder trace {t['id']} rejected by BuilderApply.tla at event {idx} ({ev.get('ev')}): clause {clause} does not hold; "
                       f"event {json.dumps(ev)[:500]}", finding=finding)
    ctx.add("traces_validated_against_impl", len(allt))
    ctx.set("builder_traces", {"repository_tests": len(tests), "repository_tests_result": tail, "hand_written_drivers": len(own),
                               "generated_cases": len(case_traces), "nodes_executed_by_spec": tot[0], "constant_lookups_executed_by_spec": tot[1],
                               "initializers_and_parameters_executed_by_spec": tot[2], "scopes_pushed": tot[3],
                               "open_prefixes": sum(1 for t in allt if verdicts[t["id"]][1] == "open_prefix_consistent"),
                               "soft_clause_notes": soft_counts,
                               "selftest_corruptions_rejected": {t["id"]: verdicts[t["id"]][1] for t in self_t}})
