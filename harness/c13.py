"""C13 - ONNX -> Python (proto2python) -> ONNX round-trips to an equivalent model.

spec/Export.tla generates abstract ONNX graphs (straight-line nodes, constants of several value
kinds, initializers, attribute-reference constants, If and the Loop forms, nested), an export
configuration (ModelProto / FunctionProto, the four options, ONNX names that need clean-up or
collide after clean-up, declared types) and runs a step-by-step model of onnx_export._Exporter,
the acceptance test of onnxscript.script and Python's semantics on the exported program.  For every
case TLC prints the graph, the expected outputs (Eval), the outcome class of the design (no
deviation; must be "ok": invariant DesignOK), of the implementation model (all deviations) and of
every single deviation alone.

This harness (direction A) concretises every TLC case into a real ModelProto / FunctionProto, runs
ORT on the original, proto2python, exec, to_model_proto(), ORT on the result and classifies the
real outcome: ok / raise / noconv (text not exec-able, not convertible or not loadable) / diff.
  property (as stated): outcome ok.  Anything else is reported; the deviation id is the one the
  implementation model blames for the same outcome class (KNOWN-FINDING if listed, else VIOLATION).
  model vs code: outcome class differs -> SPEC-MISMATCH (warning only).
Extra families without a TLC model (expected outcome = the property itself): script functions
(the documented round trip), the use_operators table, declared tensor types, models outside the
supported class (must raise or still be faithful).
"""
from __future__ import annotations

import importlib
import json
import os
import random
import sys
import zlib

import numpy as np

from . import core

LEVEL = "model_checking"

OPTS = ("rename", "use_operators", "inline_const", "skip_initializers")
# when several deviations explain an outcome class, blame in this order (export-time first)
PRIORITY = [
    "for_loop_no_scope", "skip_init_indent", "rename_signature", "init_double_rename", "loop_break_form",
    "inline_const_nonref", "inline_init_key", "inline_nan_inf", "attr_nonfinite_repr", "no_default_opset", "dead_if_refused",
    "loop_state_seq_copy", "infix_neg_literal_pow", "cleanup_collision",
]

# ------------------------------------------------------------------ gamma: abstract case -> protos
TOKENS = {  # name -> (onnx dtype letter, dims, values)   (Export.tla!Tok)
    "c1": ("f", [], [1.0]), "c2": ("f", [], [2.0]), "c4": ("f", [], [4.0]), "cm1": ("f", [], [-1.0]),
    "cnan": ("f", [], [float("nan")]), "cinf": ("f", [], [float("inf")]), "cninf": ("f", [], [float("-inf")]),
    "cv": ("f", [2], [1.0, 2.0]), "ci3": ("i", [], [3]),
    "w0": ("f", [], [5.0]), "w6": ("f", [6], [1.0, 2.0, 3.0, 4.0, 5.0, 6.0]),
}
ATTR_TOKENS = {"af2": 2.0, "afinf": float("inf")}
OPMAP = {"RSum": "ReduceSum"}
DOMAIN = "c13dom"
GNAME = "c13g"
FNAME = "c13f"


def _onnx():
    import onnx
    from onnx import TensorProto as TP, helper as h

    return onnx, TP, h


def _dt(letter):
    _, TP, _ = _onnx()
    return {"f": TP.FLOAT, "v": TP.FLOAT, "i": TP.INT64, "b": TP.BOOL}[letter]


class Gamma:
    def __init__(self, case):
        self.case = case
        self.name = {e[0]: "".join(e[1]) for e in case["names"]}
        self.clean = {e[0]: "".join(e[2]) for e in case["names"]}
        self.ty = {"X": "f", "N": "i", "B": "b"}
        for i, t in enumerate(case["tys"]):
            self.ty[f"t{i + 1}"] = t
        # attribute order of If nodes alternates between cases (both orders are legal)
        self.flip = zlib.crc32(json.dumps(case["items"], sort_keys=True).encode()) & 1

    def vi(self, vid, name=None, declared=False):
        """value_info of a value; declared=True: with the declared type of the case (X and the graph outputs)"""
        _, _, h = _onnx()
        t = self.ty[vid]
        shape = [] if t != "v" else [None]
        if declared:
            shape = self.declared_shape()
        return h.make_tensor_value_info(name or self.name[vid], _dt(t), shape)

    def declared_shape(self):
        x = self.case["xty"]
        if x["form"] == "scalar":
            return []
        if x["form"] == "anyrank":
            return None
        return [d["v"] if d["k"] == "val" else ("N" if d["k"] == "sym" else None) for d in x["dims"]]

    def runtime_shape(self):
        x = self.case["xty"]
        if x["form"] != "dims":
            return ()
        return tuple(d["v"] if d["k"] == "val" else (3 if d["k"] == "sym" else 2) for d in x["dims"])

    def tensor(self, tok, name="value"):
        _, _, h = _onnx()
        dt, dims, vals = TOKENS[tok]
        return h.make_tensor(name, _dt(dt), dims, vals)

    def node(self, n):
        onnx, TP, h = _onnx()
        nm = self.name
        k = n["k"]
        if k == "op":
            op = n["op"]
            ins = [nm[i] for i in n["ins"]]
            if op == "Cast":
                return h.make_node("Cast", ins, [nm[n["out"]]], to=TP.FLOAT)
            if op == "RSum":
                return h.make_node("ReduceSum", ins, [nm[n["out"]]], keepdims=0)
            return h.make_node(op, ins, [nm[n["out"]]])
        if k == "const":
            if n["tok"] in ATTR_TOKENS:
                return h.make_node("Constant", [], [nm[n["out"]]], value_float=ATTR_TOKENS[n["tok"]])
            return h.make_node("Constant", [], [nm[n["out"]]], value=self.tensor(n["tok"]))
        if k == "attrconst":
            node = h.make_node("Constant", [], [nm[n["out"]]])
            node.attribute.append(onnx.AttributeProto(name="value_float", ref_attr_name="k", type=onnx.AttributeProto.FLOAT))
            return node
        if k == "if":
            th = h.make_graph([self.node(x) for x in n["th"]["nodes"]], "thenG", [], [self.vi(o) for o in n["th"]["outs"]])
            el = h.make_graph([self.node(x) for x in n["el"]["nodes"]], "elseG", [], [self.vi(o) for o in n["el"]["outs"]])
            node = h.make_node("If", [nm[n["cond"]]], [nm[o] for o in n["outs"]])
            pairs = [("then_branch", th), ("else_branch", el)]
            if self.flip:
                pairs.reverse()
            for a, g in pairs:
                node.attribute.append(h.make_attribute(a, g))
            return node
        if k == "loop":
            b = n["body"]
            body = h.make_graph(
                [self.node(x) for x in b["nodes"]], "loopG",
                [self.vi(b["iter"]), self.vi(b["cin"])] + [self.vi(s) for s in b["sins"]],
                [self.vi(b["cout"])] + [self.vi(s) for s in b["souts"]],
            )
            ins = [nm[n["trip"]] if n["trip"] else "", nm[n["cond"]] if n["cond"] else ""] + [nm[i] for i in n["inits"]]
            return h.make_node("Loop", ins, [nm[o] for o in n["outs"]], body=body)
        raise core.MachineryError(f"unknown node kind {k}")

    def nodes(self):
        return [self.node(n) for n in self.case["items"]]

    def feeds_list(self):
        return [
            {"X": np.full(self.runtime_shape(), x, dtype=np.float32), "N": np.array(n, dtype=np.int64), "B": np.array(b, dtype=np.bool_)}
            for x, n, b in ((-2, 0, False), (1, 2, True), (3, 3, True))      # Export.tla!TV
        ]

    def model(self):
        """-> (original model to run, object to export, initializer arrays that skip_initializers skips)"""
        onnx, TP, h = _onnx()
        c = self.case
        if c["kind"] == "model":
            inits = [self.tensor(i["tok"], self.name[i["id"]]) for i in c["inits"]]
            g = h.make_graph(
                self.nodes(), GNAME,
                [self.vi("X", declared=True), self.vi("N"), self.vi("B")],
                [self.vi(o, declared=True) for o in c["outs"]], initializer=inits,
            )
            m = h.make_model(g, opset_imports=[h.make_opsetid("", 18)])
            m.ir_version = 8
            big = [onnx.numpy_helper.to_array(t) for t in inits if int(np.prod(t.dims)) > 4]
            return m, m, big
        fp = h.make_function(
            DOMAIN, FNAME, [self.name["X"], self.name["N"], self.name["B"]], [self.name[o] for o in c["outs"]],
            self.nodes(), [h.make_opsetid("", 18)], attributes=["k"] if c["attr"] else [],
        )
        return self.wrap(fp), fp, []

    def wrap(self, fp):
        """a model with one call of the function (typed inputs X, N, B)"""
        _, _, h = _onnx()
        c = self.case
        outs = [f"o{j}" for j in range(len(c["outs"]))]
        node = h.make_node(fp.name, ["X", "N", "B"], outs, domain=fp.domain, **({"k": 2.0} if c["attr"] else {}))
        g = h.make_graph(
            [node], "wrapG", [self.vi("X", "X"), self.vi("N", "N"), self.vi("B", "B")],
            [h.make_tensor_value_info(o, _dt(self.ty[v]), []) for o, v in zip(outs, c["outs"])],
        )
        m = h.make_model(g, opset_imports=[h.make_opsetid("", 18), h.make_opsetid(fp.domain, 1)], functions=[fp])
        m.ir_version = 8
        return m


# ------------------------------------------------------------------ running things
_MODN = [0]


class Loaded:
    """exec the generated text as a real module file (script() needs inspect.getsource, also later, when
    make_model() defines the script function); the file and the module entry live until close()."""

    def __init__(self, code: str):
        d = core.scratch_sub("c13mods")
        _MODN[0] += 1
        self.name = f"c13m_{os.getpid()}_{_MODN[0]}"
        self.path = os.path.join(d, self.name + ".py")
        with open(self.path, "w") as fh:
            fh.write(code)
        if d not in sys.path:
            sys.path.insert(0, d)
        self.mod = None
        try:
            compile(code, self.path, "exec")          # SyntaxError / IndentationError: not valid Python
            self.mod = importlib.import_module(self.name)
        except BaseException:
            self.close()
            raise

    def close(self):
        sys.modules.pop(self.name, None)
        try:
            os.remove(self.path)
        except OSError:
            pass


def pick_function(mod, name):
    import onnxscript

    f = mod.__dict__.get(name)
    if isinstance(f, onnxscript.OnnxFunction):
        return f
    fs = [v for v in mod.__dict__.values() if isinstance(v, onnxscript.OnnxFunction)]
    if not fs:
        raise RuntimeError("the generated module defines no script function")
    return fs[-1]


def enc(a):
    """array -> spec value (scalar or 1-element)"""
    a = np.asarray(a)
    if a.dtype == np.bool_:
        return {"k": "b", "v": int(bool(a.reshape(-1)[0]))}
    v = float(a.reshape(-1)[0])
    if np.isnan(v):
        return {"k": "nan", "v": 0}
    if np.isinf(v):
        return {"k": "inf", "v": 1 if v > 0 else -1}
    if v != int(v):
        return {"k": "frac", "v": v}
    return {"k": "n", "v": int(v)}


def agrees(a, v):
    """every element of the array is the spec value v (an empty array agrees with everything)"""
    a = np.asarray(a)
    return all(enc(x) == v for x in a.reshape(-1))


def xty_text(x):
    if x["form"] != "dims":
        return x["form"]
    return "[" + ",".join(str(d["v"]) if d["k"] == "val" else ("'N'" if d["k"] == "sym" else "None") for d in x["dims"]) + "]"


def value_info_diff(m2, orig):
    """a value_info of the round-tripped model whose (cleaned) name is a value_info of the original must carry the
    same type and shape (value_infos are only exported together with skipped initializers)"""
    from onnxscript.backend import onnx_export

    def one(vi):
        t = vi.type.tensor_type
        shape = None
        if t.HasField("shape"):
            shape = tuple(d.dim_value if d.HasField("dim_value") else (d.dim_param if d.HasField("dim_param") else None) for d in t.shape.dim)
        return (t.elem_type, shape)

    want = {onnx_export._cleanup_variable_name(v.name): one(v) for v in orig.graph.value_info}
    for v in m2.graph.value_info:
        if v.name in want and v.type.HasField("tensor_type") and one(v) != want[v.name]:
            return f"value_info {v.name}: {one(v)} instead of {want[v.name]}"
    return None


def sig_of(model, function_kind=False):
    def one(vi):
        t = vi.type.tensor_type
        if not vi.type.HasField("tensor_type"):
            return ("nontensor",)
        shape = None
        if t.HasField("shape"):
            shape = tuple(d.dim_value if d.HasField("dim_value") else (d.dim_param if d.HasField("dim_param") else None) for d in t.shape.dim)
        return (t.elem_type, shape)

    return [one(v) for v in model.graph.input], [one(v) for v in model.graph.output]


_ORIG_CACHE: dict = {}


class Hang(Exception):
    pass


RUN_TIMEOUT_S = 10.0


def run_model(model, feeds_list, positional=None):
    """run on every feed; inputs are fed by position (names change in the round trip).  A run that does not
    finish (a loop whose condition never changes) is stopped through ORT's terminate flag -> Hang."""
    import threading

    import onnxruntime as ort

    sess = core.ort_session(model)
    names = [i.name for i in sess.get_inputs()]
    outs = []
    for feeds in feeds_list:
        vals = list(feeds.values()) if positional is None else positional(feeds)
        if len(vals) != len(names):
            raise RuntimeError(f"model takes {len(names)} inputs, original {len(vals)}")
        ro = ort.RunOptions()
        fired = []

        def stop(ro=ro, fired=fired):
            fired.append(1)
            ro.terminate = True

        t = threading.Timer(RUN_TIMEOUT_S, stop)
        t.start()
        try:
            outs.append(sess.run(None, dict(zip(names, vals)), ro))
        except Exception:
            if fired:
                raise Hang(f"the model does not terminate within {RUN_TIMEOUT_S}s") from None
            raise
        finally:
            t.cancel()
    return outs


def same_outputs(a, b):
    if len(a) != len(b):
        return False
    for ra, rb in zip(a, b):
        if len(ra) != len(rb):
            return False
        for x, y in zip(ra, rb):
            if not core.same_array(x, y):
                return False
    return True


def round_trip(obj, orig_model, feeds_list, opts, *, function=None, big=(), main_name=None, wrap=None, keep_text=False):
    """The observable of the property.  Returns dict(cls=ok|raise|noconv|diff, stage, msg, [code])."""
    import onnxscript

    out = {"cls": "ok", "stage": "", "msg": ""}
    try:
        code = onnxscript.proto2python(obj, **opts)
    except Exception as e:  # noqa: BLE001
        return {"cls": "raise", "stage": "export", "msg": f"{type(e).__name__}: {str(e)[:200]}"}
    if keep_text:
        out["code"] = code
    try:
        ld = Loaded(code)
    except SyntaxError as e:
        return {**out, "cls": "noconv", "stage": "syntax", "msg": f"{type(e).__name__}: {str(e)[:200]}"}
    except Exception as e:  # noqa: BLE001
        return {**out, "cls": "noconv", "stage": "exec", "msg": f"{type(e).__name__}: {str(e)[:300]}"}
    try:
        mod = ld.mod
        if "make_model" in mod.__dict__:
            m2 = mod.make_model(*big)
        else:
            f = pick_function(mod, main_name)
            m2 = wrap(f.to_function_proto()) if wrap is not None else f.to_model_proto()
    except Exception as e:  # noqa: BLE001
        return {**out, "cls": "noconv", "stage": "convert", "msg": f"{type(e).__name__}: {str(e)[:300]}"}
    finally:
        ld.close()
    try:
        r2 = run_model(m2, feeds_list)
    except Hang as e:
        return {**out, "cls": "diff", "stage": "hang", "msg": str(e)}
    except Exception as e:  # noqa: BLE001
        return {**out, "cls": "noconv", "stage": "ort", "msg": f"{type(e).__name__}: {str(e)[:300]}"}
    key = orig_model.SerializeToString()
    r1 = _ORIG_CACHE.get(key)
    if r1 is None:
        r1 = run_model(orig_model, feeds_list)
        if len(_ORIG_CACHE) > 64:
            _ORIG_CACHE.clear()
        _ORIG_CACHE[key] = r1
    if sig_of(m2) != sig_of(orig_model):
        return {**out, "cls": "diff", "stage": "signature", "msg": f"graph inputs/outputs {sig_of(m2)} instead of {sig_of(orig_model)}"}
    vd = value_info_diff(m2, orig_model)
    if vd:
        return {**out, "cls": "diff", "stage": "signature", "msg": vd}
    if not same_outputs(r1, r2):
        # a difference must be reproducible: run the round-tripped model once more in a fresh session
        try:
            r2b = run_model(m2, feeds_list)
        except Exception:  # noqa: BLE001
            r2b = None
        if r2b is None or not same_outputs(r2, r2b):
            if r2b is not None and same_outputs(r1, r2b):
                return {**out, "unstable": True}
            return {"discard": "the runtime gives different results for the same round-tripped model on repeated runs"}
        return {**out, "cls": "diff", "stage": "value",
                "msg": f"outputs {[[np.asarray(x).tolist() for x in r] for r in r2]} instead of {[[np.asarray(x).tolist() for x in r] for r in r1]}"}
    return out


def case_opts(case):
    return {"rename": case["rename"], "use_operators": case["useops"], "inline_const": case["inline"], "skip_initializers": case["skip"]}


def replay_case(case, keep_text=False):
    """worker: one TLC case -> real outcome (+ cross-checks of the spec's own parts)"""
    import onnxruntime as ort

    ort.set_default_logger_severity(4)
    try:
        gm = Gamma(case)
        orig, obj, big = gm.model()
        feeds = gm.feeds_list()
        res = {"spec_eval": None, "clean_ok": True}
        # (a) Clean == _cleanup_variable_name on every name of the case
        from onnxscript.backend import onnx_export

        for e in case["names"]:
            real = onnx_export._cleanup_variable_name("".join(e[1]))
            if real != "".join(e[2]):
                res["clean_ok"] = False
                res["clean_msg"] = f"_cleanup_variable_name({''.join(e[1])!r}) = {real!r}, Export.tla!Clean gives {''.join(e[2])!r}"
        # (b) Eval == ORT on the original
        try:
            key = orig.SerializeToString()
            r1 = _ORIG_CACHE.get(key)
            if r1 is None:
                r1 = run_model(orig, feeds)
                if len(_ORIG_CACHE) > 64:
                    _ORIG_CACHE.clear()
                _ORIG_CACHE[key] = r1
        except Exception as e:  # noqa: BLE001
            return {"discard": f"ORT refuses the original: {type(e).__name__}: {str(e)[:200]}"}
        res["spec_eval"] = all(
            len(r) == len(e) and all(agrees(x, v) for x, v in zip(r, e)) for r, e in zip(r1, case["expected"])
        ) and len(r1) == len(case["expected"])
        if not res["spec_eval"]:
            res["eval_msg"] = f"ORT(original) = {[[np.asarray(x).tolist() for x in r] for r in r1]}, Eval = {case['expected']}"
        rt = round_trip(obj, orig, feeds, case_opts(case), big=big,
                        main_name=GNAME if case["kind"] == "model" else FNAME,
                        wrap=gm.wrap if case["kind"] == "function" else None, keep_text=keep_text)
        if "discard" in rt:
            return rt
        res.update(rt)
        return res
    except core.MachineryError:
        raise
    except Exception as e:  # noqa: BLE001
        import traceback

        return {"harness_error": f"{type(e).__name__}: {e}\n{traceback.format_exc()[-1500:]}"}


def replay_chunk(cases):
    return [replay_case(c) for c in cases]


# ------------------------------------------------------------------ TLC
def parse_cases(out: str):
    cases = []
    for line in out.splitlines():
        if line.startswith('"C13CASE '):
            s = json.loads(line)
            cases.append(json.loads(s[len("C13CASE "):]))
    return cases


def tlc_cases(ctx):
    cfg = "Export_quick.cfg" if ctx.quick else "Export_thorough.cfg"
    res = core.run_tlc("Export", cfg, timeout=3000, seed=ctx.seed)
    ctx.tlc(res, cfg)
    if not res.ok:
        raise core.MachineryError(f"TLC reports {res.violated} on {cfg} (design-level property or model consistency):\n{res.out[-2500:]}")
    # the invariants can fail: the implementation model violates the property, and success is reachable
    for wcfg, what in (("Export_canfail.cfg", "ImplOK (the property on the implementation model) is never violated"),
                       ("Export_vacuity.cfg", "no successfully round-tripped model with control flow is reachable")):
        w = core.run_tlc("Export", wcfg, timeout=900, seed=ctx.seed)
        ctx.tlc(w, wcfg)
        if w.ok:
            raise core.MachineryError(f"vacuity: {what} ({wcfg})")
    if not ctx.quick:
        # the guards that decide for which deviations `alone` is evaluated are sound
        gs = core.run_tlc("Export", "Export_guards.cfg", timeout=3000, seed=ctx.seed)
        ctx.tlc(gs, "Export_guards.cfg")
        if not gs.ok:
            raise core.MachineryError(f"Export.tla!GuardsSound fails: {gs.out[-1500:]}")
    cases = parse_cases(res.out)
    if not cases:
        raise core.MachineryError("TLC printed no cases")
    cases.sort(key=lambda c: json.dumps(c, sort_keys=True))      # TLC's workers print in no particular order
    return cases


def graph_key(c):
    return json.dumps([c["items"], c["inits"], c["outs"], c["names"], c["kind"], c["xty"]], sort_keys=True)


def short(c):
    def nd(n):
        if n["k"] == "op":
            return n["op"]
        if n["k"] == "const":
            return "Const:" + n["tok"]
        if n["k"] == "attrconst":
            return "Const@k"
        if n["k"] == "if":
            return "If(" + ",".join(nd(x) for x in n["th"]["nodes"]) + "|" + ",".join(nd(x) for x in n["el"]["nodes"]) + ")"
        b = n["body"]
        return f"Loop[{'N' if n['trip'] else ''}{'c' if n['cond'] else ''}x{len(n['inits'])}](" + ",".join(nd(x) for x in b["nodes"]) + ")"

    special = {e[0]: "".join(e[1]) for e in c["names"] if "".join(e[1]) not in (e[0], "t" + e[0][1:])}
    opts = "+".join(k for k, v in case_opts(c).items() if v) or "default"
    return {"kind": c["kind"], "graph": [nd(n) for n in c["items"]] + [f"init:{i['tok']}" for i in c["inits"]],
            "names": special, "options": opts, "xty": xty_text(c["xty"])}


def coarse(cls):
    """Whether a wrong program is refused by the converter / the runtime ("noconv") or runs and computes something
    else ("diff") depends on type inference in the converter and in ORT, which Export.tla only approximates:
    model and code are compared on ok / raise / bad."""
    return "bad" if cls in ("noconv", "diff") else cls


def blame(case, cls):
    alone = {d: k for d, k in case["alone"]}
    for want in (lambda k: k == cls, lambda k: coarse(k) == coarse(cls)):
        for d in PRIORITY:
            if d in alone and want(alone[d]):
                return d
    return None


def run_tlc_family(ctx):
    cases = tlc_cases(ctx)
    ctx.set("spec_cases", len(cases))
    classes = {}
    for c in cases:
        classes[c["impl"]] = classes.get(c["impl"], 0) + 1
    ctx.set("spec_outcome_classes", classes)
    for k in ("ok", "raise", "noconv", "diff"):
        if not classes.get(k):
            raise core.MachineryError(f"vacuity: the implementation model never has outcome {k!r}")
    if any(c["design"] != "ok" for c in cases):
        raise core.MachineryError("design-level outcome is not ok for some printed case")
    rng = random.Random(ctx.seed)
    if ctx.quick and len(cases) > QUICK_REPLAYS:
        # stratified sample: the same share for every blamed deviation (all of its cases if there are few)
        groups: dict = {}
        for c in cases:
            key = (blame(c, c["impl"]) if c["impl"] != "ok" else "ok", c["special"], c["kind"], c["xty"]["form"],
                   any("".join(e[1]) == "k.0" for e in c["names"]))
            groups.setdefault(key, []).append(c)
        for k in sorted(groups, key=str):
            rng.shuffle(groups[k])
        per = QUICK_REPLAYS // len(groups)
        chosen, left = [], []
        for k in sorted(groups, key=str):
            chosen += groups[k][:per]
            left += groups[k][per:]
        rng.shuffle(left)
        cases = chosen + left[: max(0, QUICK_REPLAYS - len(chosen))]
        ctx.set("exhaustive", False)
    else:
        ctx.set("exhaustive", True)
    cases.sort(key=graph_key)
    chunks = [cases[i : i + 24] for i in range(0, len(cases), 24)]
    results = [r for ch in core.pmap(replay_chunk, chunks, chunksize=1) for r in ch]
    nontriv = set()
    mism = 0
    discarded = 0
    for c, r in zip(cases, results):
        if "harness_error" in r:
            raise core.MachineryError(f"harness failed on {short(c)}: {r['harness_error']}")
        if "discard" in r:
            discarded += 1
            continue
        ctx.add("evaluations")
        ctx.add("traces_validated_against_impl")
        sc = short(c)
        sc.update(model=c["impl"], real=r["cls"])
        ctx.sample(sc)
        if not r["clean_ok"]:
            mism += 1
            if mism <= 25:
                print(f"SPEC-MISMATCH C13 clean-up table: {r['clean_msg']}")
        if r["spec_eval"] is False:
            raise core.MachineryError(f"Export.tla!Eval disagrees with ORT on the original model {sc}: {r['eval_msg']}")
        if c["cf"] >= 1 or c["special"] or any(case_opts(c).values()):
            nontriv.add(graph_key(c) + json.dumps(case_opts(c)))
        if coarse(r["cls"]) != coarse(c["impl"]):
            mism += 1
            if mism <= 25:
                print(f"SPEC-MISMATCH C13 {sc}: model says {c['impl']} ({[d for d, _ in c['alone']]}), code gives {r['cls']} [{r['stage']}] {r['msg'][:160]}")
        if r["cls"] != "ok":
            finding = blame(c, r["cls"]) if coarse(r["cls"]) == coarse(c["impl"]) else None
            ctx.report({"family": "tlc", "case": c, "summary": sc},
                       f"{sc['kind']} {sc['graph']} names={sc['names']} options={sc['options']}: round trip is {r['cls']} at {r['stage']}: {r['msg']}",
                       finding=finding)
    ctx.set("distinct_nontrivial", len(nontriv))
    ctx.set("discarded_original_not_runnable", discarded)
    ctx.set("model_impl_mismatches", mism)
    if discarded > len(cases) // 10:
        raise core.MachineryError(f"{discarded} of {len(cases)} generated models are refused by ORT")


QUICK_REPLAYS = 5000

# ------------------------------------------------------------------ families without a TLC model
SCRIPT_SRC = '''
from onnxscript import script, FLOAT, INT64, BOOL
from onnxscript import opset18 as op

@script()
def sf_if(X: FLOAT[...]) -> FLOAT[...]:
    if op.ReduceSum(X) > 0.0:
        Y = X + 1.0
    else:
        Y = op.Neg(X)
    return Y

@script()
def sf_if_const(X: FLOAT[...]) -> FLOAT[...]:
    if op.ReduceSum(X) > 0.0:
        Y = X * 2.0
    else:
        Y = op.Constant(value_float=2.0)
    return Y

@script()
def sf_for(X: FLOAT[...], N: INT64) -> FLOAT[...]:
    S = op.Identity(X)
    for i in range(N):
        S = op.Add(S, X)
    return S

@script()
def sf_for_const(X: FLOAT[...]) -> FLOAT[...]:
    S = op.Constant(value_float=0.0)
    for i in range(4):
        S = S + X
    return S

@script()
def sf_for_two(X: FLOAT[...], N: INT64) -> FLOAT[...]:
    A = op.Identity(X)
    B = op.Neg(X)
    for i in range(N):
        T = A + B
        B = op.Identity(A)
        A = T * 2.0
    return A - B

@script()
def sf_while(X: FLOAT[...]) -> FLOAT[...]:
    c = op.ReduceSum(X) < 100.0
    while c:
        X = X + X
        c = op.ReduceSum(X) < 100.0
    return X

@script()
def sf_break(X: FLOAT[...]) -> FLOAT[...]:
    for i in range(10):
        X = X + X
        c = op.ReduceSum(X) > 100.0
        if c:
            break
    return X

@script()
def sf_nested(X: FLOAT[...], N: INT64) -> FLOAT[...]:
    S = op.Identity(X)
    for i in range(N):
        if op.ReduceSum(S) > 10.0:
            S = S - X
        else:
            S = S + X + X
    return S

@script()
def sf_pow(X: FLOAT[...]) -> FLOAT[...]:
    M = op.Constant(value_float=-1.0)
    return op.Pow(M, op.Abs(X)) + op.Pow(X, 2.0)

@script()
def sf_attr(X: FLOAT[...], alpha: float) -> FLOAT[...]:
    return X * alpha + op.Constant(value_float=alpha)

@script()
def sf_attr_if(X: FLOAT[...], alpha: float) -> FLOAT[...]:
    if op.ReduceSum(X) > 0.0:
        Y = X + op.Constant(value_float=alpha)
    else:
        Y = op.Identity(X)
    return Y

@script()
def sf_attr_loop(X: FLOAT[...], N: INT64, n: int) -> FLOAT[...]:
    S = op.Identity(X)
    for i in range(N):
        S = S + op.Cast(op.Constant(value_int=n), to=1)
    return S

@script()
def sf_attr_both(X: FLOAT[...], alpha: float, label: str) -> FLOAT[...]:
    T = X * op.Constant(value_float=alpha)
    if op.ReduceSum(X) > 0.0:
        Y = T + op.Cast(op.Constant(value_string=label), to=1)
    else:
        Y = T - op.Constant(value_float=alpha)
    return Y

@script()
def sf_attr_default(X: FLOAT[...], alpha: float = 2.0) -> FLOAT[...]:
    return X * alpha + op.Constant(value_float=alpha)
'''


def script_family_items(ctx):
    """(name, kind, optdict) for the documented round trip script -> ONNX -> script -> ONNX"""
    names = ["sf_if", "sf_if_const", "sf_for", "sf_for_const", "sf_for_two", "sf_while", "sf_break", "sf_nested", "sf_pow", "sf_attr",
             "sf_attr_if", "sf_attr_loop", "sf_attr_both", "sf_attr_default"]
    items = []
    for n in names:
        for kind in ("model", "function"):
            if kind == "model" and n.startswith("sf_attr"):
                continue            # a function with attribute parameters has no model form
            for bits in range(16):
                o = {k: bool(bits >> j & 1) for j, k in enumerate(OPTS)}
                if kind == "function" and o["skip_initializers"]:
                    continue
                items.append((n, kind, o))
    if ctx.quick:
        rng = random.Random(ctx.seed + 1)
        rng.shuffle(items)
        keep = [i for i in items if i[0].startswith("sf_attr")]      # cheap and few: all of them
        items = keep + [i for i in items if not i[0].startswith("sf_attr")][:120]
    return items


_SCRIPT_MOD = [None]


def script_module():
    if _SCRIPT_MOD[0] is None:
        d = core.scratch_sub("c13mods")
        path = os.path.join(d, "c13_scriptfam.py")
        with open(path, "w") as fh:
            fh.write(SCRIPT_SRC)
        if d not in sys.path:
            sys.path.insert(0, d)
        _SCRIPT_MOD[0] = importlib.import_module("c13_scriptfam")
    return _SCRIPT_MOD[0]


def structure(model_or_fn):
    """facts about the proto that the guards of the deviations talk about"""
    import onnx
    from onnxscript.backend import onnx_export

    nodes = []
    nonref = set()      # names rendered through _translate_onnx_var although they are r-values

    def walk(ns):
        for n in ns:
            nodes.append(n)
            if n.op_type == "Loop":
                nonref.update(x for i, x in enumerate(n.input) if x and i != 1)
            for a in n.attribute:
                if a.type == onnx.AttributeProto.GRAPH:
                    walk(a.g.node)
                    nonref.update(o.name for o in a.g.output)

    is_model = hasattr(model_or_fn, "graph")
    walk(model_or_fn.graph.node if is_model else model_or_fn.node)
    nonref.update((o.name for o in model_or_fn.graph.output) if is_model else model_or_fn.output)
    loops = [n for n in nodes if n.op_type == "Loop"]

    def has(n, i):
        return i < len(n.input) and n.input[i] != ""

    inits = list(model_or_fn.graph.initializer) if is_model else []
    used = {x for n in nodes for x in n.input} | set((o.name for o in model_or_fn.graph.output) if is_model else model_or_fn.output)
    for n in nodes:
        for a in n.attribute:
            if a.type == onnx.AttributeProto.GRAPH:
                used.update(o.name for o in a.g.output)
    dead_if = any(n.op_type == "If" and not (set(n.output) & used) for n in nodes)
    inl = [n.output[0] for n in nodes if n.op_type == "Constant" and onnx_export._get_const_repr(n) is not None]
    small = [t.name for t in inits
             if onnx_export._get_const_repr(onnx.helper.make_node("Constant", [], ["x"], value=t)) is not None]

    def breaks(n):      # the loop is rendered as `for ...: if not cond: break`
        body = n.attribute[0].g
        use_iter = has(n, 0) or onnx_export._is_used_in_graph_body(body.input[0].name, body)
        use_cond = has(n, 1) or onnx_export._cond_is_used_in_loop_body(body)
        return use_iter and use_cond

    return {
        "for_loop": any(has(n, 0) for n in loops),
        "loop_needing_break": any(breaks(n) for n in loops),
        "big_init": any(int(np.prod(t.dims)) > 4 for t in inits),
        "nonref_consts": sorted(set(inl) & nonref),
        "init_names": small,
        "dead_if": dead_if,
        "attr_defaults": [] if is_model else [a.name for a in model_or_fn.attribute_proto],
    }


def symptom_blame(kind, opts, st, r):
    """deviation id for a failure of a case that has no TLC model: the deviation's guard (over kind, options,
    proto structure) must hold *and* the failure must show the deviation's symptom; otherwise None."""
    from onnxscript.backend import onnx_export

    clean = onnx_export._cleanup_variable_name
    msg, stage, cls = r["msg"], r["stage"], r["cls"]
    model = kind == "model"
    if cls == "raise" and model and st["for_loop"] and msg.startswith("IndexError"):
        return "for_loop_no_scope"
    if stage == "syntax" and model and opts["skip_initializers"] and not st["big_init"] and "IndentationError" in msg:
        return "skip_init_indent"
    if cls == "noconv" and "Instruction break" in msg and st["loop_needing_break"]:
        return "loop_break_form"
    if cls == "noconv" and "default_opset must be specified" in msg:
        return "no_default_opset"
    if cls == "noconv" and "A subgraph for a test do not have any output variable" in msg and st["dead_if"]:
        return "dead_if_refused"
    if cls == "noconv" and "Unbound name" in msg:
        name = msg.split("Unbound name:")[1].split(".")[0].strip()
        short = name.startswith("v") and name[1:].isdigit()
        if opts["inline_const"] and name in ("nan", "inf"):
            return "inline_nan_inf"
        if name in st["attr_defaults"]:
            return "attr_default_dropped"
        if model and opts["rename"] and short:
            return "rename_signature"
        if opts["inline_const"] and st["nonref_consts"] and (name in {clean(c) for c in st["nonref_consts"]} or (opts["rename"] and short)):
            return "inline_const_nonref"
        if opts["inline_const"] and model and name in {clean(n) for n in st["init_names"] if clean(n) != n}:
            return "inline_init_key"
    return None


def script_case(item):
    import onnxruntime as ort

    ort.set_default_logger_severity(4)
    name, kind, opts = item
    try:
        f = getattr(script_module(), name)
        rng = np.random.RandomState(zlib.crc32(name.encode()) & 0xFFFF)
        feeds_list = []
        for _ in range(3):
            fd = {"X": rng.randint(-3, 4, size=(3,)).astype(np.float32)}
            if "N" in list(f.to_function_proto().input):
                fd["N"] = np.array(rng.randint(0, 4), dtype=np.int64)
            feeds_list.append(fd)
        import onnx
        from onnx import helper as h, TensorProto as TP

        if kind == "model":
            m = f.to_model_proto()
            r = round_trip(m, m, feeds_list, opts, main_name=name)
            st = structure(m)
        else:
            fp = f.to_function_proto()

            def wrap(p):
                ins = [h.make_tensor_value_info("X", TP.FLOAT, None)] + ([h.make_tensor_value_info("N", TP.INT64, [])] if len(p.input) > 1 else [])
                given = {"alpha": 3.0, "n": 2, "label": "1.5"}
                names_ = list(p.attribute) + [a.name for a in p.attribute_proto]
                node = h.make_node(p.name, [i.name for i in ins], ["Y"], domain=p.domain, **{k: given[k] for k in names_})
                g = h.make_graph([node], "w", ins, [h.make_tensor_value_info("Y", TP.FLOAT, None)])
                mm = h.make_model(g, opset_imports=[h.make_opsetid("", 18), h.make_opsetid(p.domain, 1)], functions=[p])
                mm.ir_version = 8
                return mm

            r = round_trip(fp, wrap(fp), feeds_list, opts, main_name=name, wrap=wrap)
            st = structure(fp)
        if "discard" in r:
            return r
        r["blame"] = symptom_blame(kind, opts, st, r) if r["cls"] != "ok" else None
        return r
    except Exception as e:  # noqa: BLE001
        import traceback

        return {"harness_error": f"{type(e).__name__}: {e}\n{traceback.format_exc()[-1200:]}"}


# -- use_operators table / attribute rendering / types / outside the class: hand-built models
def extra_models():
    """-> list of (label, in_class, model, feeds_list)"""
    onnx, TP, h = _onnx()
    out = []

    def mk(nodes, ins, outs, inits=()):
        g = h.make_graph(nodes, "xg", ins, outs, initializer=list(inits))
        m = h.make_model(g, opset_imports=[h.make_opsetid("", 18)])
        m.ir_version = 8
        return m

    F, I, B = TP.FLOAT, TP.INT64, TP.BOOL
    a = np.array([[1.0, -2.0], [3.0, 0.5]], dtype=np.float32)
    b = np.array([[2.0, 1.0], [-1.0, 4.0]], dtype=np.float32)
    ba = np.array([True, False, True])
    bb = np.array([True, True, False])
    ia = np.array([3, -1, 2], dtype=np.int64)
    ib = np.array([2, 2, 2], dtype=np.int64)
    # every entry of the operator table, and relatives that are not in it
    for op, (x, y, t) in {
        "Add": (a, b, F), "Sub": (a, b, F), "Mul": (a, b, F), "MatMul": (a, b, F), "Div": (a, b, F), "Pow": (np.abs(a), b, F),
        "And": (ba, bb, B), "Or": (ba, bb, B), "Greater": (a, b, F), "Equal": (ia, ib, I), "Less": (a, b, F),
        "GreaterOrEqual": (ia, ib, I), "LessOrEqual": (ia, ib, I), "Xor": (ba, bb, B), "Mod": (ia, ib, I), "Min": (a, b, F),
    }.items():
        rt = B if op in ("And", "Or", "Xor", "Greater", "Equal", "Less", "GreaterOrEqual", "LessOrEqual") else t
        m = mk([h.make_node(op, ["P", "Q"], ["r"]), h.make_node("Identity", ["r"], ["R"])],
               [h.make_tensor_value_info("P", t, list(x.shape)), h.make_tensor_value_info("Q", t, list(y.shape))],
               [h.make_tensor_value_info("R", rt, None)])
        out.append((f"op:{op}", True, m, [{"P": x, "Q": y}, {"P": y, "Q": x}]))
    # chains where Python precedence / associativity could matter if statements were ever merged
    m = mk([h.make_node("Sub", ["P", "Q"], ["s"]), h.make_node("Sub", ["P", "s"], ["t"]), h.make_node("Div", ["t", "Q"], ["u"]),
            h.make_node("Neg", ["u"], ["R"])],
           [h.make_tensor_value_info("P", F, [2, 2]), h.make_tensor_value_info("Q", F, [2, 2])], [h.make_tensor_value_info("R", F, [2, 2])])
    out.append(("op:chain", True, m, [{"P": a, "Q": b}]))
    # attribute kinds: ints, floats, strings, tensor, negative, nested list
    m = mk([h.make_node("Transpose", ["P"], ["t"], perm=[1, 0]),
            h.make_node("Clip", ["t", "lo", "hi"], ["c"]),
            h.make_node("Constant", [], ["lo"], value=h.make_tensor("v", F, [], [-1.5])),
            h.make_node("Constant", [], ["hi"], value_float=2.5),
            h.make_node("Constant", [], ["k"], value_ints=[1, -1]),
            h.make_node("Constant", [], ["fs"], value_floats=[0.5, -0.25]),
            h.make_node("Reshape", ["c", "k2"], ["r"]),
            h.make_node("Constant", [], ["k2"], value=h.make_tensor("v", I, [2], [4, 1])),
            h.make_node("ReduceSum", ["fs"], ["f1"], keepdims=0),
            h.make_node("Mul", ["r", "f1"], ["m1"]),
            h.make_node("Gather", ["m1", "k"], ["g1"], axis=0),
            h.make_node("LeakyRelu", ["g1"], ["R"], alpha=0.25)][::1],
           [h.make_tensor_value_info("P", F, [2, 2])], [h.make_tensor_value_info("R", F, None)])
    # topological order: constants first
    order = ["lo", "hi", "k", "fs", "k2"]
    nodes = sorted(m.graph.node, key=lambda n: (0 if n.output[0] in order else 1))
    del m.graph.node[:]
    m.graph.node.extend(nodes)
    out.append(("attrs", True, m, [{"P": a}]))
    m = mk([h.make_node("Constant", [], ["c"], value=h.make_tensor("v", I, [3], [1, -2, 3])), h.make_node("Constant", [], ["z"], value=h.make_tensor("v", F, [1], [-0.0])),
            h.make_node("Cast", ["c"], ["cf"], to=F), h.make_node("Add", ["cf", "z"], ["s"]), h.make_node("Mul", ["s", "P"], ["R"])],
           [h.make_tensor_value_info("P", F, [3])], [h.make_tensor_value_info("R", F, [3])])
    out.append(("const1d", True, m, [{"P": np.array([1, 2, 3], dtype=np.float32)}]))
    m = mk([h.make_node("Constant", [], ["c"], value=h.make_tensor("v", F, [2, 2], [1.0, -2.0, 3.0, 4.5])),
            h.make_node("Constant", [], ["d"], value=h.make_tensor("v", I, [1, 2], [2, 3])), h.make_node("Cast", ["d"], ["df"], to=F),
            h.make_node("Add", ["P", "c"], ["s"]), h.make_node("Mul", ["s", "df"], ["R"])],
           [h.make_tensor_value_info("P", F, [2, 2])], [h.make_tensor_value_info("R", F, [2, 2])])
    out.append(("const2d", True, m, [{"P": a}]))
    # small constants of rank 2 whose uses have NO same-typed tensor sibling (a lookup table, the branches of a Where):
    # their element type must survive the round trip on its own
    m = mk([h.make_node("Constant", [], ["tab"], value=h.make_tensor("v", F, [2, 2], [1.0, -2.0, 3.0, 4.5])),
            h.make_node("Gather", ["tab", "P"], ["g"], axis=0),
            h.make_node("Constant", [], ["ca"], value=h.make_tensor("v", F, [2, 1], [0.5, -0.5])),
            h.make_node("Constant", [], ["cb"], value=h.make_tensor("v", F, [2, 1], [7.0, 9.0])),
            h.make_node("Constant", [], ["zero"], value=h.make_tensor("v", I, [], [0])),
            h.make_node("Greater", ["P", "zero"], ["pos"]), h.make_node("Unsqueeze", ["pos", "ax1"], ["pos2"]),
            h.make_node("Constant", [], ["ax1"], value=h.make_tensor("v", I, [1], [1])),
            h.make_node("Where", ["pos2", "ca", "cb"], ["w"]), h.make_node("Add", ["g", "w"], ["R"])],
           [h.make_tensor_value_info("P", I, [2])], [h.make_tensor_value_info("R", F, [2, 2])])
    order2 = ["tab", "ca", "cb", "zero", "ax1"]
    nodes = sorted(m.graph.node, key=lambda n: (0 if n.output[0] in order2 else 1))
    del m.graph.node[:]
    m.graph.node.extend(nodes)
    out.append(("const2d_nosibling", True, m, [{"P": np.array([1, 0], dtype=np.int64)}, {"P": np.array([0, 0], dtype=np.int64)}]))
    # initializers: small / large, float / int8, names needing clean-up
    w = h.make_tensor("layer.0.weight", F, [2, 3], [1, 2, 3, 4, 5, 6.0])
    bq = h.make_tensor("1bias", F, [3], [0.5, -0.5, 1.0])
    m = mk([h.make_node("MatMul", ["P", "layer.0.weight"], ["mm"]), h.make_node("Add", ["mm", "1bias"], ["R"])],
           [h.make_tensor_value_info("P", F, [2, 2])], [h.make_tensor_value_info("R", F, [2, 3])], inits=[w, bq])
    out.append(("inits", True, m, [{"P": a}]))
    # declared types: every tensor element type with the shape forms
    for et in (TP.FLOAT, TP.DOUBLE, TP.FLOAT16, TP.BFLOAT16, TP.INT8, TP.INT16, TP.INT32, TP.INT64, TP.UINT8, TP.UINT16,
               TP.UINT32, TP.UINT64, TP.BOOL, TP.STRING, TP.COMPLEX64, TP.COMPLEX128, TP.FLOAT8E4M3FN, TP.FLOAT8E5M2, TP.UINT4, TP.INT4):
        for shape in (None, [], [3], ["N"], [None, 2], ["batch", 3, None], [0], [0, 3], [1, 0, "N"]):
            m = mk([h.make_node("Identity", ["P"], ["R"])], [h.make_tensor_value_info("P", et, shape)], [h.make_tensor_value_info("R", et, shape)])
            out.append((f"type:{TP.DataType.Name(et)}{shape}", True, m, None))
    # value_infos (exported together with skipped initializers), with a static dimension 0
    W = h.make_tensor("W", F, [6], [1, 2, 3, 4, 5, 6.0])
    m = mk([h.make_node("Mul", ["P", "W"], ["t.0"]), h.make_node("Neg", ["t.0"], ["R"])],
           [h.make_tensor_value_info("P", F, [0, 6])], [h.make_tensor_value_info("R", F, [0, 6])], inits=[W])
    m.graph.value_info.extend([h.make_tensor_value_info("t.0", F, [0, 6])])
    out.append(("valueinfo0", True, m, [{"P": np.zeros((0, 6), dtype=np.float32)}]))
    m = mk([h.make_node("Mul", ["P", "W"], ["t"]), h.make_node("Neg", ["t"], ["R"])],
           [h.make_tensor_value_info("P", F, ["N", 6])], [h.make_tensor_value_info("R", F, ["N", None])], inits=[W])
    m.graph.value_info.extend([h.make_tensor_value_info("t", F, ["N", 6])])
    out.append(("valueinfoN", True, m, [{"P": np.ones((2, 6), dtype=np.float32)}]))
    # outside the supported class: must raise, or still be faithful
    body = h.make_graph(
        [h.make_node("Add", ["s", "P"], ["so"]), h.make_node("Less", ["so", "T"], ["co"]), h.make_node("Neg", ["so"], ["sc"])], "b",
        [h.make_tensor_value_info("i", I, []), h.make_tensor_value_info("c", B, []), h.make_tensor_value_info("s", F, [])],
        [h.make_tensor_value_info("co", B, []), h.make_tensor_value_info("so", F, []), h.make_tensor_value_info("sc", F, [])])
    m = mk([h.make_node("Constant", [], ["T"], value=h.make_tensor("v", F, [], [20.0])), h.make_node("Less", ["P", "T"], ["c0"]),
            h.make_node("Loop", ["", "c0", "P"], ["R", "S"], body=body)],
           [h.make_tensor_value_info("P", F, [])], [h.make_tensor_value_info("R", F, []), h.make_tensor_value_info("S", F, None)])
    out.append(("outside:scan_outputs", False, m, [{"P": np.array(3.0, dtype=np.float32)}]))
    sb = h.make_graph([h.make_node("Add", ["a", "e"], ["ao"]), h.make_node("Identity", ["ao"], ["eo"])], "sb",
                      [h.make_tensor_value_info("a", F, []), h.make_tensor_value_info("e", F, [])],
                      [h.make_tensor_value_info("ao", F, []), h.make_tensor_value_info("eo", F, [])])
    m = mk([h.make_node("Scan", ["P", "V"], ["R", "S"], body=sb, num_scan_inputs=1)],
           [h.make_tensor_value_info("P", F, []), h.make_tensor_value_info("V", F, [3])],
           [h.make_tensor_value_info("R", F, []), h.make_tensor_value_info("S", F, [3])])
    out.append(("outside:scan_op", False, m, [{"P": np.array(3.0, dtype=np.float32), "V": np.array([1, 2, 3], dtype=np.float32)}]))
    seq = h.make_value_info("S", h.make_sequence_type_proto(h.make_tensor_type_proto(F, [])))
    m = mk([h.make_node("Constant", [], ["z"], value_int=0), h.make_node("SequenceAt", ["S", "z"], ["R"])], [seq], [h.make_tensor_value_info("R", F, [])])
    out.append(("outside:sequence_input", False, m, [{"S": [np.array(1.0, dtype=np.float32), np.array(2.0, dtype=np.float32)]}]))
    return out


def extra_items(ctx):
    labels = [(lab, inc) for lab, inc, _, _ in extra_models()]
    items = []
    for lab, inc in labels:
        if lab.startswith("type:"):
            combos = [0, 1] if not ctx.quick else [0]
        elif lab.startswith("op:"):
            combos = [0, 2, 3] if ctx.quick else [0, 1, 2, 3, 6, 7]
        else:
            combos = [0, 4, 8, 12, 5] if ctx.quick else range(16)
        for bits in combos:
            items.append((lab, {k: bool(bits >> j & 1) for j, k in enumerate(OPTS)}))
    if ctx.quick:
        types = [i for i in items if i[0].startswith("type:")]
        rest = [i for i in items if not i[0].startswith("type:")]
        rng = random.Random(ctx.seed + 2)
        rng.shuffle(types)
        items = rest + types[:60]
    return items


_EXTRA = [None]


def extra_case(item):
    import onnxruntime as ort
    import onnxscript

    ort.set_default_logger_severity(4)
    lab, opts = item
    try:
        if _EXTRA[0] is None:
            _EXTRA[0] = {l: (inc, m, f) for l, inc, m, f in extra_models()}
        in_class, m, feeds = _EXTRA[0][lab]
        big = [__import__("onnx").numpy_helper.to_array(t) for t in m.graph.initializer if int(np.prod(t.dims)) > 4]
        if feeds is None:
            # declared types only: export, exec, convert, compare the declared inputs / outputs
            try:
                code = onnxscript.proto2python(m, **opts)
            except Exception as e:  # noqa: BLE001
                return {"cls": "raise", "stage": "export", "msg": f"{type(e).__name__}: {str(e)[:200]}", "in_class": in_class, "blame": None}
            ld = None
            try:
                ld = Loaded(code)
                mod = ld.mod
                f = pick_function(mod, "xg") if "make_model" not in mod.__dict__ else None
                m2 = f.to_model_proto() if f is not None else mod.make_model()
            except Exception as e:  # noqa: BLE001
                r = {"cls": "noconv", "stage": "syntax" if isinstance(e, SyntaxError) else "exec", "msg": f"{type(e).__name__}: {str(e)[:300]}"}
            else:
                r = {"cls": "ok", "stage": "", "msg": ""} if sig_of(m2) == sig_of(m) else \
                    {"cls": "diff", "stage": "signature", "msg": f"declared types {sig_of(m2)} instead of {sig_of(m)}"}
            finally:
                if ld is not None:
                    ld.close()
        else:
            try:
                run_model(m, feeds)
            except Exception as e:  # noqa: BLE001
                return {"discard": f"ORT refuses the original: {str(e)[:200]}"}
            r = round_trip(m, m, feeds, opts, big=big, main_name="xg")
            if "discard" in r:
                return r
        r["in_class"] = in_class
        r["blame"] = symptom_blame("model", opts, structure(m), r) if r["cls"] != "ok" else None
        if not in_class and r["cls"] == "noconv" and r["stage"] != "syntax":
            # outside the class: returned text that is Python but not a faithful script
            r["blame"] = r["blame"] or {"outside:scan_outputs": "scan_outputs_dropped", "outside:sequence_input": "sequence_type_emitted"}.get(lab)
        return r
    except Exception as e:  # noqa: BLE001
        import traceback

        return {"harness_error": f"{type(e).__name__}: {e}\n{traceback.format_exc()[-1200:]}"}


# -- attribute parameters of every kind, referenced at top level / inside an If branch / inside a Loop body / both
ATTR_KINDS = ("float", "int", "string", "ints", "floats", "tensor")
ATTR_PLACES = ("top", "if", "loop", "both")


def attr_function(kind, place):
    """FunctionProto f(X, C, N) with attribute parameter `alpha` (no default) -> (function, attribute value, in_class)"""
    onnx, TP, h = _onnx()
    AP = onnx.AttributeProto
    F, I, B = TP.FLOAT, TP.INT64, TP.BOOL
    spec = {
        "float": ("value_float", AP.FLOAT, 2.5), "int": ("value_int", AP.INT, 3), "string": ("value_string", AP.STRING, "1.5"),
        "ints": ("value_ints", AP.INTS, [1, -2, 4]), "floats": ("value_floats", AP.FLOATS, [0.5, 1.5]),
        "tensor": ("value", AP.TENSOR, h.make_tensor("t", F, [2], [1.0, 2.0])),
    }[kind]

    def val(prefix):      # nodes computing a FLOAT scalar from the attribute parameter
        c = h.make_node("Constant", [], [prefix + "c"])
        c.attribute.append(AP(name=spec[0], ref_attr_name="alpha", type=spec[1]))
        if kind == "float":
            return [c, h.make_node("Identity", [prefix + "c"], [prefix + "v"])]
        if kind in ("int", "string"):
            return [c, h.make_node("Cast", [prefix + "c"], [prefix + "v"], to=F)]
        if kind == "ints":
            return [c, h.make_node("Cast", [prefix + "c"], [prefix + "f"], to=F), h.make_node("ReduceSum", [prefix + "f"], [prefix + "v"], keepdims=0)]
        return [c, h.make_node("ReduceSum", [prefix + "c"], [prefix + "v"], keepdims=0)]

    def vi(n, t):
        return h.make_tensor_value_info(n, t, [])

    nodes = []
    src = "X"
    if place in ("top", "both"):
        nodes += val("t_") + [h.make_node("Add", ["X", "t_v"], ["w"])]
        src = "w"
    if place in ("if", "both"):
        th = h.make_graph(val("b_") + [h.make_node("Mul", [src, "b_v"], ["yo"])], "thenG", [], [vi("yo", F)])
        el = h.make_graph([h.make_node("Neg", [src], ["yn"])], "elseG", [], [vi("yn", F)])
        nodes.append(h.make_node("If", ["C"], ["Y"], then_branch=th, else_branch=el))
    elif place == "loop":
        body = h.make_graph(val("l_") + [h.make_node("Add", ["s", "l_v"], ["so"]), h.make_node("Identity", ["ci"], ["co"])], "loopG",
                            [vi("it", I), vi("ci", B), vi("s", F)], [vi("co", B), vi("so", F)])
        nodes.append(h.make_node("Loop", ["N", "", src], ["Y"], body=body))
    else:
        nodes.append(h.make_node("Identity", [src], ["Y"]))
    fp = h.make_function(DOMAIN, "fa", ["X", "C", "N"], ["Y"], nodes, [h.make_opsetid("", 18)], attributes=["alpha"])
    return fp, spec[2], kind != "tensor"      # a TENSOR attribute parameter cannot come from a script function


def attr_items(ctx):
    combos = [0, 1, 4, 7] if ctx.quick else range(8)
    return [(k, pl, {o: bool(bits >> j & 1) for j, o in enumerate(OPTS)}) for k in ATTR_KINDS for pl in ATTR_PLACES for bits in combos]


def attr_case(item):
    import onnxruntime as ort

    ort.set_default_logger_severity(4)
    kind, place, opts = item
    try:
        onnx, TP, h = _onnx()
        fp, value, in_class = attr_function(kind, place)

        def wrap(p):
            ins = [h.make_tensor_value_info("X", TP.FLOAT, []), h.make_tensor_value_info("C", TP.BOOL, []), h.make_tensor_value_info("N", TP.INT64, [])]
            node = h.make_node(p.name, ["X", "C", "N"], ["Y"], domain=p.domain, alpha=value)
            g = h.make_graph([node], "w", ins, [h.make_tensor_value_info("Y", TP.FLOAT, [])])
            m = h.make_model(g, opset_imports=[h.make_opsetid("", 18), h.make_opsetid(p.domain, 1)], functions=[p])
            m.ir_version = 8
            return m

        feeds = [{"X": np.array(x, dtype=np.float32), "C": np.array(c), "N": np.array(n, dtype=np.int64)}
                 for x, c, n in ((1.0, True, 2), (-3.0, False, 0), (2.0, True, 3))]
        orig = wrap(fp)
        try:
            run_model(orig, feeds)
        except Exception as e:  # noqa: BLE001
            return {"discard": f"ORT refuses the original: {str(e)[:200]}"}
        r = round_trip(fp, orig, feeds, opts, main_name="fa", wrap=wrap)
        if "discard" in r:
            return r
        r["in_class"] = in_class
        r["blame"] = None
        if r["cls"] != "ok":
            if kind in ("ints", "floats") and "name 'Sequence' is not defined" in r["msg"]:
                r["blame"] = "attr_sequence_annotation"
            else:
                r["blame"] = symptom_blame("function", opts, structure(fp), r)
        return r
    except Exception as e:  # noqa: BLE001
        import traceback

        return {"harness_error": f"{type(e).__name__}: {e}\n{traceback.format_exc()[-1200:]}"}


def run_extra_families(ctx):
    sitems = script_family_items(ctx)
    xitems = extra_items(ctx)
    script_module()          # imported once, before the workers are forked
    _EXTRA[0] = {l: (inc, m, f) for l, inc, m, f in extra_models()}
    aitems = attr_items(ctx)
    sres = core.pmap(script_case, sitems, chunksize=2)
    xres = core.pmap(extra_case, xitems, chunksize=4)
    ares = core.pmap(attr_case, aitems, chunksize=2)
    n = 0
    discards = {"attr": 0}
    for fam, items, results in (("script", sitems, sres), ("extra", xitems, xres), ("attr", aitems, ares)):
        for it, r in zip(items, results):
            if "harness_error" in r:
                raise core.MachineryError(f"harness failed on {fam} {it}: {r['harness_error']}")
            if "discard" in r:
                ctx.add("discarded_original_not_runnable")
                if fam == "attr":
                    discards["attr"] += 1
                continue
            ctx.add("evaluations")
            n += 1
            label = it[0] if fam == "extra" else f"{it[0]}/{it[1]}"
            opts = it[-1]
            otxt = "+".join(k for k, v in opts.items() if v) or "default"
            in_class = r.get("in_class", True)
            if r["cls"] == "ok" or (not in_class and r["cls"] == "raise"):
                continue
            ctx.report({"family": fam, "item": [it[0], it[1]] if fam in ("script", "attr") else [it[0]], "options": opts},
                       f"{fam} {label} options={otxt}: round trip is {r['cls']} at {r['stage']}: {r['msg']}", finding=r.get("blame"))
    if discards["attr"] > len(aitems) // 4:
        raise core.MachineryError(f"{discards['attr']} of {len(aitems)} attribute-parameter functions are refused by ORT")
    ctx.set("extra_family_evaluations", n)


# ------------------------------------------------------------------ ExportOps.tla: schema-directed single-node round trips
_EO_PREF = ["INT64", "FLOAT", "BOOL", "UINT8", "DOUBLE", "INT32"]
_EO_STR_ATTRS = {("BitShift", "direction"): ["LEFT", "RIGHT"]}


def _eo_ops():
    """Operators of the real schema registry (default domain, opset 18) with two single tensor inputs and one output."""
    from onnx import defs

    latest = {}
    for sc in defs.get_all_schemas_with_history():
        if sc.domain != "" or sc.since_version > 18 or sc.deprecated:
            continue
        if sc.name not in latest or latest[sc.name].since_version < sc.since_version:
            latest[sc.name] = sc
    out = []
    for name, sc in sorted(latest.items()):
        if len(sc.inputs) != 2 or len(sc.outputs) != 1 or name in ("MaxRoiPool", "PRelu"):
            continue
        if any(i.option != defs.OpSchema.FormalParameterOption.Single for i in sc.inputs):
            continue
        tc = {c.type_param_str: set(c.allowed_type_strs) for c in sc.type_constraints}
        allowed = [tc.get(i.type_str, {i.type_str}) for i in sc.inputs]
        dts = [d for d in _EO_PREF if all(f"tensor({d.lower()})" in a for a in allowed)]
        if not dts:
            continue
        variants = [{}]
        ok = True
        for a in sc.attributes.values():
            if a.type == defs.OpSchema.AttrType.INT:
                dv = __import__("onnx").helper.get_attribute_value(a.default_value) if a.default_value.name else 0
                variants.append({a.name: 1 - int(dv)})
                if a.required:
                    variants = [v for v in variants if v] + [{a.name: int(dv)}]
            elif (name, a.name) in _EO_STR_ATTRS:
                variants = [dict(v, **{a.name: x}) for v in variants for x in _EO_STR_ATTRS[(name, a.name)]] if a.required else \
                    variants + [{a.name: x} for x in _EO_STR_ATTRS[(name, a.name)]]
            elif a.required:
                ok = False
        if ok:
            out.append((name, dts, variants))
    return out


def _eo_values(op, dt):
    npd = {"INT64": np.int64, "INT32": np.int32, "FLOAT": np.float32, "DOUBLE": np.float64, "BOOL": np.bool_, "UINT8": np.uint8}[dt]
    if dt == "BOOL":
        return np.array([True, False, True, False]), np.array([True, True, False, False])
    if dt == "UINT8":
        return np.array([1, 2, 16, 255], npd), np.array([1, 2, 3, 7], npd)
    if dt in ("FLOAT", "DOUBLE"):
        a, b = np.array([7.5, -7.5, 5.25, -3.5], npd), np.array([2.0, 2.0, -3.0, -2.0], npd)
        if dt == "DOUBLE":
            b = b + np.array([1e-9, 0.0, 3e-10, 0.0], npd)      # not representable in float32
    else:
        a, b = np.array([7, -7, 5, -3], npd), np.array([2, 2, -3, -2], npd)
    if op == "Pow":
        a, b = np.abs(a), (np.array([2, 0, 1, 2], npd))
    if op == "MatMul":
        a, b = a.reshape(2, 2), b.reshape(2, 2)
    return a, b


def _eo_items(ctx):
    items = []
    for op, dts, variants in _eo_ops():
        use = dts if not ctx.quick else dts[:2] + [d for d in dts[2:] if d in ("DOUBLE", "INT32")][:2]
        for dt in use:
            for at in variants:
                for cst in ("input", "const0", "const1"):
                    if cst == "const1" and op == "MatMul":
                        continue
                    for bits in range(4):
                        opts = {"rename": False, "use_operators": bool(bits & 1), "inline_const": bool(bits & 2), "skip_initializers": False}
                        if cst == "input" and opts["inline_const"]:
                            continue
                        items.append((op, dt, at, cst, opts))
    return items


def _eo_case(item):
    import ast as _ast
    import re as _re

    import onnx
    import onnxruntime as ort
    import onnxscript
    from onnx import TensorProto as TP
    from onnx import helper as h
    from onnxscript._internal import converter as _conv

    ort.set_default_logger_severity(4)
    op, dt, at, cst, opts = item
    try:
        et = getattr(TP, dt)
        a, b = _eo_values(op, dt)
        cmp_ops = ("Equal", "Greater", "GreaterOrEqual", "Less", "LessOrEqual")
        rt = TP.BOOL if op in cmp_ops else et
        nodes, ins, feeds = [], [h.make_tensor_value_info("P", et, list(a.shape))], {"P": a}
        if cst == "input":
            ins.append(h.make_tensor_value_info("Q", et, list(b.shape)))
            feeds["Q"] = b
        else:
            bv = b if cst == "const1" or op == "MatMul" else b.reshape(-1)[0:1].reshape(())
            if op == "MatMul":
                bv = b
            nodes.append(h.make_node("Constant", [], ["Q"], value=onnx.numpy_helper.from_array(np.asarray(bv), "qv")))
        nodes += [h.make_node(op, ["P", "Q"], ["r"], **at), h.make_node("Identity", ["r"], ["R"])]
        g = h.make_graph(nodes, "xg", ins, [h.make_tensor_value_info("R", rt, None)])
        m = h.make_model(g, opset_imports=[h.make_opsetid("", 18)])
        m.ir_version = 8
        feeds_list = [feeds]
        try:
            run_model(m, feeds_list)
        except Exception as e:  # noqa: BLE001
            return {"discard": f"original refused: {str(e)[:160]}"}
        r = round_trip(m, m, feeds_list, opts, main_name="xg", keep_text=True)
        if "discard" in r:
            return r
        code = r.pop("code", "") or ""
        line = next((l.strip() for l in code.splitlines() if _re.match(r"\s*r\s*=", l)), "")
        infix, sym, back = False, "", ""
        if line:
            try:
                e = _ast.parse(line).body[0].value
                if isinstance(e, _ast.BinOp):
                    infix, sym, back = True, type(e.op).__name__, _conv.primop_map.get(type(e.op), "")
                elif isinstance(e, _ast.Compare) and len(e.ops) == 1:
                    infix, sym, back = True, type(e.ops[0]).__name__, _conv.primop_map.get(type(e.ops[0]), "")
                elif isinstance(e, _ast.BoolOp):
                    infix, sym, back = True, type(e.op).__name__, _conv.primop_map.get(type(e.op), "")
            except SyntaxError:
                pass
        inlined = cst != "input" and not _re.search(r"^\s*Q\s*=", code, _re.M) and r["stage"] not in ("export",)
        r["obs"] = {"op": op, "sym": sym, "infix": bool(infix), "attrs_set": sorted(at), "const_dt": dt if cst != "input" else "",
                    "const_rank": 0 if cst == "const0" else 1 if cst == "const1" else 0, "inlined": bool(inlined), "back": back}
        r["line"] = line
        return r
    except Exception as e:  # noqa: BLE001
        import traceback

        return {"harness_error": f"{type(e).__name__}: {e}\n{traceback.format_exc()[-1200:]}"}


def exportops_stage(ctx):
    items = _eo_items(ctx)
    res = core.pmap(_eo_case, items, chunksize=8)
    obs, keep = [], []
    for it, r in zip(items, res):
        if "harness_error" in r:
            raise core.MachineryError(f"harness failed on ExportOps {it}: {r['harness_error']}")
        if "discard" in r:
            ctx.add("discarded_original_not_runnable")
            continue
        if "obs" not in r:
            continue
        o = dict(r["obs"], id=f"o{len(obs)}")
        obs.append(o)
        keep.append((it, r, o))
    if len(obs) < 300:
        raise core.MachineryError(f"ExportOps: only {len(obs)} observations")
    path = os.path.join(core.scratch(), "exportops_obs.json")
    core.write_tlc_json(path, obs)
    tr = core.run_tlc("ExportOps", "ExportOps.cfg", workers=1, env={"OBS_FILE": path}, timeout=1200)
    ctx.tlc(tr, "ExportOps (rendering rules on observed exporter output)")
    if not tr.ok:
        raise core.MachineryError(f"ExportOps failed: {tr.out[-1500:]}")
    rule = {pr[1]: pr[2] for pr in tr.printed if pr and pr[0] == "RULE"}
    os.remove(path)
    if len(rule) != len(obs):
        raise core.MachineryError(f"ExportOps gave {len(rule)} verdicts for {len(obs)} observations")
    n_infix = sum(1 for o in obs if o["infix"])
    n_inl = sum(1 for o in obs if o["inlined"])
    if not n_infix or not n_inl:
        raise core.MachineryError(f"ExportOps vacuous: {n_infix} infix renderings, {n_inl} inlined constants observed")
    warn = 0
    for it, r, o in keep:
        ctx.add("evaluations")
        ctx.add("exportops_evaluations")
        op, dt, at, cst, opts = it
        otxt = "+".join(k for k, v in opts.items() if v) or "default"
        why = rule[o["id"]]
        if r["cls"] == "ok":
            if why != "faithful":
                warn += 1
                if warn <= 5:
                    print(f"NOTE C13 ExportOps: {op}({dt}, attrs {at}, Q as {cst}) options={otxt} rendered '{r.get('line')}' is classified {why} "
                          "but round-trips on the probes", flush=True)
            continue
        if r["cls"] == "raise":
            continue          # a refusal is allowed
        blame = symptom_blame("model", opts, {"ops": [op], "consts": 1 if cst != "input" else 0}, r) if False else None
        ctx.report({"family": "exportops", "item": [op, dt, at, cst], "options": opts, "rendered": r.get("line"), "rule": why},
                   f"single node {op}({dt}, attributes {at}, second operand as {cst}) options={otxt}: exported as '{r.get('line')}' "
                   f"[ExportOps.tla: {why}]; round trip is {r['cls']} at {r['stage']}: {r['msg'][:300]}", finding=_eo_known(op, dt, at, cst, opts, r))
    ctx.set("exportops", {"observations": len(obs), "operators": len({o['op'] for o in obs}), "infix_renderings": n_infix, "inlined_constants": n_inl,
                          "classified_unfaithful_but_equal_on_probes": warn})


def _eo_known(op, dt, at, cst, opts, r):
    """listed findings that explain a single-node failure (same identities as the TLC families use)"""
    msg = r.get("msg", "")
    if opts["inline_const"] and cst != "input" and "Unbound" in msg:
        return "inline_const_nonref"
    if "default_opset must be specified" in msg:
        return "no_default_opset"
    return None


# ------------------------------------------------------------------ entry points
def run(ctx: core.Ctx):
    run_tlc_family(ctx)
    run_extra_families(ctx)
    exportops_stage(ctx)
    ctx.set("rule", "TLC cases = 'done' states of Export.tla (graph x kind x options x naming x declared types); "
                    "non-trivial = has an If/Loop item, a non-default name or a non-default option; distinct by (graph, names, kind, types, options)")
    ctx.assumptions += [
        "onnxruntime (optimizations disabled) is the reference semantics of the original and of the round-tripped model",
        "values are small integers, nan and +-inf held in FLOAT / INT64 scalars; equality is exact (nan positional)",
        "graph inputs / outputs are compared by position, element type and declared shape - not by name (a Python parameter cannot be called 'x.1')",
        "every generated model is inside the class the property covers (tensor types, standard domain, If/Loop without scan outputs); "
        "models outside it are only probed by the fixed 'outside:*' list",
        "the script converter gives an exported program Python's meaning (property C01); where it does not, C13 reports the difference too",
    ]


def replay(ctx, path):
    with open(path) as f:
        blob = json.load(f)
    case = blob["case"]
    if case.get("family") == "tlc":
        r = replay_case(case["case"], keep_text=True)
        print(json.dumps({"summary": case["summary"], "model_outcome": case["case"]["impl"], "alone": case["case"]["alone"],
                          "now": {k: v for k, v in r.items() if k != "code"}}, indent=1, default=str))
        if "code" in r:
            print(r["code"])
        return 0 if r.get("cls") == "ok" else 1
    if case.get("family") == "script":
        r = script_case((case["item"][0], case["item"][1], case["options"]))
    elif case.get("family") == "attr":
        r = attr_case((case["item"][0], case["item"][1], case["options"]))
    else:
        r = extra_case((case["item"][0], case["options"]))
    print(json.dumps({"case": case, "now": r}, indent=1, default=str))
    ok = r.get("cls") == "ok" or (not r.get("in_class", True) and r.get("cls") == "raise")
    return 0 if ok else 1
