"""C06 - the pattern matcher reports a match exactly when the subgraph is an instance.

spec/Matcher.tla derives (pattern, host graph, root) cases - instances of the pattern and single
mutations of instances - and evaluates the declarative meaning (Matches, bindings) and an
operational model of _matcher.py/_basics.py.  Each case is rebuilt with the public pattern API and
real ir graphs and given to Pattern.match; the verdict and bindings are compared with the
declarative meaning (the property) and the operational model (conformance).
"""
from __future__ import annotations

import json
import random

from . import core

LEVEL = "model_checking"


OPNAME = {"U": "Neg", "C": "Add", "N": "Sub", "M": "TopK"}     # C must be an operator GraphPattern.commute knows


def build_pattern(pat, alts, pouts=None):
    from onnxscript.rewriter import pattern as P

    def fn(op, x, y):
        env = {"x": x, "y": y, "z": P.Var("z", can_match_none=True)}
        outs = {}
        orvals = {}

        def val(pv, p_index):
            kind, name, a, b = pv
            if kind in ("var", "varo"):
                return env[name]
            if kind == "const":
                return float(a)
            if kind == "none":
                return None
            if kind == "out":
                return outs[(a, b)]
            if kind == "or":
                if a not in orvals:
                    orvals[a] = P.OrValue([val(alts[a - 1][0], p_index), val(alts[a - 1][1], p_index)])
                return orvals[a]
            raise ValueError(kind)

        last = None
        for i, pn in enumerate(pat, start=1):
            ins = [val(pv, i) for pv in pn["ins"]]
            kw = {}
            if pn["at"][0] == "c":
                kw["a"] = pn["at"][1]
            elif pn["at"][0] == "v":
                kw["a"] = P.AttrVar("A")
            elif pn["at"][0] == "vo":
                kw["a"] = P.AttrVar("A", can_match_none=True)
            if pn["aoi"]:
                kw["_allow_other_inputs"] = True
            if not pn["aoa"]:
                kw["_allow_other_attributes"] = False
            nouts = 2 if pn["op"] == "M" else 1
            r = getattr(op, OPNAME[pn["op"]])(*ins, _outputs=nouts, **kw)
            if nouts == 2:
                outs[(i, 0)], outs[(i, 1)] = r
                last = r[0]
            else:
                outs[(i, 0)] = r
                last = r
        if pouts and len(pouts) > 1:
            return tuple(outs[(pv[2], pv[3])] for pv in pouts)
        return last

    return P.Pattern(fn), fn


def _replacement(op, **_):
    return op.Constant(value_float=0.0)


def _replacement2(op, **_):
    return op.Constant(value_float=0.0), op.Constant(value_float=1.0)


def build_graph(graph, gouts, root):
    import numpy as np
    import onnx_ir as ir

    vals = {0: None}
    ins = []
    for k in (1, 2):
        v = ir.Value(name=f"v{k}", type=ir.TensorType(ir.DataType.DOUBLE), shape=ir.Shape([]))
        vals[k] = v
        ins.append(v)
    inits = []
    for k, c in ((3, 1.0), (4, 2.0), (5, 1.0 + 1e-9), (6, [1.0])):
        t = ir.tensor(np.array(c, dtype=np.float64), name=f"v{k}")
        v = ir.Value(name=f"v{k}", type=ir.TensorType(ir.DataType.DOUBLE), shape=ir.Shape(list(np.shape(c))), const_value=t)
        vals[k] = v
        inits.append(v)
    nodes = []
    for k, g in enumerate(graph, start=1):
        nouts = 2 if g["op"] == "M" else 1
        attrs = ([ir.AttrInt64("a", g["a"])] if g["a"] else []) + ([ir.AttrInt64("b", g["b"])] if g.get("b") else [])
        n = ir.Node("", OPNAME[g["op"]], inputs=[vals[i] for i in g["ins"]], attributes=attrs, num_outputs=nouts, name=f"n{k}")
        for j, o in enumerate(n.outputs):
            o.name = f"n{k}_{j}"
            vals[10 * k + j + 1] = o
        nodes.append(n)
    # the graph returns its last node's first output (Matcher.tla EffGouts) and the values of gouts
    outputs = [nodes[-1].outputs[0]] + [vals[v] for v in sorted(gouts) if vals[v] is not nodes[-1].outputs[0]]
    gr = ir.Graph(ins, outputs, nodes=nodes, initializers=inits, opset_imports={"": 18}, name="g")
    model = ir.Model(gr, ir_version=10)
    back = {id(v): k for k, v in vals.items() if v is not None}
    return model, nodes, back


def _rematch_after_edit(pat, model, nodes, root, first):
    """History step (the verdict is a function of pattern, graph and root only): every non-root node of the host is replaced,
    one after the other, by an identical new node (same operator, inputs, attributes and names; the node count is unchanged), and
    the SAME pattern object is matched again on the SAME graph.  -> list of discrepancies"""
    import onnx_ir as ir

    bad = []
    first_ok = bool(first)
    first_ns = [n.name for n in first.nodes] if first_ok else None
    g = model.graph
    for k in range(len(nodes)):
        if k == root - 1:
            continue
        old = nodes[k]
        new = ir.Node(old.domain, old.op_type, inputs=list(old.inputs), attributes=list(old.attributes.values()), num_outputs=len(old.outputs),
                      name=old.name)
        for o, no in zip(old.outputs, new.outputs):
            no.name, no.type, no.shape = o.name, o.type, o.shape
        g.insert_after(old, new)
        for i, o in enumerate(g.outputs):
            for oo, no in zip(old.outputs, new.outputs):
                if o is oo:
                    g.outputs[i] = no
        ir.convenience.replace_all_uses_with(list(old.outputs), list(new.outputs))
        g.remove(old, safe=True)
        nodes[k] = new
        m2 = pat.match(model, g, nodes[root - 1], check_nodes_are_removable=True)
        if bool(m2) != first_ok:
            bad.append(f"after replacing {old.name} by an identical node the same pattern object {'matches' if m2 else 'does not match'} "
                       f"(before: {'match' if first_ok else 'no match'})")
        elif m2:
            stale = [n.name for n in m2.nodes if n.graph is not g]
            if stale:
                bad.append(f"after replacing {old.name} by an identical node the match contains node(s) {stale} that are no longer in the graph")
            elif [n.name for n in m2.nodes] != first_ns:
                bad.append(f"after replacing {old.name} by an identical node the matched nodes are {[n.name for n in m2.nodes]} (before: {first_ns})")
        if bad:
            break
    return bad


def run_chunk(cases):
    out = []
    pcache = {}
    for c in cases:
        key = json.dumps([c["pat"], c["alts"], c.get("pouts")])
        repl = _replacement2 if len(c.get("pouts") or []) > 1 else _replacement
        try:
            from onnxscript.rewriter import pattern as P

            if key not in pcache:
                pcache[key] = build_pattern(c["pat"], c["alts"], c.get("pouts"))
            pat, fn = pcache[key]
            model, nodes, back = build_graph(c["graph"], c["gouts"], c["root"])
            m = pat.match(model, model.graph, nodes[c["root"] - 1], check_nodes_are_removable=True)
            # remove_nodes=False: the rule keeps the matched nodes, the removability side-condition does not apply.
            # Judged through the public rule API (RewriteRule.try_rewrite) so that the flag's plumbing is covered.
            keep_interesting = c["declK"] != c["decl"] or c["declCK"] != c["declC"] or c["mut"] in ("consumer", "graphout")
            km = kcm = None
            if keep_interesting:
                kkey = "k" + key
                if kkey not in pcache:
                    pcache[kkey] = P.RewriteRule(fn, repl, remove_nodes=False)
                model3, nodes3, _ = build_graph(c["graph"], c["gouts"], c["root"])
                km = pcache[kkey].try_rewrite(model3, model3.graph, nodes3[c["root"] - 1]) is not None
            cm = None
            if any(pn["op"] == "C" for pn in c["pat"]):
                # commute=True: the rule set tries every rule of RewriteRule.commute()
                for keep in ((False, True) if keep_interesting else (False,)):
                    ckey = ("ck" if keep else "c") + key
                    if ckey not in pcache:
                        pcache[ckey] = P.RewriteRule(fn, repl, remove_nodes=not keep).commute()
                    hit = False
                    for q in pcache[ckey]:
                        model2, nodes2, _ = build_graph(c["graph"], c["gouts"], c["root"])
                        if q.try_rewrite(model2, model2.graph, nodes2[c["root"] - 1]) is not None:
                            hit = True
                            break
                    if keep:
                        kcm = hit
                    else:
                        cm = hit
            rem = None
            if len(c.get("pouts") or []) > 1 and len(nodes) > 1:
                b0 = ({n: (back.get(id(m.bindings[n]), -1) if m.bindings.get(n) is not None else 0) for n in ("x", "y", "z") if n in m.bindings}, 
                      [int(n.name[1:]) for n in m.nodes]) if m else None
                rem = _rematch_after_edit(pat, model, nodes, c["root"], m)
                if m:
                    out.append({"ok": True, "b": b0[0], "ns": b0[1], "commuted": cm, "keep": km, "keep_commuted": kcm, "rematch": rem})
                    continue
            if m:
                b = {n: (back.get(id(m.bindings[n]), -1) if m.bindings.get(n) is not None else 0) for n in ("x", "y", "z") if n in m.bindings}
                ns = [int(n.name[1:]) for n in m.nodes]
                out.append({"ok": True, "b": b, "ns": ns, "commuted": cm, "keep": km, "keep_commuted": kcm, "rematch": rem})
            else:
                out.append({"ok": False, "commuted": cm, "keep": km, "keep_commuted": kcm, "rematch": rem})
        except Exception as e:  # the matcher must not raise on any pattern/graph
            out.append({"raise": f"{type(e).__name__}: {str(e)[:200]}"})
    return out


def describe(c):
    def pv(v):
        k, n, a, b = v
        return {"var": n, "varo": f"{n}?", "const": f"{a}.0", "none": "None", "out": f"p{a}.{b}", "or": f"Or{a}"}[k]
    ps = [f"p{i}={pn['op']}({', '.join(pv(v) for v in pn['ins'])}{', a=' + str(pn['at']) if pn['at'][0] != 'any' else ''}"
          f"{', other_inputs' if pn['aoi'] else ''}{', no_other_attrs' if not pn['aoa'] else ''})" for i, pn in enumerate(c["pat"], 1)]
    al = [f"Or{k}=[{pv(a[0])}|{pv(a[1])}]" for k, a in enumerate(c["alts"], 1)]
    if len(c.get("pouts") or []) > 1:
        al.append("returns (" + ", ".join(pv(v) for v in c["pouts"]) + ")")
    gs = [f"n{k}={g['op']}({', '.join('v' + str(i) if 0 < i < 10 else ('None' if i == 0 else f'n{i // 10}_{i % 10 - 1}') for i in g['ins'])}{', a=%d' % g['a'] if g['a'] else ''}{', b=1' if g.get('b') else ''})"
          for k, g in enumerate(c["graph"], 1)]
    return f"pattern {'; '.join(ps + al)} | graph {'; '.join(gs)} outputs+{c['gouts']} root n{c['root']} (mutation: {c['mut']})"


def run(ctx: core.Ctx):
    cases = []
    for cfg in (["Matcher_local.cfg", "Matcher_quick.cfg", "Matcher_multi.cfg", "Matcher_attr2.cfg", "Matcher_optvar.cfg"] if ctx.quick
                else ["Matcher_local.cfg", "Matcher_quick.cfg", "Matcher_multi.cfg", "Matcher_attr2.cfg", "Matcher_optvar.cfg", "Matcher_multi_or.cfg", "Matcher_thorough.cfg"]):
        res = core.run_tlc("Matcher", cfg, timeout=3000)
        ctx.tlc(res, cfg)
        if not res.ok:
            raise core.MachineryError(f"TLC reports {res.violated} on {cfg}:\n{res.out[-1500:]}")
        cases += [json.loads(pr[1]) for pr in res.printed if pr and pr[0] == "CASE"]
    vac = core.run_tlc("Matcher", "Matcher_vacuity.cfg", timeout=600)
    if vac.ok:
        raise core.MachineryError("vacuity: no mutated case that still matches is reachable")
    ctx.set("spec_cases", len(cases))
    rng = random.Random(ctx.seed)
    if ctx.quick and len(cases) > 60000:
        dev = [c for c in cases if c["why"]]
        rest = [c for c in cases if not c["why"]]
        rng.shuffle(rest)
        cases = dev + rest[: 60000 - len(dev)]
    chunks = [cases[i:i + 400] for i in range(0, len(cases), 400)]
    results = [r for ch in core.pmap(run_chunk, chunks, chunksize=1) for r in ch]
    nontriv = 0
    mism = 0
    for c, r in zip(cases, results):
        ctx.add("evaluations")
        ctx.add("traces_validated_against_impl")
        if c["decl"]:
            nontriv += 1
        d = None
        if "raise" in r:
            ctx.report(c, f"Pattern.match raised {r['raise']} on {describe(c)}")
            continue
        model = c["impl"]
        declB = [dict(b) if isinstance(b, dict) else {} for b in c["declB"]]
        got_b = {n: r["b"].get(n, 0) for n in ("x", "y", "z")} if r["ok"] else None
        mb = model["b"] if isinstance(model["b"], dict) else {}
        if r["ok"] != model["ok"] or (r["ok"] and ([mb.get(n, 0) for n in sorted(mb)] != [got_b.get(n, 0) for n in sorted(mb)] or r["ns"] != list(model["ns"]))):
            mism += 1
            if mism <= 8:
                print(f"SPEC-MISMATCH C06: model {model} impl {r} on {describe(c)}")
        ok_prop = (r["ok"] == c["decl"]) and (not r["ok"] or any(all(b.get(n, 0) == got_b.get(n, 0) for n in b) for b in declB))
        if not ok_prop:
            finding = None
            if r["ok"] == model["ok"] and c["why"]:
                finding = sorted(c["why"])[0]
            kind = "reports a match but the subgraph is not an instance" if r["ok"] and not c["decl"] else (
                "reports no match but the subgraph is an instance" if not r["ok"] else f"bindings {got_b} are not those of an instance {declB}")
            ctx.report(dict(c, real=r), f"matcher {kind}: {describe(c)}", finding=finding)
        if r.get("rematch") is not None:
            ctx.add("rematch_histories")
            if r["rematch"]:
                ctx.report(dict(c, real=r), f"the matcher's verdict depends on what the pattern object matched before: {r['rematch'][0]}: {describe(c)}")
        if r.get("commuted") is not None and r["commuted"] != c["declC"]:
            # the only way the commuted search may legitimately miss an instance is the committed-first OR
            or_uses = sum(1 for pn in c["pat"] for v in pn["ins"] if v[0] == "or")
            if r["commuted"] and or_uses >= 2:
                ctx.report(dict(c, real=r), f"commute=True: a commuted copy matches although the shared OrValue is bound to two values: {describe(c)}",
                           finding="commute_clone_unshares_or")
            elif r["commuted"] or not c["alts"]:
                ctx.report(dict(c, real=r), f"commute=True: some commuted pattern {'matches' if r['commuted'] else 'does not match'} but the subgraph "
                                            f"{'is not' if r['commuted'] else 'is'} an instance under operand swaps: {describe(c)}")
            else:
                ctx.report(dict(c, real=r), f"commute=True misses an instance: {describe(c)}", finding="or_commits_first")
        if r.get("keep") is not None:
            ctx.add("keep_mode_cases")
            if r["keep"] != c["implK"]:
                mism += 1
                if mism <= 8:
                    print(f"SPEC-MISMATCH C06: remove_nodes=False: model {c['implK']} impl {r['keep']} on {describe(c)}")
            if r["keep"] != c["declK"]:
                ctx.report(dict(c, real=r), f"remove_nodes=False: rule {'fires' if r['keep'] else 'does not fire'} but the subgraph "
                                            f"{'is not' if r['keep'] else 'is'} an instance (no removability condition applies): {describe(c)}",
                           finding=(sorted(c["whyK"])[0] if r["keep"] == c["implK"] and c["whyK"] else None))
        if r.get("keep_commuted") is not None and r["keep_commuted"] != c["declCK"]:
            or_uses = sum(1 for pn in c["pat"] for v in pn["ins"] if v[0] == "or")
            if r["keep_commuted"] and or_uses >= 2:
                fnd = "commute_clone_unshares_or"
            elif not r["keep_commuted"] and c["alts"]:
                fnd = "or_commits_first"
            else:
                fnd = None
            ctx.report(dict(c, real=r), f"remove_nodes=False, commute=True: some commuted rule {'fires' if r['keep_commuted'] else 'does not fire'} but the "
                                        f"subgraph {'is not' if r['keep_commuted'] else 'is'} an instance under operand swaps: {describe(c)}", finding=fnd)
        ctx.sample({"case": describe(c), "declarative": c["decl"], "impl": r}, limit=5)
    ctx.set("distinct_nontrivial", nontriv)
    ctx.set("model_impl_mismatches", mism)
    ctx.set("exhaustive", not ctx.quick or len(cases) == ctx.coverage["spec_cases"])
    ctx.set("rule", "cases = 'done' states of Matcher.tla: every pattern of the cfg's bound x every instantiation x every single mutation; "
                    "non-trivial = the declarative meaning says the (possibly mutated) subgraph is an instance; distinct by (pattern, graph, root)")
    ctx.assumptions += ["patterns return one or two values (one or two output nodes: _match_single_output_node and _multi_match with its candidate "
                        "enumeration); remove_nodes True and False; commute through RewriteRule.commute()",
                        "two pattern nodes may correspond to the same graph node (as the implementation allows)"]


def replay(ctx, path):
    with open(path) as f:
        c = json.load(f)["case"]
    print(describe(c))
    print(run_chunk([c]))
    return 0
