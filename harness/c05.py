"""C05 - each shipped rewrite rule preserves semantics wherever it fires.

spec/Rules.tla models one application attempt of one rewrite rule to one host model as the steps of
RewriteRule.try_rewrite (Pick, Match, Check, Rewrite, Replace), for 25 rule families (51 of the 53 names exported by
onnxscript.rewriter.rules.common) over each rule's parameter tuple, twice: for the design (Deviations = {}) and for
the implementation model (known defects as named deviations).  Tensor values are exact integers on spec/Tensor.tla
(fixed point where fractions are needed).  TLC checks Sound / NoFireOnUnknown on the design and DeviationsExplain on the
implementation model and prints, for every tuple, the original meaning (Lhs), fired / raised / the replacement's value
and its validity for the declared opset, and the deviations the outcome depends on.

This harness concretises every printed tuple to a real ONNX host model (gamma, one builder per family; declared shapes
come from the spec's AuxOf), applies RewriteRuleSet([rule]) of the REAL code, and judges the property on implementation
observables only: did apply_to_model raise; if it fired: onnx.checker on the rewritten model, ORT (optimizations
disabled) before vs after on every feed (same element type, same shape, equal values; a second feed changes every
operand the model does not fix).  The spec's predictions (fired, raised, both values, validity) are compared too; a
difference is only a SPEC-MISMATCH warning.  A property failure is attributed to a named deviation only when the code
did exactly what the implementation model predicts on that tuple; anything else is a VIOLATION without finding id.

fuse_hardswish_rules (family "hardswish", session 6) replaces a chain by a float kernel: its before/after relation is equality up to
the kernel's round-off (ROUNDOFF), far below the eps class of constants (5e-5).
remove_optional_bias_from_qlinear_conv_rule is in the optional_bias family (uint8 hosts at scales 1.0, exact).
Not covered (float kernels, would need tolerance-based replay): onnxscript.rewriter.rules.fusion.* (layer norm, rms norm, rotary embedding, gqa).

VERIF_C05_MAX=<n> (optional, experiments): replay a seeded sample of n tuples.
VERIF_C05_FAMILIES=a,b (optional): restrict the replay to some families.
"""
from __future__ import annotations

import json
import logging
import os
import random

import numpy as np

from . import core

LEVEL = "model_checking"
NONE = 99

FAMILIES = ["relus_clips", "min_max", "no_op", "dropout", "cast_cos", "scatter_static", "scatter_dynamic", "expand_binop", "materialize",
            "collapse_slices", "casts", "no_op_expand", "reshape_reshape", "flatten", "slice_split", "transposes", "unsqueeze2",
            "squeeze_reshape", "matmul_reshape", "matmul_add_gemm", "gemm_matmul_add", "optional_bias", "pad_conv", "conv_affine", "batchnorm",
            "hardswish"]
MY_DEVS = ["relu_clip_negmax", "clip_clip_disjoint", "relu_clip_no_dtype_raise", "scatter_symbolic_raise",
           "scatter_static_ignores_reduction", "cast_cos_overflow", "const_tolerance", "overridable_read_as_const",
           "minmax_clip_rank", "clip_inputs_pre_opset11", "expand_rank_extension", "expand_binop_drops_attrs",
           "materialize_allowzero", "slice_split_odd", "split_num_outputs_pre_opset18", "flatten_zero_dim",
           "reshape_matmul_ignores_inner_shapes", "matmul_add_gemm_bias_shape", "gemm_matmul_add_ignores_attrs", "gemm_matmul_add_bias_shape",
           "pad_convinteger_zero_point", "autopad_ignores_dilation", "conv_affine_scalar_rank", "bn_gemm_beta",
           "hardswish_int_dtype", "hardswish_pre_opset14", "hardswish_const_rank"]
SCALE = {"no_op": 1000, "cast_cos": 10, "hardswish": 6000}
# families whose replacement is a float kernel that is not bit-identical to the matched chain: "equal values" is read up to round-off
ROUNDOFF = {"hardswish": {"f": 2e-6, "d": 1e-12}}
FULL_CHECK = {"hardswish"}

NP = {"f32": np.float32, "f16": np.float16, "f64": np.float64, "i64": np.int64, "i32": np.int32, "u8": np.uint8, "bool": np.bool_}


def _onnx_dt(dt):
    from onnx import TensorProto as T

    return {"f32": T.FLOAT, "f16": T.FLOAT16, "f64": T.DOUBLE, "i64": T.INT64, "i32": T.INT32, "u8": T.UINT8, "bool": T.BOOL}[dt]


SYMS = {-1: "N", -2: "M", -3: "K"}


def decl_shape(decl):
    """spec's declared shape -> onnx shape list (None: no shape at all)"""
    if list(decl) == [-100]:
        return None
    return [d if d >= 0 else (SYMS.get(d) if d in SYMS else None) for d in decl]


def xt(dt, shape):
    n = int(np.prod(shape)) if len(shape) else 1
    return np.array([((k % 7) - 3) for k in range(n)], dtype=NP[dt]).reshape(shape)


# ------------------------------------------------------------------ host model under construction
class Host:
    def __init__(self, opset=18):
        self.opset = opset
        self.inputs, self.inits, self.nodes, self.outputs, self.vinfo = [], [], [], [], []
        self.feed = {}          # nominal feed
        self.alt = {}           # alternative values for operands the model does not fix (graph inputs / overridable)
        self.feeds_extra = []   # further complete feeds

    def vi(self, name, dt, shape):
        from onnx import helper as h

        return h.make_tensor_value_info(name, _onnx_dt(dt), shape)

    def inp(self, name, dt, value, shape="actual"):
        """graph input.  shape: "actual" (static), a list (declared dims: int / str / None) or None: the value has no
        static shape at all - a graph input must have one, so `name` is then an un-annotated Identity of an input"""
        from onnx import helper as h

        value = np.asarray(value, dtype=NP[dt])
        if shape is None:
            self.inputs.append(self.vi(name + "_in", dt, [None] * value.ndim))
            self.feed[name + "_in"] = value
            self.nodes.append(h.make_node("Identity", [name + "_in"], [name]))
            return name
        self.inputs.append(self.vi(name, dt, list(value.shape) if shape == "actual" else shape))
        self.feed[name] = value
        return name

    def operand(self, name, kind, dt, value, alt=None):
        """a would-be constant operand given as initializer / Constant node / graph input / overridable initializer"""
        from onnx import helper as h
        from onnx import numpy_helper as nh

        value = np.asarray(value, dtype=NP[dt])
        if kind in ("init", "ginit"):
            self.inits.append(nh.from_array(value, name))
        if kind == "cnode":
            self.nodes.insert(0, h.make_node("Constant", [], [name], value=nh.from_array(value, name + "_v")))
        if kind in ("ginput", "ginit"):
            if alt is not None:
                self.alt[name] = np.asarray(alt, dtype=NP[dt])
            free = alt is not None and self.alt[name].shape != value.shape
            self.inputs.append(self.vi(name, dt, [None] * value.ndim if free else list(value.shape)))
        if kind == "ginput":
            self.feed[name] = value
        return name

    def node(self, op, ins, outs, **attrs):
        from onnx import helper as h

        self.nodes.append(h.make_node(op, ins, outs, **attrs))

    def out(self, name, dt, shape=None):
        self.outputs.append(self.vi(name, dt, shape))

    def info(self, name, dt, shape=None):
        self.vinfo.append(self.vi(name, dt, shape))

    def model(self):
        from onnx import helper as h

        g = h.make_graph(self.nodes, "host", self.inputs, self.outputs, initializer=self.inits, value_info=self.vinfo)
        return h.make_model(g, opset_imports=[h.make_opsetid("", self.opset)], ir_version=8 if self.opset < 19 else 10)

    def feeds(self):
        fs = [dict(self.feed)]
        if self.alt:
            f = dict(self.feed)
            f.update(self.alt)
            fs.append(f)
        return fs + self.feeds_extra


def _common():
    from onnxscript.rewriter.rules import common

    return common


# ------------------------------------------------------------------ gamma: one builder per family
def build_relus_clips(p, osh, aux):
    from onnxscript.rewriter.rules.common import _fuse_relus_clips as m

    h = Host()
    dt, k = p["dt"], p["ckind"]
    h.inp("x", dt, xt(dt, [7]))

    def clip(src, dst, lo, hi, tag):
        ins = [src]
        if lo != NONE or hi != NONE:
            ins.append(h.operand(f"lo{tag}", k, dt, lo, alt=lo + 1) if lo != NONE else "")
        if hi != NONE:
            ins.append(h.operand(f"hi{tag}", k, dt, hi, alt=hi - 1))
        h.node("Clip", ins, [dst])

    r = p["rule"]
    if r == "relu_relu":
        h.node("Relu", ["x"], ["t"])
        h.node("Relu", ["t"], ["y"])
        rule = m.successive_relu_rule
    elif r == "clip_relu":
        h.node("Relu", ["x"], ["t"])
        clip("t", "y", p["lo1"], p["hi1"], 1)
        rule = m.successive_clip_relu_rule
    elif r == "relu_clip":
        clip("x", "t", p["lo1"], p["hi1"], 1)
        h.node("Relu", ["t"], ["y"])
        rule = m.successive_relu_clip_rule
    else:
        clip("x", "t", p["lo1"], p["hi1"], 1)
        clip("t", "y", p["lo2"], p["hi2"], 2)
        rule = m.successive_clip_rule
    if p["vi"]:
        h.info("t", dt, [7])
    h.out("y", dt, osh)
    if p["extra"]:
        h.node("Neg", ["t"], ["y2"])
        h.out("y2", dt, [7])
    return h, [rule]


def build_min_max(p, osh, aux):
    from onnxscript.rewriter.rules.common import _min_max_to_clip as m

    h = Host(p["opset"])
    dt, k = p["dt"], p["ckind"]
    h.inp("x", dt, xt(dt, p["xs"]))
    inner = "Min" if p["rule"] in ("min_min", "min_max") else "Max"
    outer = "Min" if p["rule"] in ("min_min", "max_min") else "Max"

    def cst(name, v):
        return h.operand(name, k, dt, np.full(p["cs"], v), alt=np.full(p["cs"], v + 1))

    h.node(inner, ["x"] + [cst(f"a{i}", v) for i, v in enumerate(p["c1"])], ["t"])
    h.node(outer, ["t"] + [cst(f"b{i}", v) for i, v in enumerate(p["c2"])], ["y"])
    h.out("y", dt, osh)
    if p["extra"]:
        h.node("Neg", ["t"], ["y2"])
        h.out("y2", dt, [None] * len(osh))
    return h, [getattr(m, p["rule"] + "_rule")]


NO_CONST = {0: 0.0, 1: 1e-9, 1000: 1.0, 1001: 1.0 + 5e-6, 2000: 2.0}


def build_no_op(p, osh, aux):
    from onnxscript.rewriter.rules.common import _no_op as m

    h = Host()
    dt = p["dt"]
    h.inp("x", dt, xt(dt, p["xs"]))
    c = NO_CONST[p["cv"]]
    h.operand("c", p["ckind"], dt, np.full(p["cs"], c), alt=np.full(p["cs"], c + 1))
    h.node(p["op"], ["x", "c"] if p["side"] == "R" else ["c", "x"], ["y"])
    h.out("y", dt, osh)
    rules = {"Mul": list(m.mul_by_1_rule.commute()), "Add": list(m.add_0_rule.commute()), "Sub": [m.sub_0_rule], "Div": [m.div_by_1_rule]}
    return h, rules[p["op"]]


def build_dropout(p, osh, aux):
    from onnxscript.rewriter.rules.common import _no_op as m

    h = Host(p["opset"])
    h.inp("x", "f32", xt("f32", p["xs"]))
    outs = ["y"] + (["mask"] if p["mask"] else [])
    if p["opset"] == 10:
        attrs = {} if p["ratio"] == NONE else {"ratio": p["ratio"] / 1000.0}
        h.node("Dropout", ["x"], outs, **attrs)
    else:
        ins = ["x"]
        if p["ratio"] != NONE:
            ins.append(h.operand("ratio", "init", "f32", p["ratio"] / 1000.0))
        h.node("Dropout", ins, outs)
    h.out("y", "f32", osh)
    if p["mask"]:
        h.out("mask", "bool", osh)
    return h, [m.dropout_zero_rule, m.dropout_inference_rule]


def build_cast_cos(p, osh, aux):
    from onnx import numpy_helper as nh

    from onnxscript.rewriter.rules.common import _cast_constant_of_shape as m

    h = Host()
    shape = {"c23": [2, 3], "c0": [0], "cs": [], "dyn": [2]}[p["shp"]]
    if p["shp"] == "dyn":
        h.inp("s", "i64", np.array(shape, dtype=np.int64))
    else:
        h.operand("s", "init", "i64", np.array(shape, dtype=np.int64))
    attrs = {}
    if p["hasval"]:
        attrs["value"] = nh.from_array(np.array([p["v"] / 10.0], dtype=NP[p["vdt"]]), "v")
    h.node("ConstantOfShape", ["s"], ["t"], **attrs)
    h.node("Cast", ["t"], ["y"], to=_onnx_dt(p["to"]))
    h.out("y", p["to"], osh)
    return h, [m.cast_constant_of_shape_rule, m.cast_constant_of_shape_without_value_rule]


def build_scatter_static(p, osh, aux):
    from onnxscript.rewriter.rules.common import _redundant_scatter_nd as m

    h = Host()
    ds = list(p["ds"])
    k = 2 if p["idx"] == "short" else 3
    us = [k] + ds[1:]
    data = np.arange(1, int(np.prod(ds)) + 1, dtype=np.float32).reshape(ds)
    upd = (2 - np.arange(1, int(np.prod(us)) + 1, dtype=np.float32)).reshape(us)

    h.inp("data", "f32", data, shape=from_decl(aux["dd"]))
    h.inp("upd", "f32", upd, shape=from_decl(aux["ud"]))
    idx = {"perm": [1, 0, 2], "short": [0, 1]}.get(p["idx"], [0, 1, 2])
    kind = p["idx"] if p["idx"] in ("ginput", "ginit") else "init"
    h.operand("idx", kind, "i64", np.array(idx, dtype=np.int64).reshape(-1, 1), alt=np.array([1, 0, 2], dtype=np.int64).reshape(-1, 1))
    attrs = {} if p["red"] == "absent" else {"reduction": p["red"]}
    h.node("ScatterND", ["data", "idx", "upd"], ["y"], **attrs)
    h.out("y", "f32", osh)
    return h, [m.no_op_static_scatter_nd_rule]


def build_scatter_dynamic(p, osh, aux):
    from onnxscript.rewriter.rules.common import _redundant_scatter_nd as m

    h = Host()
    ds = list(p["ds"])
    data = np.arange(1, int(np.prod(ds)) + 1, dtype=np.float32).reshape(ds)
    h.inp("data", "f32", data, shape=from_decl(aux["dd"]))
    tds, us = list(aux["tds"]), list(aux["us"])
    h.inp("upd", "f32", -np.arange(1, int(np.prod(us)) + 1, dtype=np.float32).reshape(us), shape=[None] * len(us))
    attrs = {} if p["start"] == NONE else {"start": p["start"]}
    h.node("Shape", ["data"], ["shp"], **attrs)
    h.operand("axis", p["akind"], "i64", np.array(p["axis"], dtype=np.int64), alt=np.array(0, dtype=np.int64))
    h.node("Gather", ["shp", "axis"], ["dim"], axis=0)
    h.operand("zero", "init", "i64", np.array(0, dtype=np.int64))
    h.operand("one", "init", "i64", np.array(1, dtype=np.int64))
    h.operand("m1", "init", "i64", np.array([-1], dtype=np.int64))
    h.node("Range", ["zero", "dim", "one"], ["rng"])
    h.node("Unsqueeze", ["rng", "m1"], ["idx"])
    if p["tdk"] in ("tr_vi", "tr_novi"):
        h.node("Transpose", ["data"], ["td"], perm=list(aux["perm"]))
        if list(aux["tdd"]) != [-100]:
            h.info("td", "f32", from_decl(aux["tdd"]))
    else:
        h.inp("td", "f32", (10 + np.arange(1, int(np.prod(tds)) + 1, dtype=np.float32)).reshape(tds), shape=from_decl(aux["tdd"]))
    rattrs = {} if p["red"] == "absent" else {"reduction": p["red"]}
    h.node("ScatterND", ["td", "idx", "upd"], ["y"], **rattrs)
    h.out("y", "f32", [None] * len(osh))
    return h, [m.no_op_dynamic_scatter_nd_rule]


def build_matmul_add_gemm(p, osh, aux):
    from onnxscript.rewriter.rules.common import _matmul_add_to_gemm as m

    h = Host()
    ash, bsh, cs = list(aux["ashape"]), list(aux["bshape"]), list(p["cs"])
    h.inp("a", "f32", np.arange(1, int(np.prod(ash)) + 1, dtype=np.float32).reshape(ash), shape=from_decl(aux["ad"]))
    h.inp("b", "f32", (2 * np.arange(1, int(np.prod(bsh)) + 1, dtype=np.float32) - 5).reshape(bsh), shape=from_decl(aux["bd"]))
    h.inp("c", "f32", (10 * np.arange(1, int(np.prod(cs)) + 1, dtype=np.float32)).reshape(cs))
    pattrs = {"10": {"perm": [1, 0]}, "absent": {}, "01": {"perm": [0, 1]}}[p["perm"]]
    a, b = "a", "b"
    if p["rule"] in ("ta", "tab"):
        h.node("Transpose", ["a"], ["at"], **pattrs)
        a = "at"
    if p["rule"] in ("tb", "tab"):
        h.node("Transpose", ["b"], ["bt"], **pattrs)
        b = "bt"
    h.node("MatMul", [a, b], ["mm"])
    h.node("Add", ["c", "mm"] if p["cleft"] else ["mm", "c"], ["y"])
    h.out("y", "f32", [None] * len(osh))
    if p["extra"]:
        h.node("Neg", ["mm"], ["y2"])
        h.out("y2", "f32", [None, None])
    rule = {"plain": m.matmul_add_to_gemm_rule, "ta": m.transpose_a_matmul_add_to_gemm_rule,
            "tb": m.transpose_b_matmul_add_to_gemm_rule, "tab": m.transpose_ab_matmul_add_to_gemm_rule}[p["rule"]]
    return h, [rule]


def build_gemm_matmul_add(p, osh, aux):
    from onnxscript.rewriter.rules.common import _gemm_to_matmul_add as m

    h = Host()
    ash, bsh, cs = list(p["as"]), list(aux["bshape"]), list(p["cs"])
    h.inp("a", "f32", np.arange(1, int(np.prod(ash)) + 1, dtype=np.float32).reshape(ash))
    h.inp("b", "f32", (2 * np.arange(1, int(np.prod(bsh)) + 1, dtype=np.float32) - 5).reshape(bsh))
    h.inp("c", "f32", (10 * np.arange(1, int(np.prod(cs)) + 1, dtype=np.float32)).reshape(cs))
    h.operand("sa", "init", "i64", np.array(p["sa"], dtype=np.int64))
    h.operand("sc", "init", "i64", np.array(p["sc"], dtype=np.int64))
    h.node("Reshape", ["a", "sa"], ["ra"])
    attrs = {}
    for k, name, conv in (("alpha", "alpha", float), ("beta", "beta", float), ("ta", "transA", int), ("tb", "transB", int)):
        if p[k] != NONE:
            attrs[name] = conv(p[k])
    h.node("Gemm", ["ra", "b", "c"], ["g"], **attrs)
    h.node("Reshape", ["g", "sc"], ["y"])
    h.out("y", "f32", [None] * len(osh))
    return h, [m.gemm_to_matmul_add_rule]


def build_optional_bias(p, osh, aux):
    from onnxscript.rewriter.rules.common import _remove_optional_bias as m

    h = Host()
    bias = np.array([0, 0] if p["bias"] == "zero" else [0, 5], dtype=np.float32)
    if p["op"] == "QLinearConv":
        xzp, yzp = (1, 2) if p["tb"] else (0, 0)
        h.inp("x", "u8", np.arange(1, 7, dtype=np.uint8).reshape(1, 2, 3))
        h.operand("w", "init", "u8", np.array([1, 0, 2, 3], dtype=np.uint8).reshape(2, 2, 1))
        for name, dt, v in (("xs", "f32", 1.0), ("xzp", "u8", xzp), ("ws", "f32", 1.0), ("wzp", "u8", 0), ("ys", "f32", 1.0), ("yzp", "u8", yzp)):
            h.operand(name, "init", dt, np.asarray(v))
        h.operand("bias", p["bkind"], "i32", bias.astype(np.int32), alt=np.array([1, 1], dtype=np.int32))
        h.node("QLinearConv", ["x", "xs", "xzp", "w", "ws", "wzp", "ys", "yzp", "bias"], ["y"])
        h.out("y", "u8", list(osh))
        return h, [m.remove_optional_bias_from_qlinear_conv_rule]
    if p["op"] == "Gemm":
        h.inp("x", "f32", np.array([1, 2, 3, 4], dtype=np.float32).reshape(2, 2))
        h.operand("w", "init", "f32", np.array([1, -1, 2, 3], dtype=np.float32).reshape(2, 2))
        attrs = {"transB": 1} if p["tb"] else {}
        rule = m.remove_optional_bias_from_gemm_rule
    else:
        h.inp("x", "f32", np.arange(1, 7, dtype=np.float32).reshape(1, 2, 3))
        h.operand("w", "init", "f32", np.array([1, -1, 2, 3], dtype=np.float32).reshape(2, 2, 1))
        attrs = {"strides": [1]} if p["tb"] else {}
        rule = m.remove_optional_bias_from_conv_rule if p["op"] == "Conv" else m.remove_optional_bias_from_conv_transpose_rule
    h.operand("bias", p["bkind"], "f32", bias, alt=np.array([1, 1], dtype=np.float32))
    h.node(p["op"], ["x", "w", "bias"], ["y"], **attrs)
    h.out("y", "f32", list(osh))
    return h, [rule]


def build_pad_conv(p, osh, aux):
    from onnxscript.rewriter.rules.common import _fuse_pad_into_conv as m

    h = Host()
    isint = p["op"] == "ConvInteger"
    dt = "u8" if isint else "f32"
    L, k = p["L"], p["k"]
    x = (np.arange(1, 2 * L + 1) if isint else np.arange(1, 2 * L + 1) - 3).astype(NP[dt]).reshape(1, 2, L)
    w = (np.arange(1, 2 * k + 1) if isint else 2 * np.arange(1, 2 * k + 1) - 3).astype(NP[dt]).reshape(1, 2, k)
    h.inp("x", dt, x, shape=from_decl(aux["xd"]))
    h.operand("w", "init", dt, w)
    src = "x"
    if p["kind"] == "fuse":
        pk = p["pkind"]
        if p["axesform"] == "full":
            pads = [p["nb"], 0, p["pb"], 0, 0, p["pe"]]
            axes = None
        else:
            ax = 2 if p["axesform"] == "axes_pos" else -1
            if p["nb"]:
                pads, axes = [p["nb"], p["pb"], 0, p["pe"]], [0, ax]
            else:
                pads, axes = [p["pb"], p["pe"]], [ax]
        ins = ["x", h.operand("pads", pk, "i64", np.array(pads, dtype=np.int64), alt=np.array(pads, dtype=np.int64) + np.array([0] * (len(pads) - 1) + [1]))]
        if p["cval"] != NONE or axes is not None:
            ins.append(h.operand("cval", pk, dt, np.array(p["cval"], dtype=NP[dt])) if p["cval"] != NONE else "")
        if axes is not None:
            ins.append(h.operand("axes", pk, "i64", np.array(axes, dtype=np.int64)))
        attrs = {} if p["mode"] == "absent" else {"mode": p["mode"]}
        h.node("Pad", ins, ["padded"], **attrs)
        src = "padded"
    cattrs = {}
    if list(p["cpads"]) != [-1, -1]:
        cattrs["pads"] = list(p["cpads"])
    if p["s"] != 1:
        cattrs["strides"] = [p["s"]]
    if p["d"] != 1:
        cattrs["dilations"] = [p["d"]]
    if p["auto"] != "absent":
        cattrs["auto_pad"] = p["auto"]
    if p["kattr"]:
        cattrs["kernel_shape"] = [k]
    cins = [src, "w"]
    if isint and p["zp"] != NONE:
        cins.append(h.operand("zp", "init", "u8", np.array(p["zp"], dtype=np.uint8)))
    h.node(p["op"], cins, ["y"], **cattrs)
    h.out("y", "i32" if isint else "f32", from_decl(aux["od"]))
    if p["kind"] == "fuse":
        return h, [m.fuse_pad_into_conv_integer_rule if isint else m.fuse_pad_into_conv_rule]
    return h, [m.normalize_pad_format_conv_integer_rule if isint else m.normalize_pad_format_conv_rule]


def build_conv_affine(p, osh, aux):
    from onnxscript.rewriter.rules.common import _fuse_conv_affine as m

    h = Host()
    k = p["k"]
    h.inp("x", "f32", (np.arange(1, 9, dtype=np.float32) - 3).reshape(1, 2, 4, 1))
    wv = np.array([(2 * (i % 3)) - 1 for i in range(1, 4 * k + 1)], dtype=np.float32).reshape(2, 2, k, 1)
    h.operand("w", p["wkind"], "f32", wv, alt=wv + 1)
    h.operand("b", p["wkind"], "f32", np.array([5, -1], dtype=np.float32), alt=np.array([0, 0], dtype=np.float32))
    cs = list(p["cs"])
    h.operand("scale", p["ckind"], "f32", np.full(cs, p["sc"], dtype=np.float32), alt=np.full(cs, p["sc"] + 1, dtype=np.float32))
    h.operand("offset", p["ckind"], "f32", np.full(cs, p["of"], dtype=np.float32), alt=np.full(cs, p["of"] + 1, dtype=np.float32))
    attrs = dict({"zero": {"pads": [0, 0, 0, 0]}, "absent": {}, "nonzero": {"pads": [1, 0, 0, 0]}}[p["pads"]])
    if p["auto"] != "absent":
        attrs["auto_pad"] = p["auto"]
    if p["cv"] == "stride2":
        attrs["strides"] = [2, 1]
    if p["cv"] == "dil2":
        attrs["dilations"] = [2, 1]
    if p["rule"] == "affine_conv":
        h.node("Mul", ["x", "scale"], ["t1"])
        h.node("Add", ["t1", "offset"], ["t2"])
        h.node("Conv", ["t2", "w", "b"], ["y"], **attrs)
        rule = m.affine_conv_fusion_rule
    else:
        h.node("Conv", ["x", "w", "b"], ["c"], **attrs)
        h.node("Mul", ["c", "scale"], ["t1"])
        h.node("Add", ["t1", "offset"], ["y"])
        rule = m.conv_affine_fusion_rule
    h.out("y", "f32", [None] * len(osh))
    return h, [rule]


def build_batchnorm(p, osh, aux):
    from onnxscript.rewriter.rules.common import _fuse_batchnorm as m

    h = Host()
    op, g = p["op"], p["g"]
    f32 = np.float32
    if op == "Gemm":
        h.inp("x", "f32", np.array([1, 2, 3, 4], dtype=f32).reshape(2, 2))
        wv = np.array([1, -1, 2, 3], dtype=f32).reshape(2, 2)
    else:
        h.inp("x", "f32", np.arange(1, 7, dtype=f32).reshape(1, 2, 3))
        wv = (np.array([1, -1, 2, 3], dtype=f32) if g == 1 else np.array([2, -3], dtype=f32)).reshape(2, 2 // g, 1)
    h.operand("w", p["wkind"], "f32", wv, alt=wv + 1)
    ins = ["x", "w"]
    if p["bias"] != "absent":
        bv = {"vec": np.array([5, -2], dtype=f32), "scalar": np.array(5, dtype=f32), "row": np.array([[5, -2]], dtype=f32)}[p["bias"]]
        ins.append(h.operand("bias", p["wkind"], "f32", bv, alt=bv + 1))
    attrs = {}
    if op == "Gemm":
        if p["alpha"] != NONE:
            attrs["alpha"] = float(p["alpha"])
        if p["beta"] != NONE:
            attrs["beta"] = float(p["beta"])
        if p["tb"]:
            attrs["transB"] = 1
    elif g != 1:
        attrs["group"] = g
    h.node(op, ins, ["t"], **attrs)
    pk = p["pkind"]
    h.operand("gamma", pk, "f32", np.array([2, -4], dtype=f32), alt=np.array([1, 1], dtype=f32))
    h.operand("beta", pk, "f32", np.array([3, -1], dtype=f32), alt=np.array([0, 0], dtype=f32))
    h.operand("mean", pk, "f32", np.array([1, 2], dtype=f32), alt=np.array([0, 0], dtype=f32))
    h.operand("var", pk, "f32", np.array([p["var"], p["var"]], dtype=f32), alt=np.array([1, 1], dtype=f32))
    h.node("BatchNormalization", ["t", "gamma", "beta", "mean", "var"], ["y"], epsilon=0.0)
    h.out("y", "f32", list(osh))
    if p["shared"] in (True, "w"):
        h.node("Neg", ["w"], ["y2"])
        h.out("y2", "f32", list(wv.shape))
    elif p["shared"] == "b":
        h.node("Neg", ["bias"], ["y2"])
        h.out("y2", "f32", list(bv.shape))
    rule = {"Gemm": m.fuse_batchnorm_into_gemm_rule, "Conv": m.fuse_batchnorm_into_conv_rule,
            "ConvTranspose": m.fuse_batchnorm_into_conv_transpose_rule}[op]
    return h, [rule]


def from_decl(decl):
    """spec declared shape (ints, negative codes, [-100]) -> Host.inp shape argument"""
    d = decl_shape(decl)
    return d


EX_CLASS = {"And": "bool", "Or": "bool", "Xor": "bool", "BitShift_L": "u8", "BitShift_R": "u8", "BitwiseAnd": "i32", "BitwiseOr": "i32",
            "BitwiseXor": "i32", "Div": "i64", "Mod": "i64", "Mod_fmod": "i64"}
EX_BOOL_OUT = {"Equal", "Greater", "GreaterOrEqual", "Less", "LessOrEqual"}


def ex_operand(op, first, shape):
    cls = EX_CLASS.get(op, "f32")
    n = int(np.prod(shape)) if len(shape) else 1
    ks = range(1, n + 1)
    if cls == "bool":
        v = [(k % 2) if first else ((k // 2) % 2) for k in ks]
    elif cls in ("u8", "i32"):
        v = [((k - 1) % 5) + 1 if first else (k - 1) % 3 for k in ks]
    else:
        v = [((k - 1) % 5) - 2 if first else ((k - 1) % 3) + 1 for k in ks]
    return cls, np.array(v, dtype=NP[cls]).reshape(shape)


def build_expand_binop(p, osh, aux):
    from onnxscript.rewriter.rules.common import _remove_expand_before_binary_op as m

    h = Host()
    op = p["op"]
    cls, a = ex_operand(op, p["pos"] == 1, p["as"])
    _, b = ex_operand(op, p["pos"] == 2, p["bs"])
    h.inp("a", cls, a, shape=from_decl(aux["xd"]))
    h.inp("b", cls, b, shape=from_decl(aux["yd"]))
    es = np.array(p["es"], dtype=np.int64)
    if p["strat"] == "const":
        h.operand("s", "init", "i64", es)
    else:
        h.inp("s", "i64", es)
    h.node("Expand", ["a", "s"], ["e"])
    if list(aux["ed"]) != [-100]:
        h.info("e", cls, from_decl(aux["ed"]))
    attrs = {"Mod_fmod": {"fmod": 1}, "BitShift_L": {"direction": "LEFT"}, "BitShift_R": {"direction": "RIGHT"}}.get(op, {})
    h.node(op.split("_")[0], ["e", "b"] if p["pos"] == 1 else ["b", "e"], ["y"], **attrs)
    h.out("y", "bool" if op in EX_BOOL_OUT else cls, from_decl(aux["od"]))
    return h, m.expand_before_binary_op_rules


def build_materialize(p, osh, aux):
    from onnxscript.rewriter.rules.common import _materialize_reshape_shape as m

    h = Host(p["opset"])
    ds = list(p["ds"])
    h.inp("data", "f32", np.arange(1, int(np.prod(ds)) + 1, dtype=np.float32).reshape(ds))
    tg = np.array(p["tg"], dtype=np.int64)
    if p["skind"] == "ginput":
        h.inp("s", "i64", tg)
    else:
        h.operand("s", p["skind"], "i64", tg)
    attrs = {} if p["az"] == NONE else {"allowzero": p["az"]}
    h.node("Reshape", ["data", "s"], ["r"], **attrs)
    if list(aux["od"]) != [-100]:
        h.info("r", "f32", from_decl(aux["od"]))
    h.node("Identity", ["r"], ["y"])
    h.out("y", "f32", [None] * len(osh))
    return h, [m.materialize_reshape_shape_rule]


INT64_MAX = 2**63 - 1


def build_collapse_slices(p, osh, aux):
    from onnxscript.rewriter.rules.common import _collapse_slices as m

    h = Host()
    ds = list(p["ds"])
    h.inp("x", "f32", np.arange(1, int(np.prod(ds)) + 1, dtype=np.float32).reshape(ds), shape=from_decl(aux["xd"]))
    k = p["ckind"]
    en = INT64_MAX if p["en"] == 1000000 else p["en"]
    h.operand("st", k, "i64", [p["st"]], alt=[p["st"] + 1])
    h.operand("en", k, "i64", [en], alt=[1])
    h.operand("ax", k, "i64", [p["ax"]])
    h.operand("sp", k, "i64", [p["sp"]])
    h.node("Slice", ["x", "st", "en", "ax", "sp"], ["r"])
    if list(aux["od"]) != [-100]:
        h.info("r", "f32", from_decl(aux["od"]))
    h.node("Identity", ["r"], ["y"])
    h.out("y", "f32", [None] * len(osh))
    return h, [m.collapse_slice_rule if p["rule"] == "r1" else m.collapse_slice2_rule]


def ca_x(t1):
    if t1 == "bool":
        return np.array([k % 2 for k in range(1, 8)], dtype=np.bool_)
    return xt(t1, [7])


def build_casts(p, osh, aux):
    from onnxscript.rewriter.rules.common import _basic_rules as m

    h = Host()
    if p["kind"] == "castcast":
        h.inp("x", p["t1"], ca_x(p["t1"]))
        h.node("Cast", ["x"], ["t"], to=_onnx_dt(p["t2"]))
        h.node("Cast", ["t"], ["y"], to=_onnx_dt(p["t3"]))
        rule = m.cast_cast_rule
    else:
        h.inp("x0", p["t1"], ca_x(p["t1"]))
        h.node("Identity", ["x0"], ["x"])
        if p["known"]:
            h.info("x", p["t1"], [7])
        h.node("Cast", ["x"], ["y"], to=_onnx_dt(p["t3"]))
        rule = m.no_op_cast_rule
    h.out("y", p["t3"], osh)
    return h, [rule]


def build_no_op_expand(p, osh, aux):
    from onnxscript.rewriter.rules.common import _basic_rules as m

    h = Host()
    xs = list(p["as"])
    h.inp("x", "f32", np.arange(1, int(np.prod(xs)) + 1, dtype=np.float32).reshape(xs), shape=from_decl(aux["xd"]))
    h.operand("s", p["skind"], "i64", np.array(p["es"], dtype=np.int64), alt=np.array([2] + list(osh), dtype=np.int64))
    h.node("Expand", ["x", "s"], ["r"])
    h.node("Identity", ["r"], ["y"])
    h.out("y", "f32", [None] * len(osh))
    return h, [m.no_op_expand_rule]


def build_reshape_reshape(p, osh, aux):
    from onnxscript.rewriter.rules.common import _basic_rules as m

    h = Host()
    xs = list(p["xs"])
    h.inp("x", "f32", np.arange(1, int(np.prod(xs)) + 1, dtype=np.float32).reshape(xs))
    h.operand("s1", "init", "i64", np.array(p["s1"], dtype=np.int64))
    if p["skind"] == "ginput":
        h.inp("s2", "i64", np.array(p["s2"], dtype=np.int64))
    else:
        h.operand("s2", p["skind"], "i64", np.array(p["s2"], dtype=np.int64))
    h.node("Reshape", ["x", "s1"], ["t"], **({"allowzero": 1} if p["az1"] else {}))
    attrs = {} if p["az"] == NONE else {"allowzero": p["az"]}
    h.node("Reshape", ["t", "s2"], ["r"], **attrs)
    if p["ovi"]:
        h.info("r", "f32", list(osh))
    h.node("Identity", ["r"], ["y"])
    h.out("y", "f32", [None] * len(osh))
    if p["extra"]:
        h.node("Neg", ["t"], ["y2"])
        h.out("y2", "f32", [None] * len([d for d in p["s1"]]))
    return h, [m.reshape_reshape_rule]


def build_flatten(p, osh, aux):
    from onnxscript.rewriter.rules.common import _basic_rules as m

    h = Host()
    xs = list(p["xs"])
    h.inp("x", "f32", np.arange(1, int(np.prod(xs)) + 1, dtype=np.float32).reshape(xs), shape=from_decl(aux["xd"]))
    attrs = {} if p["axis"] == NONE else {"axis": p["axis"]}
    h.node("Flatten", ["x"], ["r"], **attrs)
    if p["ovi"]:
        h.info("r", "f32", list(osh))
    h.node("Identity", ["r"], ["y"])
    h.out("y", "f32", [None, None])
    return h, [m.flatten_to_reshape_rule]


def build_slice_split(p, osh, aux):
    from onnxscript.rewriter.rules.common import _basic_rules as m

    h = Host(p["opset"])
    xs = list(p["xs"])
    h.inp("x", "f32", np.arange(1, int(np.prod(xs)) + 1, dtype=np.float32).reshape(xs), shape="actual" if p["known"] else None)
    for n, v in (("b0", p["b0"]), ("e0", p["e0"]), ("b1", p["b1"]), ("e1", p["e1"]), ("ax", p["ax"])):
        h.operand(n, "init", "i64", [v])
    if p["order"] == "ab":
        h.node("Slice", ["x", "b0", "e0", "ax"], ["y1"])
    h.node("Slice", ["x", "b1", "e1", "ax"], ["y2"])
    if p["order"] == "ba":
        h.node("Slice", ["x", "b0", "e0", "ax"], ["y1"])
    h.out("y1", "f32", [None] * len(xs))
    h.out("y2", "f32", [None] * len(xs))
    return h, [m.slice_split_rule]


def build_transposes(p, osh, aux):
    from onnxscript.rewriter.rules.common import _basic_rules as m

    h = Host()
    xs = [2, 3, 1][: p["r"]]
    h.inp("x", "f32", np.arange(1, int(np.prod(xs)) + 1, dtype=np.float32).reshape(xs))

    def tr(src, dst, perm):
        attrs = {} if list(perm) == [-1] else {"perm": list(perm)}
        h.node("Transpose", [src], [dst], **attrs)

    if p["kind"] == "noop":
        tr("x", "y", p["p1"])
        rule = m.no_op_transpose_rule
    else:
        tr("x", "t", p["p1"])
        tr("t", "y", p["p2"])
        rule = m.transpose_transpose_rule
    h.out("y", "f32", osh)
    return h, [rule]


def build_unsqueeze2(p, osh, aux):
    from onnxscript.rewriter.rules.common import _basic_rules as m

    h = Host()
    xs = list(p["xs"])
    h.inp("x", "f32", np.arange(1, int(np.prod(xs)) + 1, dtype=np.float32).reshape(xs))
    h.operand("a1", p["akind"], "i64", [p["a1"]], alt=[0])
    h.operand("a2", p["akind"], "i64", [p["a2"]], alt=[0])
    h.node("Unsqueeze", ["x", "a1"], ["t"])
    h.node("Unsqueeze", ["t", "a2"], ["y"])
    h.out("y", "f32", [None] * len(osh))
    return h, [m.unsqueeze_unsqueeze_rule]


def build_squeeze_reshape(p, osh, aux):
    from onnxscript.rewriter.rules.common import _basic_rules as m

    h = Host()
    xs = list(p["xs"])
    h.inp("x", "f32", np.arange(1, int(np.prod(xs)) + 1, dtype=np.float32).reshape(xs), shape=from_decl(aux["xd"]))
    ins = ["x"]
    if p["axes"]:
        ins.append(h.operand("axes", "init", "i64", [0]))
    h.node("Squeeze", ins, ["t"])
    h.operand("tg", p["tkind"], "i64", np.array(p["tgt"], dtype=np.int64), alt=np.array([1, -1], dtype=np.int64))
    h.node("Reshape", ["t", "tg"], ["y"])
    h.out("y", "f32", [None] * len(osh))
    return h, [m.squeeze_reshape_1d_rule]


def build_matmul_reshape(p, osh, aux):
    from onnxscript.rewriter.rules.common import _broadcast_to_matmul as m

    h = Host()
    as_, bs = list(p["as"]), list(p["bs"])
    h.inp("a", "f32", np.arange(1, int(np.prod(as_)) + 1, dtype=np.float32).reshape(as_))
    h.inp("b", "f32", (2 * np.arange(1, int(np.prod(bs)) + 1, dtype=np.float32) - 3).reshape(bs))
    h.operand("sa", "init", "i64", np.array(p["sa"], dtype=np.int64))
    h.node("Reshape", ["a", "sa"], ["ra"])
    if list(p["sb"]) == [-1]:
        rb = "b"
    else:
        h.operand("sb", "init", "i64", np.array(p["sb"], dtype=np.int64))
        h.node("Reshape", ["b", "sb"], ["rb"])
        rb = "rb"
    h.node("MatMul", ["ra", rb], ["mm"])
    h.operand("sc", "init", "i64", np.array(p["sc"], dtype=np.int64))
    h.node("Reshape", ["mm", "sc"], ["y"])
    h.out("y", "f32", [None] * len(osh))
    return h, m.rules


HS_CLS = {"exact": 1.0, "eps": 1.0 + 5e-5, "near": 1.0 + 2e-4}
HS_ALPHA = {"sixth": 1.0 / 6.0, "sixth_eps": (1.0 / 6.0) * (1.0 + 8e-6), "fifth": 0.2}
HS_BETA = {"half": 0.5, "p6": 0.6}


def build_hardswish(p, osh, aux):
    """Add/Clip/(Mul)/Div chains and HardSigmoid*x hosts for the three rules of _fuse_hardswish.py (the rule set as exported,
    commute=True).  Only the bias operand takes the operand kind; y = x + 1 is the other graph input of a Mul near-miss."""
    from onnxscript.rewriter.rules.common import _fuse_hardswish as m

    h = Host(p["opset"])
    dt = p["dt"]
    h.inp("x", dt, xt(dt, p["xs"]))
    other = "x"
    if not p["samex"]:
        other = h.inp("y", dt, xt(dt, p["xs"]) + 1)

    def cv(c):
        return c[0] * HS_CLS[c[1]]

    if p["rule"] == "fromhs":
        attrs = {}
        if p["alpha"] != "none":
            attrs["alpha"] = HS_ALPHA[p["alpha"]]
        if p["beta"] != "none":
            attrs["beta"] = HS_BETA[p["beta"]]
        h.node("HardSigmoid", ["x"], ["c"], **attrs)
        h.node("Mul", ["c", other] if p["mord"] == "cx" else [other, "c"], ["y_out"])
    else:
        b = h.operand("b", p["ckind"], dt, np.full(p["bs"], cv(p["b"])), alt=np.full(p["bs"], cv(p["b"]) + 1))
        h.operand("lo", "init", dt, np.asarray(cv(p["lo"])))
        h.operand("hi", "init", dt, np.asarray(cv(p["hi"])))
        h.operand("d", "init", dt, np.full(p["dvs"], cv(p["d"])))
        h.node("Add", ["x", b] if p["aord"] == "xb" else [b, "x"], ["a"])
        h.node("Clip", ["a", "lo", "hi"], ["c"])
        if p["rule"] == "hswish":
            h.node("Mul", ["c", other] if p["mord"] == "cx" else [other, "c"], ["m"])
            h.node("Div", ["m", "d"], ["y_out"])
        else:
            h.node("Div", ["c", "d"], ["y_out"])
    h.out("y_out", dt, [None] * len(osh))
    if p["extra"] in ("add", "clip"):
        h.node("Neg", ["a" if p["extra"] == "add" else "c"], ["y2"])
        h.out("y2", dt, [None] * max(len(p["xs"]), len(p["bs"])))
    return h, m.fuse_hardswish_rules()


BUILDERS = {"relus_clips": build_relus_clips, "min_max": build_min_max, "no_op": build_no_op, "dropout": build_dropout,
            "cast_cos": build_cast_cos, "scatter_static": build_scatter_static, "scatter_dynamic": build_scatter_dynamic, "expand_binop": build_expand_binop,
            "materialize": build_materialize, "collapse_slices": build_collapse_slices, "casts": build_casts,
            "no_op_expand": build_no_op_expand, "reshape_reshape": build_reshape_reshape, "flatten": build_flatten,
            "slice_split": build_slice_split, "transposes": build_transposes, "unsqueeze2": build_unsqueeze2,
            "squeeze_reshape": build_squeeze_reshape, "matmul_reshape": build_matmul_reshape, "matmul_add_gemm": build_matmul_add_gemm,
            "gemm_matmul_add": build_gemm_matmul_add, "optional_bias": build_optional_bias, "pad_conv": build_pad_conv, "conv_affine": build_conv_affine, "batchnorm": build_batchnorm,
            "hardswish": build_hardswish}


# ------------------------------------------------------------------ unpinned attributes
# For every family: the operators of the matched pattern and, for EVERY attribute their opset-18 schema declares, how the
# parameter space of Rules.tla treats it:
#   "pinned"  - the pattern spells the value out (other values are near-misses and are in the menu)
#   "read"    - the rule's check()/rewrite() reads it; swept over the values that decide the condition
#   "swept"   - neither pinned nor read by the rule (the dangerous kind): swept over legal values with a semantic effect
#   "copied:<why>" / "unswept:<why>" - not swept, with the reason (attributes copied wholesale, no effect on the values
#               the hosts compute, or no runtime can execute the variant)
# check_attr_table() compares the table with the real ONNX schemas, so an attribute nobody classified (a new opset, a
# new family) is a machinery failure instead of a silent omission.
ATTR_TABLE = {
    "relus_clips": {"Relu": {}, "Clip": {}},
    "min_max": {"Min": {}, "Max": {}},
    "no_op": {"Add": {}, "Sub": {}, "Mul": {}, "Div": {}},
    "dropout": {"Dropout": {"seed": "unswept:no effect in inference mode (ratio / training_mode are inputs from opset 12 on; "
                                    "the opset-10 attribute ratio is pinned)"}},
    "cast_cos": {"ConstantOfShape": {"value": "read"}, "Cast": {"to": "read"}},
    "casts": {"Cast": {"to": "read"}},
    "scatter_static": {"ScatterND": {"reduction": "swept"}},
    "scatter_dynamic": {"ScatterND": {"reduction": "pinned"}, "Shape": {"start": "pinned", "end": "unswept:any legal value either "
                        "leaves Gather(shape, axis) unchanged or makes the host invalid"}, "Gather": {"axis": "pinned"}, "Range": {},
                        "Unsqueeze": {}, "Transpose": {"perm": "read"}},
    "expand_binop": {"Expand": {}, "Mod": {"fmod": "swept"}, "BitShift": {"direction": "swept"}, "Add": {}, "Sub": {}, "Mul": {},
                     "Div": {}, "Pow": {}, "PRelu": {}, "And": {}, "Or": {}, "Xor": {}, "Equal": {}, "Greater": {}, "GreaterOrEqual": {},
                     "Less": {}, "LessOrEqual": {}, "BitwiseAnd": {}, "BitwiseOr": {}, "BitwiseXor": {}},
    "materialize": {"Reshape": {"allowzero": "swept"}},
    "collapse_slices": {"Slice": {}},
    "no_op_expand": {"Expand": {}},
    "reshape_reshape": {"Reshape": {"allowzero": "swept"}},          # both Reshapes: az (read, second) and az1 (first)
    "flatten": {"Flatten": {"axis": "read"}},
    "slice_split": {"Slice": {}},
    "transposes": {"Transpose": {"perm": "read"}},
    "unsqueeze2": {"Unsqueeze": {}},
    "squeeze_reshape": {"Squeeze": {}, "Reshape": {"allowzero": "unswept:the target is pinned to [-1], where allowzero has no effect"}},
    "matmul_reshape": {"Reshape": {"allowzero": "unswept:the reshape targets in the menu contain no 0"}, "MatMul": {}},
    "matmul_add_gemm": {"MatMul": {}, "Add": {}, "Transpose": {"perm": "pinned"}},
    "gemm_matmul_add": {"Reshape": {"allowzero": "unswept:the reshape targets in the menu contain no 0"},
                        "Gemm": {"alpha": "pinned", "beta": "pinned", "transA": "swept", "transB": "swept"}},
    "optional_bias": {"Gemm": {"alpha": "copied:all attributes are passed on (**node.attributes)", "beta": "copied:same", "transA": "copied:same",
                               "transB": "swept"},
                      "Conv": {"auto_pad": "copied:all attributes are passed on", "dilations": "copied:same", "group": "copied:same",
                               "kernel_shape": "copied:same", "pads": "copied:same", "strides": "swept"},
                      "QLinearConv": {"auto_pad": "copied:all attributes are passed on", "dilations": "copied:same", "group": "copied:same",
                                      "kernel_shape": "copied:same", "pads": "copied:same", "strides": "copied:same"},
                      "ConvTranspose": {"auto_pad": "copied:all attributes are passed on", "dilations": "copied:same", "group": "copied:same",
                                        "kernel_shape": "copied:same", "output_padding": "copied:same", "output_shape": "copied:same",
                                        "pads": "copied:same", "strides": "swept"}},
    "pad_conv": {"Pad": {"mode": "read"},
                 "Conv": {"auto_pad": "read", "dilations": "swept", "group": "copied:all attributes are passed on; the hosts have group 1",
                          "kernel_shape": "read", "pads": "read", "strides": "read"},
                 "ConvInteger": {"auto_pad": "read", "dilations": "swept", "group": "copied:all attributes are passed on; the hosts have group 1",
                                 "kernel_shape": "read", "pads": "read", "strides": "read"}},
    "conv_affine": {"Mul": {}, "Add": {},
                    "Conv": {"auto_pad": "swept", "dilations": "swept", "group": "copied:all attributes are passed on; the hosts have group 1",
                             "kernel_shape": "copied:all attributes are passed on", "pads": "pinned", "strides": "swept"}},
    "hardswish": {"Add": {}, "Clip": {}, "Mul": {}, "Div": {}, "HardSigmoid": {"alpha": "read", "beta": "read"}},
    "batchnorm": {"BatchNormalization": {"epsilon": "read", "momentum": "unswept:no effect in inference mode",
                                         "training_mode": "unswept:training mode needs three outputs, which the single-output pattern does "
                                                          "not match, and ORT refuses every other form"},
                  "Gemm": {"alpha": "swept", "beta": "swept", "transA": "unswept:does not enter the fused constants", "transB": "read"},
                  "Conv": {"auto_pad": "copied:all attributes are passed on; kernel size 1", "dilations": "copied:same", "group": "swept",
                           "kernel_shape": "copied:same", "pads": "copied:same", "strides": "copied:same"},
                  "ConvTranspose": {"auto_pad": "copied:all attributes are passed on; kernel size 1", "dilations": "copied:same", "group": "read",
                                    "kernel_shape": "copied:same", "output_padding": "copied:same", "output_shape": "copied:same",
                                    "pads": "copied:same", "strides": "copied:same"}},
}


def check_attr_table():
    """every attribute of every matched operator (opset 18) is classified, and nothing in the table is stale"""
    import onnx

    problems = []
    for fam in FAMILIES:
        if fam not in ATTR_TABLE:
            problems.append(f"family {fam} has no entry")
    for fam, ops in ATTR_TABLE.items():
        for op, attrs in ops.items():
            real = set(onnx.defs.get_schema(op, 18, "").attributes)
            for a in sorted(real - set(attrs)):
                problems.append(f"{fam}: attribute {op}.{a} is not classified")
            for a in sorted(set(attrs) - real):
                problems.append(f"{fam}: {op} has no attribute {a}")
            for a, st in attrs.items():
                if st.split(":")[0] not in ("pinned", "read", "swept", "copied", "unswept"):
                    problems.append(f"{fam}: {op}.{a}: unknown status {st}")
    if problems:
        raise core.MachineryError("unpinned-attribute table: " + "; ".join(problems[:8]))
    counts = {}
    for ops in ATTR_TABLE.values():
        for attrs in ops.values():
            for st in attrs.values():
                counts[st.split(":")[0]] = counts.get(st.split(":")[0], 0) + 1
    return counts


# ------------------------------------------------------------------ observation
def enc(a, scale=1):
    a = np.asarray(a)
    dt = {np.dtype(v): k for k, v in NP.items()}.get(a.dtype, str(a.dtype))
    if a.dtype.kind == "f":
        with np.errstate(all="ignore"):
            v = a.astype(np.float64) * scale
        if not np.all(np.isfinite(v)):
            data = [repr(float(x)) for x in v.reshape(-1)]
        else:
            r = np.rint(v)
            tol = (2e-2 if a.dtype == np.float16 else 1e-4) * scale
            data = [int(x) for x in r.reshape(-1)] if np.allclose(r, v, rtol=0, atol=tol) else [repr(float(x)) for x in v.reshape(-1)]
    else:
        data = [int(x) * scale for x in a.reshape(-1)]
    return {"dt": dt, "shape": list(a.shape), "data": data}


def enc_spec(t):
    if t["dt"] in ("ERR", "RAISE"):
        return t["dt"]
    return {"dt": t["dt"], "shape": list(t["shape"]), "data": list(t["data"])}


def tensors(t):
    """spec value (enc_spec form) -> list of tensors (a PAIR stands for a two-output pattern)"""
    return list(t["data"]) if t["dt"] == "PAIR" else [t]


def same_out(a, b, roundoff=None):
    """the property's relation between two ORT results: same element type, same shape, equal values (up to the
    round-off of the family's float kernel where `roundoff` is given)"""
    if len(a) != len(b):
        return False
    for u, v in zip(a, b):
        if u.dtype != v.dtype or u.shape != v.shape:
            return False
        if roundoff and u.dtype.kind == "f":
            r = roundoff.get(u.dtype.char, 2e-6)
            if not np.allclose(u, v, rtol=r, atol=r, equal_nan=True):
                return False
        elif not np.array_equal(u, v, equal_nan=(u.dtype.kind == "f")):
            return False
    return True


def out_shapes(lhs):
    """shape(s) of the host's output(s) as the spec computes them (lhs in enc_spec form)"""
    if lhs["dt"] == "PAIR":
        return [list(t["shape"]) for t in lhs["data"]]
    return list(lhs["shape"])


def observe(fam, p, lhs, aux):
    """Build the host, run it, apply the real rule(s), run the result.  Pure function of (fam, p, lhs)."""
    import onnx

    from onnxscript import ir
    from onnxscript.rewriter import RewriteRuleSet

    logging.getLogger("onnxscript").setLevel(logging.CRITICAL)
    host, rules = BUILDERS[fam](p, out_shapes(lhs), aux)
    model = host.model()
    feeds = host.feeds()
    ob = {"fired": None, "raised": None, "before": None, "after": None, "orig_checker": None, "checker": None,
          "before_err": None, "after_err": None, "same": None, "n_feeds": len(feeds), "ops_after": None}
    try:
        onnx.checker.check_model(model)
    except Exception as e:  # noqa: BLE001
        ob["orig_checker"] = f"{type(e).__name__}: {str(e)[:200]}"
    befores = None
    try:
        sess = core.ort_session(model)
        befores = [sess.run(None, feeds[0])]
        for f in feeds[1:]:          # a secondary feed the original cannot run is dropped (counted), not judged
            try:
                befores.append(sess.run(None, f))
            except Exception:  # noqa: BLE001
                ob["feeds_dropped"] = ob.get("feeds_dropped", 0) + 1
                feeds = [g for g in feeds if g is not f]
        ob["before"] = [enc(x, SCALE.get(fam, 1)) for x in befores[0]]
    except Exception as e:  # noqa: BLE001
        ob["before_err"] = f"{type(e).__name__}: {str(e)[:200]}"
        # ORT cannot run the original (e.g. auto_pad SAME_* with dilations).  Arbitration: if onnx's reference evaluator
        # runs it AND yields exactly the tensor the specification computes, that agreed value stands for "before".
        try:
            from onnx.reference import ReferenceEvaluator

            ref = ReferenceEvaluator(model).run(None, feeds[0])
            if [enc(x, SCALE.get(fam, 1)) for x in ref][: len(tensors(lhs))] == tensors(lhs):
                befores, feeds = [ref], feeds[:1]
                ob["before"] = [enc(x, SCALE.get(fam, 1)) for x in ref]
                ob["before_by_reference"] = True
                ob["before_err"] = None
        except Exception:  # noqa: BLE001
            pass
    im = ir.serde.deserialize_model(model)
    try:
        rs = rules if isinstance(rules, RewriteRuleSet) else RewriteRuleSet(list(rules))
        count = rs.apply_to_model(im)
        ob["fired"] = int(count)
    except Exception as e:  # noqa: BLE001
        ob["raised"] = f"{type(e).__name__}: {str(e)[:200]}"
        return ob
    if not count:
        return ob
    try:
        after_model = ir.serde.serialize_model(im)
        ob["ops_after"] = [n.op_type for n in after_model.graph.node]
    except Exception as e:  # noqa: BLE001
        ob["after_err"] = f"serialize: {type(e).__name__}: {str(e)[:200]}"
        return ob
    try:
        # families whose replacement operator accepts fewer element types than the matched chain are checked WITH type inference
        onnx.checker.check_model(after_model, full_check=fam in FULL_CHECK)
    except Exception as e:  # noqa: BLE001
        ob["checker"] = f"{type(e).__name__}: {str(e)[:300]}"
    if befores is None:
        return ob
    try:
        sess2 = core.ort_session(after_model)
        afters = [sess2.run(None, f) for f in feeds]
        ob["after"] = [enc(x, SCALE.get(fam, 1)) for x in afters[0]]
        ob["same"] = [same_out(a, b, ROUNDOFF.get(fam)) for a, b in zip(befores, afters)]
        bad = [i for i, s in enumerate(ob["same"]) if not s]
        if bad:
            i = bad[0]
            ob["diff"] = {"feed": i, "before": [enc(x, SCALE.get(fam, 1)) for x in befores[i]], "after": [enc(x, SCALE.get(fam, 1)) for x in afters[i]]}
            if ob["diff"]["before"] == ob["diff"]["after"]:      # the fixed-point encoding hides the difference: show raw values
                ob["diff"] = {"feed": i, "before": [np.asarray(x).reshape(-1).tolist() for x in befores[i]],
                              "after": [np.asarray(x).reshape(-1).tolist() for x in afters[i]]}
    except Exception as e:  # noqa: BLE001
        ob["after_err"] = f"{type(e).__name__}: {str(e)[:300]}"
    return ob


def _worker(case):
    import onnxruntime as ort

    ort.set_default_logger_severity(4)
    return observe(case["fam"], case["p"], enc_spec(case["lhs"]), case["aux"])


# ------------------------------------------------------------------ TLC
def _impl_cfg(base: str) -> str:
    fixed = {(f.get("id") if isinstance(f, dict) else f) for f in core.load_known_findings().get("fixed", [])}
    live = [d for d in MY_DEVS if d not in fixed]
    if len(live) == len(MY_DEVS):
        return base
    with open(os.path.join(core.SPEC_DIR, base)) as f:
        text = f.read()
    text = text.replace("Deviations <- AllDevs", "Deviations = {%s}" % ", ".join(f'"{d}"' for d in live))
    path = os.path.join(core.scratch(), base)
    with open(path, "w") as f:
        f.write(text)
    return path


def tlc_cases(ctx):
    from concurrent.futures import ThreadPoolExecutor

    tier = "quick" if ctx.quick else "thorough"
    # one run checks the design (fin.D: Sound, NoFireOnUnknown) and the implementation model (fin.I: DeviationsExplain)
    jobs = {"impl": (_impl_cfg(f"Rules_{tier}.cfg"), dict(workers=max(2, core.NCPU - 4), timeout=2400))}
    for w in ("vacuity_NeverFires", "vacuity_ImplHolds", "vacuity_NeverDeclines"):
        jobs[w] = (f"Rules_{w}.cfg", dict(workers=2, timeout=900, heap="2g"))
    with ThreadPoolExecutor(len(jobs)) as ex:
        futs = {k: ex.submit(core.run_tlc, "Rules", c, **kw) for k, (c, kw) in jobs.items()}
        res = {k: f.result() for k, f in futs.items()}
    for k, r in res.items():
        ctx.tlc(r, os.path.basename(jobs[k][0]))
    if not res["impl"].ok:
        raise core.MachineryError(f"TLC: {res['impl'].violated} violated in Rules.tla (design-level property or "
                                  f"unexplained deviation):\n{res['impl'].out[-2500:]}")
    for w in ("vacuity_NeverFires", "vacuity_ImplHolds", "vacuity_NeverDeclines"):
        if res[w].ok:
            raise core.MachineryError(f"vacuity: witness {w} is unreachable in Rules.tla - the invariants cannot fail")
    cases = []
    for pr in res["impl"].printed:
        if pr and pr[0] == "CASE":
            cases.append(json.loads(pr[1]))
    if not cases:
        raise core.MachineryError("TLC printed no CASE lines")
    cases.sort(key=lambda c: json.dumps([c["fam"], c["p"]], sort_keys=True))
    return cases


# ------------------------------------------------------------------ judgement
def predicted_bad(c):
    i = c["I"]
    return bool(i["raised"] or (i["fired"] and (not i["valid"] or enc_spec(i["res"]) != enc_spec(c["lhs"]) or c["unknown"])))


PREFER = ["scatter_symbolic_raise", "relu_clip_no_dtype_raise", "cast_cos_overflow"]     # raises first: they hide the others


def pick_finding(c):
    """one deviation id out of `why` (all of them are needed for the model's outcome): raise-type deviations first when
    the model says the attempt raises, otherwise alphabetical"""
    why = sorted(c["why"])
    if c["I"]["raised"]:
        for d in PREFER:
            if d in why:
                return d
    rest = [d for d in why if d not in PREFER] or why
    return rest[0]


def judge(ctx, c, ob, stats):
    """property verdict from implementation observables; spec comparison as SPEC-MISMATCH"""
    fam, p = c["fam"], c["p"]
    I = c["I"]
    case = {"fam": fam, "p": p, "aux": c["aux"], "observed": ob, "spec": {"lhs": enc_spec(c["lhs"]), "I": {**I, "res": enc_spec(I["res"])},
                                                          "D": {**c["D"], "res": enc_spec(c["D"]["res"])}, "why": c["why"]}}
    mism = []
    fired = bool(ob["fired"])
    raised = ob["raised"] is not None
    lhs = enc_spec(c["lhs"])
    judged = lhs != "ERR"
    if ob.get("before_by_reference"):
        stats["judged_by_reference"] = stats.get("judged_by_reference", 0) + 1
    if ob["before_err"] is not None:
        stats["orig_not_runnable"] += 1          # discarded and counted, not judged (DESIGN 2.3)
        stats.setdefault("refused_by_family", {})
        stats["refused_by_family"][fam] = stats["refused_by_family"].get(fam, 0) + 1
    elif judged and c["exact"] and ob["before"][: len(tensors(lhs))] != tensors(lhs):
        mism.append(f"Lhs: spec {lhs} ORT {ob['before']}")
    if judged or ob["before_err"] is None:
        if fired != bool(I["fired"]):
            mism.append(f"fired: model {I['fired']} impl {ob['fired']}")
        if raised != bool(I["raised"]):
            mism.append(f"raised: model {I['raised']} impl {ob['raised']}")
        if fired and I["fired"] and ob["before_err"] is None:
            res = enc_spec(I["res"])
            if (ob["checker"] is None) != bool(I["valid"]) and ob["orig_checker"] is None:
                mism.append(f"validity: model valid={I['valid']} impl checker={ob['checker']}")
            if I["valid"] and (ob["after_err"] is None) != (res != "ERR"):
                mism.append(f"runnable: model Rhs={res} impl ort={ob['after_err']}")
            if c["exact"] and I["valid"] and ob["after"] is not None and res != "ERR":
                if ob["after"][: len(tensors(res))] != tensors(res):
                    mism.append(f"Rhs: spec {res} ORT {ob['after']}")
    # ---- the property
    what = None
    if raised:
        what = f"applying the rule raised {ob['raised']} (neither fired nor declined)"
    elif fired and ob["before_err"] is None:
        if ob["orig_checker"] is None and ob["checker"] is not None:
            what = f"rewritten model is not valid for the declared opset: {ob['checker']}"
        elif ob["after_err"] is not None:
            what = f"rewritten model cannot be run: {ob['after_err']}"
        elif ob["same"] is not None and not all(ob["same"]):
            d = ob.get("diff", {})
            what = f"outputs differ (feed #{d.get('feed')}): before {d.get('before')} after {d.get('after')}"
    if what is not None:
        finding = None
        # a known finding explains the failure only if the code did exactly what the implementation model (with the
        # named deviations) says it does on this tuple; anything else is a new violation
        if predicted_bad(c) and c["why"] and not mism:
            finding = pick_finding(c)
        ctx.report(case, f"{fam} {json.dumps(p, sort_keys=True)}: {what}", finding=finding)
        stats["bad"] += 1
        key = finding or "UNEXPLAINED"
        stats.setdefault("by_deviation", {})
        stats["by_deviation"][key] = stats["by_deviation"].get(key, 0) + 1
    for m in mism:
        stats["mismatch"] += 1
        k = f"{fam}:{m.split(':')[0]}"
        stats["mismatch_kinds"][k] = stats["mismatch_kinds"].get(k, 0) + 1
        if stats["mismatch"] <= 25:
            print(f"SPEC-MISMATCH C05 {fam} {json.dumps(p, sort_keys=True)}: {m}", flush=True)
    return case


def nontrivial(c):
    return c["I"]["fired"] or c["D"]["fired"] or c["I"]["raised"]


def select(ctx, cases):
    """thorough: every tuple TLC printed.  quick: every tuple on which the model says the rule fires, raises or deviates,
    plus the tuples on which it declines (a seeded sample only if a family has more than 3000 of a kind)"""
    cases = [c for c in cases if c["lhs"]["dt"] != "ERR"]      # hosts without a defined original meaning are not generated
    fams = os.environ.get("VERIF_C05_FAMILIES")
    if fams:
        cases = [c for c in cases if c["fam"] in fams.split(",")]
    mx = os.environ.get("VERIF_C05_MAX")
    rng = random.Random(ctx.seed)
    if mx:
        cases = list(cases)
        rng.shuffle(cases)
        return cases[: int(mx)], False
    if not ctx.quick:
        return cases, True
    byfam = {}
    for c in cases:
        byfam.setdefault(c["fam"], []).append(c)
    out = []
    exhaustive = True
    for f in sorted(byfam):
        cs = byfam[f]
        keep = [c for c in cs if c["why"] or nontrivial(c)]
        rest = [c for c in cs if not (c["why"] or nontrivial(c))]
        # declining tuples: those where a needed fact is not derivable from the model (the near-misses the property
        # talks about) are sampled separately from the plain algebraic near-misses
        for part, cap in (([c for c in rest if c["unknown"]], 3000), ([c for c in rest if not c["unknown"]], 3000)):
            if len(part) > cap:
                rng.shuffle(part)
                part = part[:cap]
                exhaustive = False
            out += part
        out += keep
    out.sort(key=lambda c: json.dumps([c["fam"], c["p"]], sort_keys=True))
    return out, exhaustive


def run(ctx: core.Ctx):
    logging.getLogger("onnxscript").setLevel(logging.CRITICAL)
    ctx.set("matched_op_attributes", check_attr_table())
    cases = tlc_cases(ctx)
    ctx.set("spec_cases", len(cases))
    chosen, exhaustive = select(ctx, cases)
    obs = core.pmap_safe(_worker, chosen, timeout=120)
    stats = {"bad": 0, "mismatch": 0, "orig_not_runnable": 0, "hang": 0, "mismatch_kinds": {}}
    per_fam = {}
    nontriv = set()
    for c, ob in zip(chosen, obs):
        key = json.dumps([c["fam"], c["p"]], sort_keys=True)
        if ob is core.HANG or isinstance(ob, core.MachineryErrorResult):
            if ob is core.HANG:
                stats["hang"] += 1
                ctx.report({"fam": c["fam"], "p": c["p"]}, f"{c['fam']} {key}: applying the rule did not terminate")
                continue
            raise core.MachineryError(f"replay worker failed on {key}: {ob!r}")
        ctx.add("evaluations")
        f = per_fam.setdefault(c["fam"], {"replayed": 0, "fired": 0, "raised": 0, "declined": 0})
        f["replayed"] += 1
        f["fired" if ob["fired"] else ("raised" if ob["raised"] else "declined")] += 1
        case = judge(ctx, c, ob, stats)
        if nontrivial(c) or ob["fired"] or ob["raised"]:
            nontriv.add(key)
            ctx.sample({"fam": c["fam"], "p": c["p"], "fired": ob["fired"], "raised": ob["raised"], "same": ob["same"]}, limit=8)
    ctx.set("per_family", per_fam)
    ctx.set("distinct_nontrivial", len(nontriv))
    ctx.set("traces_validated_against_impl", ctx.coverage.get("evaluations", 0))
    ctx.set("property_failures_by_deviation", dict(sorted(stats.get("by_deviation", {}).items())))
    if stats.get("by_deviation"):
        print("C05 property failures by modelled deviation: " + json.dumps(dict(sorted(stats["by_deviation"].items()))), flush=True)
    ctx.set("model_impl_mismatches", stats["mismatch"])
    if stats["mismatch_kinds"]:
        ctx.set("model_impl_mismatch_kinds", stats["mismatch_kinds"])
    ctx.set("hosts_ort_refused", stats["orig_not_runnable"])
    if stats.get("refused_by_family"):
        ctx.set("hosts_ort_refused_by_family", stats["refused_by_family"])
    if stats["orig_not_runnable"] > 0.02 * max(1, len(chosen)):
        raise core.MachineryError(f"{stats['orig_not_runnable']} of {len(chosen)} generated hosts are refused by ORT: the spec's host validity "
                                  f"predicates are wrong ({stats.get('refused_by_family')})")
    ctx.set("hosts_judged_by_onnx_reference", stats.get("judged_by_reference", 0))
    ctx.set("exhaustive", bool(exhaustive))
    ctx.set("rule", "cases = reachable 'done' states of Rules.tla (rule family x parameter tuple, menus in the cfg); non-trivial = "
                    "the rule fired or raised (model or real code); distinct by (family, parameter tuple)")
    ctx.assumptions += [
        "onnxruntime (optimizations disabled) implements the operators involved as the ONNX operator text says; it is the common judge of before and after",
        "'for all inputs' is sampled by one integer-valued test tensor per host that contains every value of -3..3 (elementwise rules), plus a second feed that changes every operand the model does not fix (graph inputs, overridable initializers)",
        "hosts ORT refuses although the operator text gives them a meaning (auto_pad SAME_* with dilations) are judged against onnx.reference, and only when it returns exactly the tensor Rules.tla computes",
        "quick tier replays every tuple on which the model fires / raises / deviates and the declining tuples (a seeded sample only where a family has more than 3000 of them); thorough replays every tuple",
        "signed zeros, NaN/inf inputs and float rounding (e.g. double rounding in cast_cast) are outside the integer-valued domain of the spec",
    ]


def replay(ctx, path):
    with open(path) as f:
        case = json.load(f)["case"]
    ob = observe(case["fam"], case["p"], case["spec"]["lhs"], case["aux"])
    print(json.dumps({"fam": case["fam"], "p": case["p"], "now": ob}, indent=1, default=str))
    bad = ob["raised"] is not None or (ob["fired"] and (ob["checker"] is not None or ob["after_err"] is not None or (ob["same"] is not None and not all(ob["same"]))))
    return 1 if bad else 0
