"""C05 - each shipped rewrite rule preserves semantics wherever it fires.

spec/Rules.tla models one application attempt of one rewrite rule to one host model (Pick, Match,
Check, Rewrite, Replace), per rule family over the rule's parameter tuple, twice: for the design
(Deviations = {}) and for the implementation model (known defects as named deviations).  TLC checks
Sound / NoFireOnUnknown on the design and DeviationsExplain on the implementation model and prints,
for every tuple, the original meaning (Lhs), fired / raised / the replacement's value and validity.

This harness concretises every printed tuple to a real ONNX host model (gamma, one builder per
family), applies RewriteRuleSet([rule]) of the REAL code, and judges the property on implementation
observables only: did apply_to_model raise; if it fired: onnx.checker on the rewritten model, ORT
(optimizations disabled) before vs after on every feed (dtype, shape, values).  The spec's
predictions (fired, raised, both values, validity) are compared too; a difference is only a
SPEC-MISMATCH warning.

VERIF_C05_MAX=<n> (optional, experiments): replay a seeded sample of n tuples.
VERIF_C05_FAMILIES=a,b (optional): restrict to some families.
"""
from __future__ import annotations

import json
import logging
import os
import random

import numpy as np

from . import core

LEVEL = "model_checking"
NONE = 99

FAMILIES = ["relus_clips", "min_max", "no_op", "dropout", "cast_cos", "scatter_static"]
MY_DEVS = ["relu_clip_negmax", "clip_clip_disjoint", "relu_clip_no_dtype_raise", "scatter_symbolic_raise",
           "scatter_static_ignores_reduction", "cast_cos_overflow", "const_tolerance", "overridable_read_as_const",
           "minmax_clip_rank", "clip_inputs_pre_opset11", "expand_rank_extension", "expand_binop_drops_attrs",
           "materialize_allowzero", "slice_split_odd", "split_num_outputs_pre_opset18", "flatten_zero_dim",
           "reshape_matmul_ignores_inner_shapes"]
SCALE = {"no_op": 1000, "cast_cos": 10}

NP = {"f32": np.float32, "f16": np.float16, "f64": np.float64, "i64": np.int64, "i32": np.int32, "u8": np.uint8, "bool": np.bool_}


def _onnx_dt(dt):
    from onnx import TensorProto as T

    return {"f32": T.FLOAT, "f16": T.FLOAT16, "f64": T.DOUBLE, "i64": T.INT64, "i32": T.INT32, "u8": T.UINT8, "bool": T.BOOL}[dt]


SYMS = {-1: "N", -2: "M", -3: "K"}


def decl_shape(decl):
    """spec's declared shape -> onnx shape list (None: no shape at all)"""
    if list(decl) == [-100]:
        return None
    return [d if d >= 0 else (SYMS.get(d) if d in SYMS else None) for d in decl]


def xt(dt, shape):
    n = int(np.prod(shape)) if len(shape) else 1
    return np.array([((k % 7) - 3) for k in range(n)], dtype=NP[dt]).reshape(shape)


# ------------------------------------------------------------------ host model under construction
class Host:
    def __init__(self, opset=18):
        self.opset = opset
        self.inputs, self.inits, self.nodes, self.outputs, self.vinfo = [], [], [], [], []
        self.feed = {}          # nominal feed
        self.alt = {}           # alternative values for operands the model does not fix (graph inputs / overridable)
        self.feeds_extra = []   # further complete feeds

    def vi(self, name, dt, shape):
        from onnx import helper as h

        return h.make_tensor_value_info(name, _onnx_dt(dt), shape)

    def inp(self, name, dt, value, shape="actual"):
        value = np.asarray(value, dtype=NP[dt])
        self.inputs.append(self.vi(name, dt, list(value.shape) if shape == "actual" else shape))
        self.feed[name] = value
        return name

    def operand(self, name, kind, dt, value, alt=None):
        """a would-be constant operand given as initializer / Constant node / graph input / overridable initializer"""
        from onnx import helper as h
        from onnx import numpy_helper as nh

        value = np.asarray(value, dtype=NP[dt])
        if kind in ("init", "ginit"):
            self.inits.append(nh.from_array(value, name))
        if kind == "cnode":
            self.nodes.insert(0, h.make_node("Constant", [], [name], value=nh.from_array(value, name + "_v")))
        if kind in ("ginput", "ginit"):
            self.inputs.append(self.vi(name, dt, list(value.shape)))
            if alt is not None:
                self.alt[name] = np.asarray(alt, dtype=NP[dt])
        if kind == "ginput":
            self.feed[name] = value
        return name

    def node(self, op, ins, outs, **attrs):
        from onnx import helper as h

        self.nodes.append(h.make_node(op, ins, outs, **attrs))

    def out(self, name, dt, shape=None):
        self.outputs.append(self.vi(name, dt, shape))

    def info(self, name, dt, shape=None):
        self.vinfo.append(self.vi(name, dt, shape))

    def model(self):
        from onnx import helper as h

        g = h.make_graph(self.nodes, "host", self.inputs, self.outputs, initializer=self.inits, value_info=self.vinfo)
        return h.make_model(g, opset_imports=[h.make_opsetid("", self.opset)], ir_version=8 if self.opset < 19 else 10)

    def feeds(self):
        fs = [dict(self.feed)]
        if self.alt:
            f = dict(self.feed)
            f.update(self.alt)
            fs.append(f)
        return fs + self.feeds_extra


def _common():
    from onnxscript.rewriter.rules import common

    return common


# ------------------------------------------------------------------ gamma: one builder per family
def build_relus_clips(p, osh):
    from onnxscript.rewriter.rules.common import _fuse_relus_clips as m

    h = Host()
    dt, k = p["dt"], p["ckind"]
    h.inp("x", dt, xt(dt, [7]))

    def clip(src, dst, lo, hi, tag):
        ins = [src]
        if lo != NONE or hi != NONE:
            ins.append(h.operand(f"lo{tag}", k, dt, lo, alt=lo + 1) if lo != NONE else "")
        if hi != NONE:
            ins.append(h.operand(f"hi{tag}", k, dt, hi, alt=hi - 1))
        h.node("Clip", ins, [dst])

    r = p["rule"]
    if r == "relu_relu":
        h.node("Relu", ["x"], ["t"])
        h.node("Relu", ["t"], ["y"])
        rule = m.successive_relu_rule
    elif r == "clip_relu":
        h.node("Relu", ["x"], ["t"])
        clip("t", "y", p["lo1"], p["hi1"], 1)
        rule = m.successive_clip_relu_rule
    elif r == "relu_clip":
        clip("x", "t", p["lo1"], p["hi1"], 1)
        h.node("Relu", ["t"], ["y"])
        rule = m.successive_relu_clip_rule
    else:
        clip("x", "t", p["lo1"], p["hi1"], 1)
        clip("t", "y", p["lo2"], p["hi2"], 2)
        rule = m.successive_clip_rule
    if p["vi"]:
        h.info("t", dt, [7])
    h.out("y", dt, osh)
    if p["extra"]:
        h.node("Neg", ["t"], ["y2"])
        h.out("y2", dt, [7])
    return h, [rule]


def build_min_max(p, osh):
    from onnxscript.rewriter.rules.common import _min_max_to_clip as m

    h = Host(p["opset"])
    dt, k = p["dt"], p["ckind"]
    h.inp("x", dt, xt(dt, p["xs"]))
    inner = "Min" if p["rule"] in ("min_min", "min_max") else "Max"
    outer = "Min" if p["rule"] in ("min_min", "max_min") else "Max"

    def cst(name, v):
        return h.operand(name, k, dt, np.full(p["cs"], v), alt=np.full(p["cs"], v + 1))

    h.node(inner, ["x"] + [cst(f"a{i}", v) for i, v in enumerate(p["c1"])], ["t"])
    h.node(outer, ["t"] + [cst(f"b{i}", v) for i, v in enumerate(p["c2"])], ["y"])
    h.out("y", dt, osh)
    if p["extra"]:
        h.node("Neg", ["t"], ["y2"])
        h.out("y2", dt, [None] * len(osh))
    return h, [getattr(m, p["rule"] + "_rule")]


NO_CONST = {0: 0.0, 1: 1e-9, 1000: 1.0, 1001: 1.0 + 5e-6, 2000: 2.0}


def build_no_op(p, osh):
    from onnxscript.rewriter.rules.common import _no_op as m

    h = Host()
    dt = p["dt"]
    h.inp("x", dt, xt(dt, p["xs"]))
    c = NO_CONST[p["cv"]]
    h.operand("c", p["ckind"], dt, np.full(p["cs"], c), alt=np.full(p["cs"], c + 1))
    h.node(p["op"], ["x", "c"] if p["side"] == "R" else ["c", "x"], ["y"])
    h.out("y", dt, osh)
    rules = {"Mul": list(m.mul_by_1_rule.commute()), "Add": list(m.add_0_rule.commute()), "Sub": [m.sub_0_rule], "Div": [m.div_by_1_rule]}
    return h, rules[p["op"]]


def build_dropout(p, osh):
    from onnxscript.rewriter.rules.common import _no_op as m

    h = Host(p["opset"])
    h.inp("x", "f32", xt("f32", p["xs"]))
    outs = ["y"] + (["mask"] if p["mask"] else [])
    if p["opset"] == 10:
        attrs = {} if p["ratio"] == NONE else {"ratio": p["ratio"] / 1000.0}
        h.node("Dropout", ["x"], outs, **attrs)
    else:
        ins = ["x"]
        if p["ratio"] != NONE:
            ins.append(h.operand("ratio", "init", "f32", p["ratio"] / 1000.0))
        h.node("Dropout", ins, outs)
    h.out("y", "f32", osh)
    if p["mask"]:
        h.out("mask", "bool", osh)
    return h, [m.dropout_zero_rule, m.dropout_inference_rule]


def build_cast_cos(p, osh):
    from onnx import numpy_helper as nh

    from onnxscript.rewriter.rules.common import _cast_constant_of_shape as m

    h = Host()
    shape = {"c23": [2, 3], "c0": [0], "cs": [], "dyn": [2]}[p["shp"]]
    if p["shp"] == "dyn":
        h.inp("s", "i64", np.array(shape, dtype=np.int64))
    else:
        h.operand("s", "init", "i64", np.array(shape, dtype=np.int64))
    attrs = {}
    if p["hasval"]:
        attrs["value"] = nh.from_array(np.array([p["v"] / 10.0], dtype=NP[p["vdt"]]), "v")
    h.node("ConstantOfShape", ["s"], ["t"], **attrs)
    h.node("Cast", ["t"], ["y"], to=_onnx_dt(p["to"]))
    h.out("y", p["to"], osh)
    return h, [m.cast_constant_of_shape_rule, m.cast_constant_of_shape_without_value_rule]


def build_scatter_static(p, osh):
    from onnxscript.rewriter.rules.common import _redundant_scatter_nd as m

    h = Host()
    ds = list(p["ds"])
    k = 2 if p["idx"] == "short" else 3
    us = [k] + ds[1:]
    data = np.arange(1, int(np.prod(ds)) + 1, dtype=np.float32).reshape(ds)
    upd = (2 - np.arange(1, int(np.prod(us)) + 1, dtype=np.float32)).reshape(us)

    def decl(kind, actual):
        return {"static": actual, "sym": ["N"] + actual[1:], "sym2": ["M"] + actual[1:], "unk": [None] + actual[1:], "none": None}[kind]

    h.inp("data", "f32", data, shape=decl(p["dd"], ds))
    h.inp("upd", "f32", upd, shape=decl(p["ud"], us))
    idx = {"perm": [1, 0, 2], "short": [0, 1]}.get(p["idx"], [0, 1, 2])
    kind = p["idx"] if p["idx"] in ("ginput", "ginit") else "init"
    h.operand("idx", kind, "i64", np.array(idx, dtype=np.int64).reshape(-1, 1), alt=np.array([1, 0, 2], dtype=np.int64).reshape(-1, 1))
    attrs = {} if p["red"] == "absent" else {"reduction": p["red"]}
    h.node("ScatterND", ["data", "idx", "upd"], ["y"], **attrs)
    h.out("y", "f32", osh)
    return h, [m.no_op_static_scatter_nd_rule]


BUILDERS = {"relus_clips": build_relus_clips, "min_max": build_min_max, "no_op": build_no_op, "dropout": build_dropout,
            "cast_cos": build_cast_cos, "scatter_static": build_scatter_static}


# ------------------------------------------------------------------ observation
def enc(a, scale=1):
    a = np.asarray(a)
    dt = {np.dtype(v): k for k, v in NP.items()}.get(a.dtype, str(a.dtype))
    if a.dtype.kind == "f":
        with np.errstate(all="ignore"):
            v = a.astype(np.float64) * scale
        if not np.all(np.isfinite(v)):
            data = [repr(float(x)) for x in v.reshape(-1)]
        else:
            r = np.rint(v)
            tol = (2e-2 if a.dtype == np.float16 else 1e-4) * scale
            data = [int(x) for x in r.reshape(-1)] if np.allclose(r, v, rtol=0, atol=tol) else [repr(float(x)) for x in v.reshape(-1)]
    else:
        data = [int(x) * scale for x in a.reshape(-1)]
    return {"dt": dt, "shape": list(a.shape), "data": data}


def enc_spec(t):
    if t["dt"] in ("ERR", "RAISE"):
        return t["dt"]
    return {"dt": t["dt"], "shape": list(t["shape"]), "data": list(t["data"])}


def tensors(t):
    """spec value (enc_spec form) -> list of tensors (a PAIR stands for a two-output pattern)"""
    return list(t["data"]) if t["dt"] == "PAIR" else [t]


def same_out(a, b):
    """the property's relation between two ORT results: same element type, same shape, equal values"""
    if len(a) != len(b):
        return False
    for u, v in zip(a, b):
        if u.dtype != v.dtype or u.shape != v.shape:
            return False
        if not np.array_equal(u, v, equal_nan=(u.dtype.kind == "f")):
            return False
    return True


def out_shapes(lhs):
    """shape(s) of the host's output(s) as the spec computes them (lhs in enc_spec form)"""
    if lhs["dt"] == "PAIR":
        return [list(t["shape"]) for t in lhs["data"]]
    return list(lhs["shape"])


def observe(fam, p, lhs):
    """Build the host, run it, apply the real rule(s), run the result.  Pure function of (fam, p, lhs)."""
    import onnx

    from onnxscript import ir
    from onnxscript.rewriter import RewriteRuleSet

    logging.getLogger("onnxscript").setLevel(logging.CRITICAL)
    host, rules = BUILDERS[fam](p, out_shapes(lhs))
    model = host.model()
    feeds = host.feeds()
    ob = {"fired": None, "raised": None, "before": None, "after": None, "orig_checker": None, "checker": None,
          "before_err": None, "after_err": None, "same": None, "n_feeds": len(feeds), "ops_after": None}
    try:
        onnx.checker.check_model(model)
    except Exception as e:  # noqa: BLE001
        ob["orig_checker"] = f"{type(e).__name__}: {str(e)[:200]}"
    befores = None
    try:
        sess = core.ort_session(model)
        befores = [sess.run(None, f) for f in feeds]
        ob["before"] = [enc(x, SCALE.get(fam, 1)) for x in befores[0]]
    except Exception as e:  # noqa: BLE001
        ob["before_err"] = f"{type(e).__name__}: {str(e)[:200]}"
    im = ir.serde.deserialize_model(model)
    try:
        rs = rules if isinstance(rules, RewriteRuleSet) else RewriteRuleSet(list(rules))
        count = rs.apply_to_model(im)
        ob["fired"] = int(count)
    except Exception as e:  # noqa: BLE001
        ob["raised"] = f"{type(e).__name__}: {str(e)[:200]}"
        return ob
    if not count:
        return ob
    try:
        after_model = ir.serde.serialize_model(im)
        ob["ops_after"] = [n.op_type for n in after_model.graph.node]
    except Exception as e:  # noqa: BLE001
        ob["after_err"] = f"serialize: {type(e).__name__}: {str(e)[:200]}"
        return ob
    try:
        onnx.checker.check_model(after_model)
    except Exception as e:  # noqa: BLE001
        ob["checker"] = f"{type(e).__name__}: {str(e)[:300]}"
    if befores is None:
        return ob
    try:
        sess2 = core.ort_session(after_model)
        afters = [sess2.run(None, f) for f in feeds]
        ob["after"] = [enc(x, SCALE.get(fam, 1)) for x in afters[0]]
        ob["same"] = [same_out(a, b) for a, b in zip(befores, afters)]
        bad = [i for i, s in enumerate(ob["same"]) if not s]
        if bad:
            i = bad[0]
            ob["diff"] = {"feed": i, "before": [enc(x, SCALE.get(fam, 1)) for x in befores[i]], "after": [enc(x, SCALE.get(fam, 1)) for x in afters[i]]}
    except Exception as e:  # noqa: BLE001
        ob["after_err"] = f"{type(e).__name__}: {str(e)[:300]}"
    return ob


def _worker(case):
    import onnxruntime as ort

    ort.set_default_logger_severity(4)
    return observe(case["fam"], case["p"], enc_spec(case["lhs"]))


# ------------------------------------------------------------------ TLC
def _impl_cfg(base: str) -> str:
    fixed = {(f.get("id") if isinstance(f, dict) else f) for f in core.load_known_findings().get("fixed", [])}
    live = [d for d in MY_DEVS if d not in fixed]
    if len(live) == len(MY_DEVS):
        return base
    with open(os.path.join(core.SPEC_DIR, base)) as f:
        text = f.read()
    text = text.replace("Deviations <- AllDevs", "Deviations = {%s}" % ", ".join(f'"{d}"' for d in live))
    path = os.path.join(core.scratch(), base)
    with open(path, "w") as f:
        f.write(text)
    return path


def tlc_cases(ctx):
    from concurrent.futures import ThreadPoolExecutor

    tier = "quick" if ctx.quick else "thorough"
    jobs = {"impl": (_impl_cfg(f"Rules_{tier}.cfg"), dict(workers=max(2, core.NCPU // 2), timeout=2400))}
    for w in ("vacuity_NeverFires", "vacuity_ImplHolds", "vacuity_NeverDeclines"):
        jobs[w] = (f"Rules_{w}.cfg", dict(workers=2, timeout=900, heap="2g"))
    with ThreadPoolExecutor(len(jobs)) as ex:
        futs = {k: ex.submit(core.run_tlc, "Rules", c, **kw) for k, (c, kw) in jobs.items()}
        res = {k: f.result() for k, f in futs.items()}
    for k, r in res.items():
        ctx.tlc(r, os.path.basename(jobs[k][0]))
    if not res["impl"].ok:
        raise core.MachineryError(f"TLC: {res['impl'].violated} violated in Rules.tla (design-level property or "
                                  f"unexplained deviation):\n{res['impl'].out[-2500:]}")
    for w in ("vacuity_NeverFires", "vacuity_ImplHolds", "vacuity_NeverDeclines"):
        if res[w].ok:
            raise core.MachineryError(f"vacuity: witness {w} is unreachable in Rules.tla - the invariants cannot fail")
    cases = []
    for pr in res["impl"].printed:
        if pr and pr[0] == "CASE":
            cases.append(json.loads(pr[1]))
    if not cases:
        raise core.MachineryError("TLC printed no CASE lines")
    cases.sort(key=lambda c: json.dumps([c["fam"], c["p"]], sort_keys=True))
    return cases


# ------------------------------------------------------------------ judgement
def predicted_bad(c):
    i = c["I"]
    return bool(i["raised"] or (i["fired"] and (not i["valid"] or enc_spec(i["res"]) != enc_spec(c["lhs"]) or c["unknown"])))


def judge(ctx, c, ob, stats):
    """property verdict from implementation observables; spec comparison as SPEC-MISMATCH"""
    fam, p = c["fam"], c["p"]
    I = c["I"]
    case = {"fam": fam, "p": p, "observed": ob, "spec": {"lhs": enc_spec(c["lhs"]), "I": {**I, "res": enc_spec(I["res"])},
                                                          "D": {**c["D"], "res": enc_spec(c["D"]["res"])}, "why": c["why"]}}
    mism = []
    fired = bool(ob["fired"])
    raised = ob["raised"] is not None
    lhs = enc_spec(c["lhs"])
    judged = lhs != "ERR"
    if ob["before_err"] is not None:
        stats["orig_not_runnable"] += 1
        if judged:
            mism.append(f"spec gives the host a meaning but ORT refuses it: {ob['before_err']}")
    elif judged and c["exact"] and ob["before"][: len(tensors(lhs))] != tensors(lhs):
        mism.append(f"Lhs: spec {lhs} ORT {ob['before']}")
    if judged or ob["before_err"] is None:
        if fired != bool(I["fired"]):
            mism.append(f"fired: model {I['fired']} impl {ob['fired']}")
        if raised != bool(I["raised"]):
            mism.append(f"raised: model {I['raised']} impl {ob['raised']}")
        if fired and I["fired"] and ob["before_err"] is None:
            ok_after = ob["checker"] is None and ob["after_err"] is None
            if ok_after != bool(I["valid"]):
                mism.append(f"validity: model valid={I['valid']} impl checker={ob['checker']} ort={ob['after_err']}")
            res = enc_spec(I["res"])
            if c["exact"] and I["valid"] and ob["after"] is not None:
                if ob["after"][: len(tensors(res))] != tensors(res):
                    mism.append(f"Rhs: spec {res} ORT {ob['after']}")
    # ---- the property
    what = None
    if raised:
        what = f"applying the rule raised {ob['raised']} (neither fired nor declined)"
    elif fired and ob["before_err"] is None:
        if ob["orig_checker"] is None and ob["checker"] is not None:
            what = f"rewritten model is not valid for the declared opset: {ob['checker']}"
        elif ob["after_err"] is not None:
            what = f"rewritten model cannot be run: {ob['after_err']}"
        elif ob["same"] is not None and not all(ob["same"]):
            d = ob.get("diff", {})
            what = f"outputs differ (feed #{d.get('feed')}): before {d.get('before')} after {d.get('after')}"
    if what is not None:
        finding = None
        if predicted_bad(c) and c["why"] and fired == bool(I["fired"]) and raised == bool(I["raised"]):
            finding = sorted(c["why"])[0]
        ctx.report(case, f"{fam} {json.dumps(p, sort_keys=True)}: {what}", finding=finding)
        stats["bad"] += 1
    for m in mism:
        stats["mismatch"] += 1
        if stats["mismatch"] <= 25:
            print(f"SPEC-MISMATCH C05 {fam} {json.dumps(p, sort_keys=True)}: {m}", flush=True)
    return case


def nontrivial(c):
    return c["I"]["fired"] or c["D"]["fired"] or c["I"]["raised"]


def select(ctx, cases):
    """quick tier: every tuple whose model outcome is a firing / raise / deviation, plus a seeded sample of the rest"""
    cases = [c for c in cases if c["lhs"]["dt"] != "ERR"]      # hosts without a defined original meaning are not generated
    fams = os.environ.get("VERIF_C05_FAMILIES")
    if fams:
        cases = [c for c in cases if c["fam"] in fams.split(",")]
    mx = os.environ.get("VERIF_C05_MAX")
    rng = random.Random(ctx.seed)
    if mx:
        cases = list(cases)
        rng.shuffle(cases)
        return cases[: int(mx)], False
    if not ctx.quick:
        return cases, True
    byfam = {}
    for c in cases:
        byfam.setdefault(c["fam"], []).append(c)
    out = []
    for f in sorted(byfam):
        cs = byfam[f]
        rng.shuffle(cs)
        dev = [c for c in cs if c["why"]]
        fire = [c for c in cs if not c["why"] and nontrivial(c)]
        rest = [c for c in cs if not c["why"] and not nontrivial(c)]
        out += dev[:120] + fire[:260] + rest[:140]
    return out, False


def run(ctx: core.Ctx):
    logging.getLogger("onnxscript").setLevel(logging.CRITICAL)
    cases = tlc_cases(ctx)
    ctx.set("spec_cases", len(cases))
    chosen, exhaustive = select(ctx, cases)
    obs = core.pmap_safe(_worker, chosen, timeout=120)
    stats = {"bad": 0, "mismatch": 0, "orig_not_runnable": 0, "hang": 0}
    per_fam = {}
    nontriv = set()
    for c, ob in zip(chosen, obs):
        key = json.dumps([c["fam"], c["p"]], sort_keys=True)
        if ob is core.HANG or isinstance(ob, core.MachineryErrorResult):
            if ob is core.HANG:
                stats["hang"] += 1
                ctx.report({"fam": c["fam"], "p": c["p"]}, f"{c['fam']} {key}: applying the rule did not terminate")
                continue
            raise core.MachineryError(f"replay worker failed on {key}: {ob!r}")
        ctx.add("evaluations")
        f = per_fam.setdefault(c["fam"], {"replayed": 0, "fired": 0, "raised": 0, "declined": 0})
        f["replayed"] += 1
        f["fired" if ob["fired"] else ("raised" if ob["raised"] else "declined")] += 1
        case = judge(ctx, c, ob, stats)
        if nontrivial(c) or ob["fired"] or ob["raised"]:
            nontriv.add(key)
            ctx.sample({"fam": c["fam"], "p": c["p"], "fired": ob["fired"], "raised": ob["raised"], "same": ob["same"]}, limit=8)
    ctx.set("per_family", per_fam)
    ctx.set("distinct_nontrivial", len(nontriv))
    ctx.set("traces_validated_against_impl", ctx.coverage.get("evaluations", 0))
    ctx.set("model_impl_mismatches", stats["mismatch"])
    ctx.set("hosts_ort_refused", stats["orig_not_runnable"])
    ctx.set("exhaustive", bool(exhaustive))
    ctx.set("rule", "cases = reachable 'done' states of Rules.tla (rule family x parameter tuple, menus in the cfg); non-trivial = "
                    "the rule fired or raised (model or real code); distinct by (family, parameter tuple)")
    ctx.assumptions += [
        "onnxruntime (optimizations disabled) implements the operators involved as the ONNX operator text says; it is the common judge of before and after",
        "'for all inputs' is sampled by one integer-valued test tensor per host that contains every value of -3..3 (elementwise rules), plus a second feed that changes every operand the model does not fix (graph inputs, overridable initializers)",
        "signed zeros, NaN/inf inputs and float rounding (e.g. double rounding in cast_cast) are outside the integer-valued domain of the spec",
        "quick tier replays every tuple with a deviation (bounded per family) and a seeded sample of the others",
    ]


def replay(ctx, path):
    with open(path) as f:
        case = json.load(f)["case"]
    ob = observe(case["fam"], case["p"], case["spec"]["lhs"])
    print(json.dumps({"fam": case["fam"], "p": case["p"], "now": ob}, indent=1, default=str))
    bad = ob["raised"] is not None or (ob["fired"] and (ob["checker"] is not None or ob["after_err"] is not None or (ob["same"] is not None and not all(ob["same"]))))
    return 1 if bad else 0
