"""C19 - ONNX Runtime fusions preserve numerical results.

spec/OrtFusion.tla   pipeline protocol of ort_fusions/_core.py (one action per step), the check_shape unifier, per-fusion
                     guards transcribed from pattern()+check(), the fused operators' own constraints (Safe_F) and the named
                     deviations; enumerates the configuration tuples of nine pattern families and prints one C19CASE line per
                     (configuration, pipeline) with the predicted fusion counts, fused operators left, and observable.
spec/FusedMatMul.tla fused_matmul_rule_sets.py as a term-rewriting system with exact integer tensor semantics (Tensor.tla).

This harness (direction A) concretises every printed configuration with a parametrised model builder (gamma), drives the real
fuse_* chain and optimize_for_ort on it, projects the outcome (fusion_count dictionary, operator census, rewritten MatMul term:
alpha) and runs the model before/after on ONNX Runtime:
  VIOLATION      the real code breaks the property as stated (fused model returns other values / is refused by ORT although the
                 original runs / the fusion raises), attributed to a named deviation of the spec when one explains it;
  SPEC-MISMATCH  the real code departs from the implementation model without breaking the property (warning only).
Everything below the builders is determined by the configuration record and ctx.seed.
"""
from __future__ import annotations

import json
import random
import re
import traceback

import numpy as np
import onnx
from onnx import TensorProto, helper, numpy_helper

from . import core

F32 = TensorProto.FLOAT
F16 = TensorProto.FLOAT16
I64 = TensorProto.INT64
I32 = TensorProto.INT32
DT = {"f32": F32, "f16": F16, "i32": I32, "i64": I64}
NP = {"f32": np.float32, "f16": np.float16, "i32": np.int32, "i64": np.int64}

EPS = {0: 1e-5, 1: 1e-6, 2: 1e-3}  # epsilon menu (index -> value)
OPSET = 20


class GB:
    """tiny graph builder on onnx.helper"""

    def __init__(self, name="g"):
        self.nodes = []
        self.inputs = []
        self.outputs = []
        self.inits = []
        self.vinfo = []
        self.k = 0
        self.name = name
        self.feeds_spec = []  # (name, dtype key, shape, kind)

    def fresh(self, base="v"):
        self.k += 1
        return f"{base}_{self.k}"

    def inp(self, name, dt, shape, kind="normal", decl=None):
        """shape: the concrete shape the feeds get; decl: the declared shape when it differs (symbolic dims as strings)"""
        self.inputs.append(helper.make_tensor_value_info(name, DT[dt], list(decl if decl is not None else shape)))
        self.feeds_spec.append((name, dt, list(shape), kind))
        return name

    def const(self, arr, name=None):
        name = name or self.fresh("c")
        self.inits.append(numpy_helper.from_array(np.asarray(arr), name))
        return name

    def cnode(self, arr):
        """constant as a Constant node (instead of an initializer)"""
        out = self.fresh("k")
        self.nodes.append(helper.make_node("Constant", [], [out], value=numpy_helper.from_array(np.asarray(arr), out + "_t")))
        return out

    def op(self, op_type, *ins, domain="", n=1, **attrs):
        outs = [self.fresh(op_type.lower()) for _ in range(n)]
        ins = ["" if i is None else i for i in ins]
        while ins and ins[-1] == "":
            ins.pop()
        attrs = {k: v for k, v in attrs.items() if v is not None}
        self.nodes.append(helper.make_node(op_type, list(ins), outs, domain=domain, **attrs))
        return outs[0] if n == 1 else outs

    def out(self, name, dt=None, shape=None):
        if dt is None:
            self.outputs.append(helper.make_empty_tensor_value_info(name))
        else:
            self.outputs.append(helper.make_tensor_value_info(name, DT[dt], None if shape is None else list(shape)))

    def info(self, name, dt, shape):
        self.vinfo.append(helper.make_tensor_value_info(name, DT[dt], list(shape)))

    def model(self):
        g = helper.make_graph(self.nodes, self.name, self.inputs, self.outputs, initializer=self.inits, value_info=self.vinfo)
        m = helper.make_model(
            g,
            opset_imports=[helper.make_opsetid("", OPSET), helper.make_opsetid("com.microsoft", 1)],
            ir_version=10,
        )
        return m


def make_feeds(gb: GB, rng: np.random.Generator):
    feeds = {}
    for name, dt, shape, kind in gb.feeds_spec:
        if kind == "normal":
            a = rng.standard_normal(shape).astype(NP[dt])
        elif kind == "small":
            a = (rng.standard_normal(shape) * 0.25).astype(NP[dt])
        elif kind == "tiny":  # variance ~1e-3: a wrong / dropped epsilon changes a normalisation visibly
            a = (rng.standard_normal(shape) * 0.03).astype(NP[dt])
        elif kind == "lowvar":  # nearly constant rows: c + 1e-3 * noise (variance ~1e-6: epsilon dominates a LayerNormalization)
            a = (rng.standard_normal(list(shape[:-1]) + [1]) + 1e-3 * rng.standard_normal(shape)).astype(NP[dt])
        elif kind == "mask":  # additive attention mask: 0 or a large negative number, never a fully masked row
            a = np.where(rng.random(shape) < 0.3, -1000.0, 0.0)
            a[..., 0] = 0.0
            a = a.astype(NP[dt])
        elif kind.startswith("posids"):
            # position ids: [B,S] rows of consecutive positions starting at a per-batch offset
            off = int(kind.split(":")[1])
            if len(shape) == 2:
                a = np.stack([np.arange(shape[1]) + off for b in range(shape[0])]).astype(NP[dt])
            else:
                a = (np.arange(shape[0]) + off).astype(NP[dt])
        elif kind.startswith("int:"):
            hi = int(kind.split(":")[1])
            a = rng.integers(0, hi, size=shape).astype(NP[dt])
        else:
            raise ValueError(kind)
        feeds[name] = a
    return feeds


# =================================================================================================
# family: rms  (rms_normalization.py; followed by skip_rms in the pipeline when skip != "none")
# =================================================================================================
def build_rms(c):
    """x:[B,S,D] -> Mul(scale, x * 1/sqrt(mean(x^2)+eps)) with optional casts.
    cfg: dt, cast (bool: compute in f32 via Cast, cast back), mulorder (0: scale*norm, 1: norm*scale),
         eps (index), axis ("neg": -1, "pos": rank-1), attrs (bool: keepdims/noop attrs spelled out),
         expo (2|3), B,S,D,
         skip: "none" | "plain" | "swap" (Add(input, skip) vs Add(skip, input)) ; bias: "none"|"pre"|"post"
    """
    g = GB("rms")
    dt = c["dt"]
    B, S, D = c["B"], c["S"], c["D"]
    x = g.inp("x", dt, [B, S, D], kind="tiny")
    outs = []
    if c.get("skip", "none") != "none":
        sk = g.inp("skip", dt, _skip_shape(c), kind="tiny")
        if c["bias"] != "none":
            bias = g.const(_vec(D, dt, 3), "bias")
        if c["bias"] == "pre":
            x = g.op("Add", x, bias)
        x = g.op("Add", sk, x) if c["skip"] == "swap" else g.op("Add", x, sk)
        if c["bias"] == "post":
            x = g.op("Add", x, bias)
        outs.append(x)
    miss = c.get("miss", "none")  # one near-miss at a time: reduction axis spelled 2, attributes left to their defaults, x**3
    if c.get("sln", "pat") != "pat":
        # SimplifiedLayerNormalization already in the source (what rms_normalization.py produces), epsilon spelled out or omitted
        kw = {"epsilon": EPS[c["eps"]]} if c["sln"] == "op" else {}
        y = g.op("SimplifiedLayerNormalization", x, g.const(_vec(D, dt, 1), "scale"), axis=-1, stash_type=1, **kw)
        g.out(y, dt, [B, S, D])
        for o in outs:
            g.out(o, dt, [B, S, D])
        return g
    cdt = "f32" if c["cast"] else dt
    xc = g.op("Cast", x, to=F32) if c["cast"] else x
    sq = g.op("Pow", xc, g.const(np.array(3.0 if miss == "expo" else 2.0, NP[cdt])))
    ax = 2 if miss == "axis" else (1 if miss == "axis1" else -1)
    kw = {} if miss == "attrs" else {"keepdims": 1, "noop_with_empty_axes": 0}
    ms = g.op("ReduceMean", sq, g.const(np.array([ax], np.int64)), **kw)
    mse = g.op("Add", ms, g.const(np.array(EPS[c["eps"]], NP[cdt])))
    rms = g.op("Sqrt", mse)
    rr = g.op("Reciprocal", rms)
    nrm = g.op("Mul", xc, rr)
    if c["cast"] and dt != "f32":
        nrm = g.op("Cast", nrm, to=DT[dt])
        odt = dt
    else:
        odt = cdt
    scale = g.const(_vec(D, odt, 1), "scale")
    y = g.op("Mul", nrm, scale) if c["mulorder"] == 1 else g.op("Mul", scale, nrm)
    g.out(y, odt, [B, S, D])
    for o in outs:
        g.out(o, dt, [B, S, D])
    return g


def _skip_shape(c):
    B, S, D = c["B"], c["S"], c["D"]
    return {"full": [B, S, D], "b1": [1, S, D], "sd": [S, D]}[c.get("skipshape", "full")]


def _vec(n, dt, salt):
    r = np.random.default_rng(1000 + salt)
    if salt == 1:  # gamma
        return (1.0 + 0.1 * r.standard_normal(n)).astype(NP[dt])
    if salt == 3:  # additive bias in front of a normalisation: same scale as the data
        return (0.03 * r.standard_normal(n)).astype(NP[dt])
    if salt == 4:  # ... as the noise of the nearly constant rows
        return (1e-3 * r.standard_normal(n)).astype(NP[dt])
    return (0.1 * r.standard_normal(n)).astype(NP[dt])


# =================================================================================================
# family: skipln  (skip_normalization.py: SkipLayerNormFusion) - starts from ONNX LayerNormalization
# =================================================================================================
def build_skipln(c):
    """cfg: dt, B,S,D, skip ("plain"|"swap"), skipshape, bias ("none"|"pre"|"post"), biasorder (0: Add(t,bias), 1: Add(bias,t)),
    eps(index), axis ("neg"|"pos"|"absent"), beta (bool), stash (1|0 -> attr absent for 1)"""
    g = GB("skipln")
    dt = c["dt"]
    B, S, D = c["B"], c["S"], c["D"]
    # f32: nearly constant rows (epsilon decides the result); f16: small values (f16 rounding of a sum of near-constant rows
    # would itself be amplified by the normalisation and is not the fusion's doing)
    x = g.inp("x", dt, [B, S, D], kind="lowvar" if dt == "f32" else "tiny")
    sk = g.inp("skip", dt, _skip_shape(c), kind="lowvar" if dt == "f32" else "tiny")
    bias = g.const(_vec(D, dt, 4 if dt == "f32" else 3), "bias") if c["bias"] != "none" else None

    def addb(t):
        return g.op("Add", bias, t) if c.get("biasorder", 0) else g.op("Add", t, bias)

    if c["bias"] == "pre":
        x = addb(x)
    s = g.op("Add", sk, x) if c["skip"] == "swap" else g.op("Add", x, sk)
    if c["bias"] == "post":
        s = addb(s)
    miss = c.get("miss", "none")  # near-misses: axis spelled 2 / axis attribute absent (default -1) / no beta input
    gamma = g.const(_vec(D, dt, 1), "gamma")
    beta = g.const(_vec(D, dt, 2), "beta") if miss != "nobeta" else None
    kw = {}
    if miss != "axisabsent":
        kw["axis"] = 2 if miss == "axispos" else -1
    if c["eps"] != 3:  # 3: attribute omitted (ONNX default 1e-5)
        kw["epsilon"] = EPS[c["eps"]]
    y = g.op("LayerNormalization", s, gamma, beta, **kw)
    g.out(y, dt, [B, S, D])
    g.out(s, dt, [B, S, D])
    return g


# =================================================================================================
# family: gelu (gelu.py tanh/erf, erfgelu.py two patterns, bias_gelu.py)
# =================================================================================================
def build_gelu(c):
    """cfg: dt, B,S,D, form: "tanh" | "erf_a" (gelu.py: (x*(erf(x/sqrt2)+1))*0.5) | "erf_b" (erfgelu 1: 0.5*(x*(erf+1)))
            | "erf_c" (erfgelu 2: x*(0.5*(erf+1))) | "op" (ONNX Gelu op) | "op_tanh" | "msft" (com.microsoft.Gelu)
       swap (bool: commute the outermost Mul), bias: "none"|"vec"|"vecswap"|"one"|"row" (bias added in front), kconst: 0 exact | 1 perturbed constant
    """
    import math

    g = GB("gelu")
    dt = c["dt"]
    B, S, D = c["B"], c["S"], c["D"]
    npd = NP[dt]
    x = g.inp("x", dt, [B, S, D])
    if c["bias"] != "none":
        bshape = {"vec": [D], "vecswap": [D], "one": [1], "row": [1, D]}[c["bias"]]
        b = g.const((0.1 * np.random.default_rng(5).standard_normal(bshape)).astype(npd), "bias")
        x = g.op("Add", b, x) if c["bias"] == "vecswap" else g.op("Add", x, b)

    def k(v):
        return g.const(np.array(v, npd))

    f = c["form"]
    half = 0.5 if not c.get("kconst") else 0.51
    if f == "tanh":
        t1 = g.op("Pow", x, k(3))
        t2 = g.op("Mul", k(0.044715), t1)
        t3 = g.op("Add", x, t2)
        t4 = g.op("Mul", k(math.sqrt(2.0 / math.pi)), t3)
        t5 = g.op("Tanh", t4)
        t6 = g.op("Add", t5, k(1))
        t7 = g.op("Mul", k(half), t6)
        y = g.op("Mul", t7, x) if c["swap"] else g.op("Mul", x, t7)
    elif f in ("erf_a", "erf_b", "erf_c"):
        t1 = g.op("Div", x, k(math.sqrt(2.0)))
        t2 = g.op("Erf", t1)
        t3 = g.op("Add", t2, k(1.0))
        if f == "erf_a":
            t4 = g.op("Mul", x, t3)
            y = g.op("Mul", k(half), t4) if c["swap"] else g.op("Mul", t4, k(half))
        elif f == "erf_b":
            t4 = g.op("Mul", x, t3)
            y = g.op("Mul", t4, k(half)) if c["swap"] else g.op("Mul", k(half), t4)
        else:
            t4 = g.op("Mul", k(half), t3)
            y = g.op("Mul", t4, x) if c["swap"] else g.op("Mul", x, t4)
    elif f == "op":
        y = g.op("Gelu", x)
    elif f == "op_none":
        y = g.op("Gelu", x, approximate="none")
    elif f == "op_tanh":
        y = g.op("Gelu", x, approximate="tanh")
    elif f == "msft":
        y = g.op("Gelu", x, domain="com.microsoft")
    else:
        raise ValueError(f)
    g.out(y, dt, [B, S, D])
    return g


# =================================================================================================
# family: matmul (fused_matmul_rule_sets.py) - chains of Transpose / MatMul / Div / Transpose
# =================================================================================================
def build_matmul(c):
    """cfg: dt, rank (2|3|4), M,K,N, ta / tb: "none" | "last2" | "noperm" | "rot" (perm [1..n-1,0]) | "batch" ([1..n-2,0,n-1])
    div: "none" | "scalar" | "vec1" | "vec", tout: "none" | "noperm" | "swap" | "last2", divfirst (bool: Div before output Transpose)"""
    g = GB("matmul")
    dt = c["dt"]
    r = c["rank"]
    M, K, N = c["M"], c["K"], c["N"]
    batch = [2, 3][: r - 2]
    npd = NP[dt]

    def operand(name, rows, cols, t):
        base = batch + [rows, cols]
        n = len(base)
        if t == "none":
            return g.inp(name, dt, base)
        if t in ("last2", "noperm"):
            perm = list(range(n))
            perm[-1], perm[-2] = perm[-2], perm[-1]
            if t == "noperm":
                perm = list(reversed(range(n)))
        elif t == "rot":
            perm = list(range(1, n)) + [0]
        elif t == "batch":
            perm = list(range(1, n - 1)) + [0, n - 1]
        elif t == "last2b":
            perm = [1, 0, 3, 2]
        else:
            raise ValueError(t)
        # source shape such that Transpose(src, perm) has shape `base`
        src = [0] * n
        for i, p in enumerate(perm):
            src[p] = base[i]
        v = g.inp(name, dt, src)
        if t == "noperm":
            return g.op("Transpose", v)
        return g.op("Transpose", v, perm=perm)

    a = operand("a", M, K, c["ta"])
    b = operand("b", K, N, c["tb"])
    y = g.op("MatMul", a, b)
    shape = batch + [M, N]

    def div(y):
        if c["div"] == "none":
            return y
        if c["div"] == "scalar":
            return g.op("Div", y, g.const(np.array(4.0, npd)))
        if c["div"] == "vec1":
            return g.op("Div", y, g.const(np.array([4.0], npd)))
        if c["div"] == "zero":
            return g.op("Div", y, g.const(np.array(0.0, npd)))
        return g.op("Div", y, g.const(np.linspace(1.0, 2.0, N).astype(npd)))

    def tout(y, shape):
        n = len(shape)
        if c["tout"] == "none":
            return y, shape
        if c["tout"] == "noperm":
            return g.op("Transpose", y), list(reversed(shape))
        perm = list(range(n))
        perm[-1], perm[-2] = perm[-2], perm[-1]
        return g.op("Transpose", y, perm=perm), [shape[p] for p in perm]

    if c.get("divfirst", True):
        y = div(y)
        y, shape = tout(y, shape)
    else:
        y, shape = tout(y, shape)
        if c["div"] != "vec":
            y = div(y)
    g.out(y, dt, shape)
    return g


# =================================================================================================
# family: softmax (softmax.py) and groupnorm (instance_to_group_normalization.py)
# =================================================================================================
def build_softmax(c):
    """cfg: dt (input dtype), up (bool: Cast to f32 around), axis ("absent"|"neg"|"mid"), down ("f16"|"f32")"""
    g = GB("softmax")
    dt = c["dt"]
    B, S, D = c["B"], c["S"], c["D"]
    x = g.inp("x", dt, [B, S, D])
    v = g.op("Cast", x, to=F32) if c["up"] else x
    kw = {} if c["axis"] == "absent" else {"axis": -1 if c["axis"] == "neg" else 1}
    v = g.op("Softmax", v, **kw)
    odt = "f32" if c["up"] else dt
    if c["up"]:
        v = g.op("Cast", v, to=DT[c["down"]])
        odt = c["down"]
    # keep the Cast from being the graph output directly consumed? no: output is the cast value
    g.out(v, odt, [B, S, D])
    return g


def build_groupnorm(c):
    """cfg: dt, N,C,H,W, G (groups), wshape ("c11"|"111"), ones (bool: instance-norm weights are 1/0), eps(index)"""
    g = GB("groupnorm")
    dt = c["dt"]
    N, C, H, W, G = c["N"], c["C"], c["H"], c["W"], c["G"]
    npd = NP[dt]
    x = g.inp("x", dt, [N, C, H, W])
    r1 = g.op("Reshape", x, g.const(np.array([0, G, -1], np.int64)))
    wn = np.ones(G, npd) if c["ones"] else np.linspace(0.5, 1.5, G).astype(npd)
    inorm = g.op("InstanceNormalization", r1, g.const(wn), g.const(np.zeros(G, npd)), epsilon=EPS[c["eps"]])
    r2 = g.op("Reshape", inorm, g.const(np.array([N, C, H, W], np.int64)))
    wc = C if c["wshape"] == "c11" else 1
    wf = g.const((1.0 + 0.1 * np.random.default_rng(7).standard_normal((wc, 1, 1))).astype(npd))
    bf = g.const((0.1 * np.random.default_rng(8).standard_normal((wc, 1, 1))).astype(npd))
    y = g.op("Add", g.op("Mul", r2, wf), bf)
    g.out(y, dt, [N, C, H, W])
    return g


# =================================================================================================
# engine: apply fusion steps to a model, run before/after on ORT, compare
# =================================================================================================
TOL = {"f32": (1e-3, 1e-3), "f16": (2e-2, 2e-2)}  # (rtol, atol): f32 as in ort_fusions/_test_utils.assert_allclose


def _fusers():
    from onnxscript.rewriter.ort_fusions import _core as C

    return {
        "erf_gelu": C.fuse_erfgelu,
        "rms_normalization": C.fuse_rms_normalization,
        "skip_layer_normalization": C.fuse_skip_layer_normalization,
        "skip_rms_normalization": C.fuse_skip_rms_normalization,
        "rotary_embedding": C.fuse_rotary_embedding,
        "cos_sin_cache": C.fuse_cos_sin_cache,
        "partial_rotary_embedding": C.fuse_partial_rotary_embedding,
        "sdpa": lambda m: C.fuse_sdpa(m, apply_shape_inference=True),
        "gqa": C.fuse_gqa,
        "packed_qkv_for_gqa": C.fuse_qkv_gqa,
        "mha1": C.fuse_mha1,
        "mha2": C.fuse_mha2,
        "mha_scale": C.fuse_mha_scale,
        "mha_bias": C.fuse_mha_bias,
        "attention": C.fuse_attention,
        "gelu": C.fuse_gelu,
        "bias_gelu": C.fuse_bias_gelu,
        "sdpa_via_mha": C.replace_sdpa_by_mha,
    }


def apply_steps(model_proto, steps):
    """returns (new proto, {step: count}) ; steps are names of fuse_* functions, or
    'pre' (_pre_optimize), 'ort_rules' (ORT_PATTERN_REWRITE_RULES), 'optimize' , 'optimize_for_ort', 'fuse_xformers'"""
    import onnx_ir as ir
    from onnxscript.optimizer import optimize
    from onnxscript.rewriter import rewrite
    from onnxscript.rewriter.ort_fusions import _core as C

    # a private copy: the IR shares TensorProtos with the proto it was deserialized from and the passes rename /
    # lift initializers in place (C15 proto_arg_mutated) - the caller's model must stay the original for the next pipeline
    private = onnx.ModelProto()
    private.CopyFrom(model_proto)
    m = ir.serde.deserialize_model(private)
    F = _fusers()
    counts = {}
    for s in steps:
        if s == "pre":
            m = C._pre_optimize(m)
        elif s == "optimize":
            optimize(m)
        elif s == "ort_rules":
            # count = number of contrib nodes afterwards is observed separately
            rewrite(m, C.ORT_PATTERN_REWRITE_RULES)
        elif s == "optimize_for_ort":
            m, cnt = C.optimize_for_ort(m)
            counts.update({k: int(v) for k, v in cnt.items()})
        elif s == "fuse_xformers":
            m, cnt = C.fuse_xformers(m)
            counts.update({k: int(v) for k, v in cnt.items()})
        else:
            counts[s] = int(F[s](m))
    return ir.serde.serialize_model(m), counts


def op_census(model_proto):
    """multiset of op types ("domain::Op" for non-default domains) over the main graph, subgraphs and functions"""
    out = {}

    def visit(nodes):
        for n in nodes:
            d = n.domain or ""
            key = (d + "::" if d not in ("", "ai.onnx") else "") + n.op_type
            out[key] = out.get(key, 0) + 1
            for a in n.attribute:
                if a.type == onnx.AttributeProto.GRAPH:
                    visit(a.g.node)

    visit(model_proto.graph.node)
    for f in model_proto.functions:
        visit(f.node)
    return out


def classify_ort_error(e) -> str:
    s = str(e)
    for tag in ("NOT_IMPLEMENTED", "INVALID_GRAPH", "INVALID_ARGUMENT", "RUNTIME_EXCEPTION", "FAIL"):
        if tag in s:
            return tag
    return type(e).__name__


def run_ort(model_proto, feeds):
    """('ok', outputs) | ('load:<class>', msg) | ('run:<class>', msg)"""
    try:
        sess = core.ort_session(model_proto)
    except Exception as e:  # noqa: BLE001
        return "load:" + classify_ort_error(e), str(e)[:300]
    try:
        names = {i.name for i in sess.get_inputs()}
        return "ok", sess.run(None, {k: v for k, v in feeds.items() if k in names})
    except Exception as e:  # noqa: BLE001
        return "run:" + classify_ort_error(e), str(e)[:300]


def compare(before, after, dt):
    """None if equal within tolerance, else a description"""
    rtol, atol = TOL[dt]
    if len(before) != len(after):
        return f"number of outputs {len(before)} -> {len(after)}"
    for i, (a, b) in enumerate(zip(before, after)):
        a = np.asarray(a)
        b = np.asarray(b)
        if a.shape != b.shape:
            return f"output {i}: shape {a.shape} -> {b.shape}"
        if a.dtype != b.dtype:
            return f"output {i}: dtype {a.dtype} -> {b.dtype}"
        if a.dtype.kind == "f":
            a64 = a.astype(np.float64)
            b64 = b.astype(np.float64)
            ok = np.isclose(a64, b64, rtol=rtol, atol=atol, equal_nan=True)
            if not ok.all():
                j = int(np.argmax(~ok.reshape(-1)))
                return (f"output {i}: {int((~ok).sum())}/{ok.size} elements differ, first at flat index {j}: "
                        f"{a64.reshape(-1)[j]!r} -> {b64.reshape(-1)[j]!r} (max abs diff {float(np.nanmax(np.abs(a64 - b64))):.4g})")
        elif not np.array_equal(a, b):
            return f"output {i}: integer outputs differ"
    return None


BUILDERS = {}


for _n, _f in (("rms", build_rms), ("skipln", build_skipln), ("gelu", build_gelu), ("matmul", build_matmul),
               ("softmax", build_softmax), ("groupnorm", build_groupnorm)):
    BUILDERS[_n] = _f


# =================================================================================================
# family: sdpa (sdpa.py, then sdpa_via_mha.py makes it executable) - 4-D q/k/v as graph inputs
# =================================================================================================
def _scaled(g, v, how, factor, npd):
    if how == "none":
        return v
    if how == "mul":
        return g.op("Mul", v, g.const(np.array(factor, npd)))
    if how == "div":
        return g.op("Div", v, g.const(np.array(1.0 / factor, npd)))
    raise ValueError(how)


MASKSHAPES = {
    "none": None,
    "bhst": lambda B, H, S, T: [B, H, S, T],
    "b1st": lambda B, H, S, T: [B, 1, S, T],
    "11st": lambda B, H, S, T: [1, 1, S, T],
    "b11t": lambda B, H, S, T: [B, 1, 1, T],
    "1hst": lambda B, H, S, T: [1, H, S, T],
    "st": lambda B, H, S, T: [S, T],
    "1t": lambda B, H, S, T: [1, T],
    "t": lambda B, H, S, T: [T],
    "hst": lambda B, H, S, T: [H, S, T],
    "b1s1": lambda B, H, S, T: [B, 1, S, 1],
}


def _sdpa_core(g, c, q, k, v, kfmt, npd, B, H, S, T, Dh):
    """q: [B,H,S,Dh]; k: [B,H,T,Dh] (kfmt 't4'/'r3') or [B,T,H,Dh] (kfmt 'bshd'); v: [B,H,T,Dv]. returns attn [B,H,S,Dv]"""
    total = (1.0 / np.sqrt(Dh)) if c["sc"] == "default" else 0.3
    pos = [p for p in ("qs", "ks", "qks") if c[p] != "none"]
    f = total ** (1.0 / len(pos)) if pos else 1.0
    if kfmt == "t4":
        kt = g.op("Transpose", k, perm=[0, 1, 3, 2])
    elif kfmt == "r3":
        k3 = g.op("Reshape", k, g.const(np.array([B * H, T, Dh], np.int64)))
        k3t = g.op("Transpose", k3, perm=[0, 2, 1])
        kt = g.op("Reshape", k3t, g.const(np.array([B, H, Dh, T], np.int64)))
    elif kfmt == "bshd":
        kt = g.op("Transpose", k, perm=[0, 2, 3, 1])
    else:
        raise ValueError(kfmt)
    q = _scaled(g, q, c["qs"], f, npd)
    kt = _scaled(g, kt, c["ks"], f, npd)
    s = g.op("MatMul", q, kt)
    s = _scaled(g, s, c["qks"], f, npd)
    if c["mask"] != "none":
        mshape = MASKSHAPES[c["mask"]](B, H, S, T)
        m = g.inp("mask", c["dt"], mshape, kind="mask")
        s = g.op("Add", s, m)
    sax = c.get("sax", "neg")
    w = g.op("Softmax", s, **({} if sax == "absent" else {"axis": {"neg": -1, "pos": 3, "two": 2, "one": 1}[sax]}))
    if c.get("nanfix"):
        isn = g.op("IsNaN", w)
        w = g.op("Where", isn, g.const(np.array(0.0, npd)), w)
    return g.op("MatMul", w, v)


def build_sdpa(c):
    """cfg: dt, B,H,S,T (kv length),Dh,Dv, kfmt ('t4'|'r3'|'bshd'), qs/ks/qks ('none'|'mul'|'div'), sc ('default'|'other'),
    mask (key of MASKSHAPES), nanfix (bool)"""
    g = GB("sdpa")
    dt = c["dt"]
    npd = NP[dt]
    B, H, S, T, Dh, Dv = c["B"], c["H"], c["S"], c["T"], c["Dh"], c["Dv"]
    # symdh: the head size (and the query length) are symbolic in the declared shapes (dim_param); the feeds have the sizes above
    sym = bool(c.get("symdh"))
    dS, dDh = ("S", "Dh") if sym else (S, Dh)
    q = g.inp("q", dt, [B, H, S, Dh], kind="small", decl=[B, H, dS, dDh])
    k = g.inp("k", dt, [B, T, H, Dh] if c["kfmt"] == "bshd" else [B, H, T, Dh], kind="small",
              decl=[B, T, H, dDh] if c["kfmt"] == "bshd" else [B, H, T, dDh])
    v = g.inp("v", dt, [B, H, T, Dv])
    y = _sdpa_core(g, c, q, k, v, c["kfmt"], npd, B, H, S, T, Dh)
    g.out(y, dt, [B, H, dS, Dv])
    return g


# =================================================================================================
# family: mha (sdpa.py -> mha.py -> mha_bias.py -> attention.py): 3-D q/k/v, optional projections / biases / past / mask
# =================================================================================================
def build_mha(c):
    """cfg: dt, B,S,T,H,Dh, proj ('none'|'sep'|'packed'), bq/bk/bv ('none'|'vec'|'one'|'full'), kfmt ('t4'|'bshd'),
    past (0|P>0), mask, qs/ks/qks/sc, nanfix, out4 (bool: output reshape target given as [B,S,D] literal vs [0,0,-1])"""
    g = GB("mha")
    dt = c["dt"]
    npd = NP[dt]
    B, S, H, Dh = c["B"], c["S"], c["H"], c["Dh"]
    D = H * Dh
    P = c["past"]
    proj = c["proj"]
    T = S if proj != "none" else c["T"]
    rng = np.random.default_rng(11)

    def W(shape):
        return g.const((rng.standard_normal(shape) / np.sqrt(shape[0])).astype(npd))

    if proj == "none":
        q3 = g.inp("query", dt, [B, S, D], kind="small")
        k3 = g.inp("key", dt, [B, T, D], kind="small")
        v3 = g.inp("value", dt, [B, T, D])
    else:
        Din = c.get("Din", D)
        x = g.inp("x", dt, [B, S, Din])
        if proj == "sep":
            q3 = g.op("MatMul", x, W([Din, D]))
            k3 = g.op("MatMul", x, W([Din, D]))
            v3 = g.op("MatMul", x, W([Din, D]))
        else:
            pk = g.op("MatMul", x, W([Din, 3 * D]))
            ax = g.const(np.array([2], np.int64))
            q3 = g.op("Slice", pk, g.const(np.array([0], np.int64)), g.const(np.array([D], np.int64)), ax)
            k3 = g.op("Slice", pk, g.const(np.array([D], np.int64)), g.const(np.array([2 * D], np.int64)), ax)
            v3 = g.op("Slice", pk, g.const(np.array([2 * D], np.int64)), g.const(np.array([3 * D], np.int64)), ax)

    def addbias(t, how, L):
        if how == "none":
            return t
        shape = {"vec": [D], "one": [1], "full": [B, L, D], "row": [1, 1, D]}[how]
        b = g.const((0.2 * rng.standard_normal(shape)).astype(npd))
        return g.op("Add", t, b)

    before = bool(c.get("preq")) and c.get("preqpos", "after") == "before"
    if before:         # the scaling comes BEFORE the bias: q = (x @ Wq) * c + bq
        q3 = g.op("Mul", q3, g.const(np.array(0.5, npd)))
    q3 = addbias(q3, c["bq"], S)
    k3 = addbias(k3, c["bk"], T)
    v3 = addbias(v3, c["bv"], T)
    if c.get("preq") and not before:  # a scaling of the 3-D query in front of the head split (absorbed by mha_scale.py)
        q3 = g.op("Mul", q3, g.const(np.array(0.5, npd)))
    shp = g.const(np.array([0, 0, H, Dh], np.int64)) if c.get("rs0", 1) else None
    q4 = g.op("Transpose", g.op("Reshape", q3, shp or g.const(np.array([B, S, H, Dh], np.int64))), perm=[0, 2, 1, 3])
    k4 = g.op("Reshape", k3, shp or g.const(np.array([B, T, H, Dh], np.int64)))
    v4 = g.op("Transpose", g.op("Reshape", v3, shp or g.const(np.array([B, T, H, Dh], np.int64))), perm=[0, 2, 1, 3])
    kf = c["kfmt"]
    outs = []
    if kf == "t4" or P or c.get("rot", "none") != "none":
        k4 = g.op("Transpose", k4, perm=[0, 2, 1, 3])
        kf = "t4"
    if c.get("rot", "none") != "none":
        # com.microsoft.RotaryEmbedding already present in the source (as after the rotary/cos_sin_cache fusions)
        pos = g.inp("position_ids", "i64", [B, S], kind="posids:1")
        cosc = g.inp("cos", dt, [S + 3, Dh // 2])
        sinc = g.inp("sin", dt, [S + 3, Dh // 2])
        ra = {"interleaved": 1} if c["rot"] == "inter" else ({"interleaved": 0} if c["rot"] == "plain0" else {})
        q4 = g.op("RotaryEmbedding", q4, pos, cosc, sinc, domain="com.microsoft", **ra)
        g.info(q4, dt, [B, H, S, Dh])
        k4 = g.op("RotaryEmbedding", k4, pos, cosc, sinc, domain="com.microsoft", **ra)
        g.info(k4, dt, [B, H, T, Dh])
    Tt = T
    if P:
        pk_ = g.inp("past_key", dt, [B, H, P, Dh], kind="small")
        pv_ = g.inp("past_value", dt, [B, H, P, Dh])
        k4 = g.op("Concat", pk_, k4, axis=-2)
        v4 = g.op("Concat", pv_, v4, axis=-2)
        Tt = T + P
        outs = [(k4, [B, H, Tt, Dh]), (v4, [B, H, Tt, Dh])]
    a = _sdpa_core(g, c, q4, k4, v4, kf, npd, B, H, S, Tt, Dh)
    at = g.op("Transpose", a, perm=[0, 2, 1, 3])
    y = g.op("Reshape", at, g.const(np.array([0, 0, -1] if c.get("rs0", 1) else [B, S, D], np.int64)))
    g.out(y, dt, [B, S, D])
    for o, s in outs:
        g.out(o, dt, s)
    return g


BUILDERS["sdpa"] = build_sdpa
BUILDERS["mha"] = build_mha


# =================================================================================================
# family: rotary (rotary_embedding.py -> cos_sin_cache.py -> partial rotary)
# =================================================================================================
INT64_MAX = 9223372036854775807


def _cos_sin(g, c, pos, B, S, R, npd, dt):
    """cos/sin [B,1,S,R] computed from position ids the way transformers' LlamaRotaryEmbedding exports it"""
    E = R // 2
    inv = g.const((1.0 / (10000.0 ** (np.arange(E, dtype=np.float64) / max(E, 1)))).astype(np.float32).reshape(1, E, 1), "inv_freq")
    if c["posrank"] == 2:
        pe = g.op("Unsqueeze", pos, g.const(np.array([1], np.int64)))  # [B,1,S]
        nb = B
    else:
        pe = g.op("Unsqueeze", pos, g.const(np.array([0, 1], np.int64)))  # [1,1,S]
        nb = 1
    pe = g.op("Cast", pe, to=F32)
    if c["expand"]:
        inv = g.op("Expand", inv, g.const(np.array([nb, E, 1], np.int64)))
    fr = g.op("MatMul", inv, pe)  # [nb,E,S]
    fr = g.op("Transpose", fr, perm=[0, 2, 1])
    emb = g.op("Concat", fr, fr, axis=-1)  # [nb,S,R]
    cos = g.op("Cos", emb)
    sin = g.op("Sin", emb)
    if c["cast"]:
        cos = g.op("Cast", cos, to=DT[dt])
        sin = g.op("Cast", sin, to=DT[dt])
    one = g.const(np.array([1], np.int64))
    return g.op("Unsqueeze", cos, one), g.op("Unsqueeze", sin, one)


def _rope(g, c, x, cos, sin, R, Dh):
    """rotate-half RoPE on the first R channels of x [B,H,S,Dh]"""
    ax = g.const(np.array([3], np.int64))
    st = g.const(np.array([1], np.int64))

    def sl(v, a, b):
        return g.op("Slice", v, g.const(np.array([a], np.int64)), g.const(np.array([b], np.int64)), ax, st)

    part = x if R == Dh else sl(x, 0, R)
    h = R // 2 if c["split"] == "half" else R // 2 - 1
    x1 = sl(part, 0, h)
    x2 = sl(part, h, INT64_MAX if c.get("endbig", 1) else R)
    rot = g.op("Concat", g.op("Neg", x2), x1, axis=-1)
    if c.get("mulswap"):
        y = g.op("Add", g.op("Mul", cos, part), g.op("Mul", rot, sin))
    else:
        y = g.op("Add", g.op("Mul", part, cos), g.op("Mul", rot, sin))
    if R != Dh:
        y = g.op("Concat", y, sl(x, R, INT64_MAX), axis=-1)
    return y


def build_rotary(c):
    """cfg: dt, B,H,S,Dh, R (rotary dim <= Dh), posrank (1|2), expand, cast, split ('half'|'uneven'), off (position offset),
    two (bool: a second tensor k with Hk heads uses the same cos/sin), mulswap"""
    g = GB("rotary")
    dt = c["dt"]
    npd = NP[dt]
    B, H, S, Dh, R = c["B"], c["H"], c["S"], c["Dh"], c["R"]
    x = g.inp("x", dt, [B, H, S, Dh])
    pos = g.inp("position_ids", "i64", [B, S] if c["posrank"] == 2 else [S], kind=f"posids:{c['off']}")
    cos, sin = _cos_sin(g, c, pos, B, S, R, npd, dt)
    y = _rope(g, c, x, cos, sin, R, Dh)
    g.out(y, dt, [B, H, S, Dh])
    if c.get("two"):
        k = g.inp("k", dt, [B, c["two"], S, Dh])
        g.out(_rope(g, c, k, cos, sin, R, Dh), dt, [B, c["two"], S, Dh])
    return g


BUILDERS["rotary"] = build_rotary


# =================================================================================================
# family: gqa (sdpa.py -> gqa.py [-> gqa_packed_qkv.py]) - Phi-style exported attention with shared kv heads,
# com.microsoft.RotaryEmbedding already present, dynamic sequence dims (as in gqa_test.py)
# =================================================================================================
def build_gqa(c):
    """cfg: dt, B,S,P (past length, 0: no past inputs),H,Hkv,Dh, mask ('causal'|'zeros'|'input'), sc ('default'|'other'),
    inter (0|1 rotary interleaved attr), packed (bool: q,k,v sliced from one packed input)"""
    g = GB("gqa")
    dt = c["dt"]
    npd = NP[dt]
    B, S, P, H, Hkv, Dh = c["B"], c["S"], c["P"], c["H"], c["Hkv"], c["Dh"]
    G = H // Hkv
    D, Dkv = H * Dh, Hkv * Dh
    T = S + P
    i64 = lambda v: g.const(np.array(v, np.int64))  # noqa: E731
    if c.get("packed"):
        pk = g.inp("packed_qkv", dt, ["B", "S", D + 2 * Dkv], kind="small")
        ax, st = i64([2]), i64([1])
        query = g.op("Slice", pk, i64([0]), i64([D]), ax, st)
        key = g.op("Slice", pk, i64([D]), i64([D + Dkv]), ax, st)
        value = g.op("Slice", pk, i64([D + Dkv]), i64([INT64_MAX if c.get("endbig", 1) else D + 2 * Dkv]), ax, st)
        g.info(query, dt, ["B", "S", D])
        g.info(key, dt, ["B", "S", Dkv])
        g.info(value, dt, ["B", "S", Dkv])
        shape_src = pk
    else:
        query = g.inp("query", dt, ["B", "S", D], kind="small")
        key = g.inp("key", dt, ["B", "S", Dkv], kind="small")
        value = g.inp("value", dt, ["B", "S", Dkv])
        shape_src = query
    if P:
        past_key = g.inp("past_key", dt, ["B", Hkv, "P", Dh], kind="small")
        past_value = g.inp("past_value", dt, ["B", Hkv, "P", Dh])
    cos = g.inp("cos", dt, ["M", Dh // 2])
    sin = g.inp("sin", dt, ["M", Dh // 2])
    # concrete sizes of the symbolic dims for make_feeds
    conc = {"B": B, "S": S, "P": P, "M": T + 2}
    g.feeds_spec = [(n, d, [conc.get(x, x) for x in s], k) for n, d, s, k in g.feeds_spec]

    Bv = g.op("Shape", shape_src, start=0, end=1)
    Sv = g.op("Shape", shape_src, start=1, end=2)
    if P:
        past_len = g.op("Shape", past_key, start=2, end=3)
        total_len = g.op("Add", past_len, Sv)
    else:
        past_len = i64([0])
        total_len = Sv
    m1 = i64([-1])
    shape_BSHDh = g.op("Concat", Bv, Sv, m1, i64([Dh]), axis=0)
    shape_BSD = g.op("Concat", Bv, Sv, m1, axis=0)
    shape_BHkvGTDh = g.op("Concat", Bv, i64([Hkv]), i64([G]), total_len, i64([Dh]), axis=0)
    shape_BHTDh = g.op("Concat", Bv, i64([H]), total_len, i64([Dh]), axis=0)

    q_BSHDh = g.op("Reshape", query, shape_BSHDh)
    g.info(q_BSHDh, dt, ["B", "S", H, Dh])
    q_BHSDh = g.op("Transpose", q_BSHDh, perm=[0, 2, 1, 3])
    k_BSHkvDh = g.op("Reshape", key, shape_BSHDh)
    g.info(k_BSHkvDh, dt, ["B", "S", Hkv, Dh])
    k_BHkvSDh = g.op("Transpose", k_BSHkvDh, perm=[0, 2, 1, 3])
    v_BSHkvDh = g.op("Reshape", value, shape_BSHDh)
    g.info(v_BSHkvDh, dt, ["B", "S", Hkv, Dh])
    v_BHkvSDh = g.op("Transpose", v_BSHkvDh, perm=[0, 2, 1, 3])

    pos1d = g.op("Range", g.op("Squeeze", past_len), g.op("Squeeze", total_len), g.const(np.array(1, np.int64)))
    pos = g.op("Unsqueeze", pos1d, i64([0]))
    if B > 1:
        pos = g.op("Tile", pos, g.op("Concat", Bv, i64([1]), axis=0))
    rattr = {"interleaved": 1} if c["inter"] == 1 else ({"interleaved": 0} if c["inter"] == 2 else {})
    q_rope = g.op("RotaryEmbedding", q_BHSDh, pos, cos, sin, domain="com.microsoft", **rattr)
    g.info(q_rope, dt, ["B", H, "S", Dh])
    k_rope = g.op("RotaryEmbedding", k_BHkvSDh, pos, cos, sin, domain="com.microsoft", **rattr)
    g.info(k_rope, dt, ["B", Hkv, "S", Dh])
    if P:
        k_seq = g.op("Concat", past_key, k_rope, axis=-2)
        v_seq = g.op("Concat", past_value, v_BHkvSDh, axis=-2)
    else:
        k_seq, v_seq = k_rope, v_BHkvSDh
    k_exp = g.op("Expand", g.op("Unsqueeze", k_seq, i64([2])), shape_BHkvGTDh)
    k_BHTDh = g.op("Reshape", k_exp, shape_BHTDh)
    g.info(k_BHTDh, dt, ["B", H, "T", Dh])
    v_exp = g.op("Expand", g.op("Unsqueeze", v_seq, i64([2])), shape_BHkvGTDh)
    v_BHTDh = g.op("Reshape", v_exp, shape_BHTDh)
    g.info(v_BHTDh, dt, ["B", H, "T", Dh])

    # mask [B,1,S,T]
    seq0 = g.op("Squeeze", Sv)
    past0 = g.op("Squeeze", past_len)
    tot0 = g.op("Add", past0, seq0)
    tot1 = g.op("Reshape", tot0, i64([-1]))
    cur = g.op("Range", past0, tot0, g.const(np.array(1, np.int64)))
    mshape = g.op("Concat", Sv, tot1, axis=0)
    if c["mask"] == "input":
        mk = g.inp("mask_in", dt, [conc["S"], T], kind="mask")
        m2 = g.op("Neg", g.op("Neg", mk))
    else:
        minv = g.const(np.array([np.finfo(npd).min], npd), "min_val")
        allmin = g.op("Expand", minv, mshape)
        row = g.op("Range", g.const(np.array(0, np.int64)), tot0, g.const(np.array(1, np.int64)))
        col = g.op("Reshape", cur, i64([-1, 1]))
        if c["mask"] == "causal":
            bm = g.op("Greater", row, col)
        else:  # 'zeros': nothing is masked (bidirectional attention)
            bm = g.op("Less", row, g.op("Sub", col, g.op("Add", col, g.const(np.array(1, np.int64)))))
        m2 = g.op("Mul", allmin, g.op("Cast", bm, to=DT[dt]))
    m4 = g.op("Unsqueeze", m2, i64([0, 1]))
    mask = g.op("Expand", m4, g.op("Concat", Bv, i64([1]), i64([1]), i64([1]), axis=0))
    g.info(mask, dt, ["B", 1, "S", "T"])

    kt = g.op("Transpose", k_BHTDh, perm=[0, 1, 3, 2])
    g.info(kt, dt, ["B", H, Dh, "T"])
    total = (1.0 / np.sqrt(Dh)) if c["sc"] == "default" else 0.3
    f = float(np.sqrt(total))
    sq = g.op("Mul", q_rope, g.const(np.array(f, npd)))
    sk = g.op("Mul", kt, g.const(np.array(f, npd)))
    score = g.op("Add", g.op("MatMul", sq, sk), mask)
    w = g.op("Softmax", score, axis=-1)
    a = g.op("MatMul", w, v_BHTDh)
    at = g.op("Transpose", a, perm=[0, 2, 1, 3])
    y = g.op("Reshape", at, shape_BSD)
    g.out(y, dt, ["B", "S", D])
    g.out(k_seq, dt, ["B", Hkv, "T", Dh])
    g.out(v_seq, dt, ["B", Hkv, "T", Dh])
    return g


BUILDERS["gqa"] = build_gqa


# =================================================================================================
# conformance: replay the cases printed by TLC
# =================================================================================================

LEVEL = "model_checking"
FUSION_DOMAIN_OR_CONTRIB = re.compile(r"^(com\.microsoft|ai\.onnxruntime\._fusion)::")
WATCH_DEFAULT_DOMAIN = {"SimplifiedLayerNormalization", "Gelu"}


def watched(census):
    return {k: v for k, v in census.items() if FUSION_DOMAIN_OR_CONTRIB.match(k) or k in WATCH_DEFAULT_DOMAIN}


def status_of(before, st, out, dt):
    """observable of the fused model relative to the original one"""
    if st == "ok":
        d = compare(before, out, dt)
        return ("same", "") if d is None else ("diff", d)
    cls = st.split(":", 1)[1]
    if cls == "NOT_IMPLEMENTED":
        return "nokernel", out
    return "reject", f"{st}: {out}"


def replay_cfg(item):
    """item = (cfg, [case, ...]) - cases of one configuration (one per mode).  Returns list of result dicts."""
    import warnings

    warnings.filterwarnings("ignore")
    import logging

    logging.disable(logging.CRITICAL)
    import onnxruntime as ort

    ort.set_default_logger_severity(4)
    cfg, cases, seed = item
    fam = cfg["fam"]
    dt = cfg.get("dt", "f32")
    res = []
    try:
        g = BUILDERS[fam](cfg)
        m = g.model()
        if not any(n.op_type == "SimplifiedLayerNormalization" for n in m.graph.node):  # an ORT-only operator in the default domain
            onnx.checker.check_model(m)
        m = onnx.shape_inference.infer_shapes(m)
        feeds = make_feeds(g, np.random.default_rng(seed))
        st, before = run_ort(m, feeds)
    except Exception as e:  # noqa: BLE001
        return [{"harness_error": f"{type(e).__name__}: {e}\n{traceback.format_exc()[-1200:]}"} for _ in cases]
    if st != "ok":
        return [{"discard": f"original model not runnable: {st} {before}"} for _ in cases]
    c0 = op_census(m)
    for case in cases:
        steps = list(case["steps"]) if case["mode"] == "chain" else ["optimize_for_ort"]
        r = {}
        try:
            import io
            import contextlib

            with contextlib.redirect_stdout(io.StringIO()), contextlib.redirect_stderr(io.StringIO()):
                m2, counts = apply_steps(m, steps)
        except Exception as e:  # noqa: BLE001
            root = e
            while root.__cause__ is not None:
                root = root.__cause__
            r["status"] = "raise"
            r["detail"] = f"{type(root).__name__}: {root}"[:300]
            r["counts"] = {}
            r["ops"] = {}
            res.append(r)
            continue
        c1 = op_census(m2)
        if "ort_rules" in steps:
            counts["ort_rules"] = int(c1 != c0)
        r["counts"] = {k: v for k, v in counts.items() if v}
        r["ops"] = watched(c1)
        st2, after = run_ort(m2, feeds)
        r["status"], r["detail"] = status_of(before, st2, after, dt)
        res.append(r)
    return res


# ------------------------------------------------------------------ fused MatMul family (spec/FusedMatMul.tla)
def mm_cfg(init):
    return {"fam": "matmul", "dt": "f32", "rank": init["rank"], "M": init["dims"][0], "K": init["dims"][1], "N": init["dims"][2],
            "ta": init["ta"], "tb": init["tb"], "div": init["div"], "tout": init["tout"], "divfirst": init["divfirst"]}


def mm_term(model_proto):
    """alpha: the real model -> the abstract term of FusedMatMul.tla (None if the graph has no single MatMul/FusedMatMul)"""
    g = model_proto.graph
    core_nodes = [n for n in g.node if n.op_type in ("MatMul", "FusedMatMul")]
    if len(core_nodes) != 1:
        return None
    core_n = core_nodes[0]
    prod = {o: n for n in g.node for o in n.output}
    at = {a.name: helper.get_attribute_value(a) for a in core_n.attribute}

    def side(name):
        p = prod.get(name)
        if p is None:
            return name, "none"
        if p.op_type != "Transpose":
            return "?", p.op_type
        return p.input[0], ("perm" if any(a.name == "perm" for a in p.attribute) else "noperm")

    lsrc, ltr = side(core_n.input[0])
    rsrc, rtr = side(core_n.input[1])
    idx = list(g.node).index(core_n)
    npost = sum(1 for n in list(g.node)[idx + 1:] if n.op_type in ("Div", "Transpose"))
    alpha = float(at.get("alpha", 1.0))
    k = int(round(np.log(alpha) / np.log(0.25))) if alpha > 0 else -1
    return {"fused": core_n.op_type == "FusedMatMul",
            "flags": {f: int(at.get(f, 0)) for f in ("transA", "transB", "transBatchA", "transBatchB")},
            "k": k, "swapped": lsrc == "b", "ltr": ltr, "rtr": rtr, "npost": npost}


def replay_mm(item):
    import warnings

    warnings.filterwarnings("ignore")
    import logging

    logging.disable(logging.CRITICAL)
    import onnxruntime as ort

    ort.set_default_logger_severity(4)
    init, seed = item
    cfg = mm_cfg(init)
    try:
        g = build_matmul(cfg)
        m = g.model()
        onnx.checker.check_model(m)
        m = onnx.shape_inference.infer_shapes(m)
        feeds = make_feeds(g, np.random.default_rng(seed))
        st, before = run_ort(m, feeds)
    except Exception as e:  # noqa: BLE001
        return {"harness_error": f"{type(e).__name__}: {e}\n{traceback.format_exc()[-1200:]}"}
    if st != "ok":
        return {"discard": f"original model not runnable: {st} {before}"}
    out = {}
    for mode, steps in (("chain", ["ort_rules"]), ("ort", ["optimize_for_ort"])):
        r = {}
        try:
            import contextlib
            import io

            with contextlib.redirect_stdout(io.StringIO()), contextlib.redirect_stderr(io.StringIO()):
                m2, _ = apply_steps(m, steps)
        except Exception as e:  # noqa: BLE001
            root = e
            while root.__cause__ is not None:
                root = root.__cause__
            out[mode] = {"status": "raise", "detail": f"{type(root).__name__}: {root}"[:300], "term": None}
            continue
        r["term"] = mm_term(m2)
        st2, after = run_ort(m2, feeds)
        r["status"], r["detail"] = status_of(before, st2, after, "f32")
        out[mode] = r
    return out


# =================================================================================================
# run(ctx)
# =================================================================================================
EFFECT_OF_STATUS = {"diff": "maydiff", "reject": "reject", "raise": "raise"}
DEV_EFFECT = {  # mirrors OrtFusion!Effect / FusedMatMul (checked against TLC's own `exec` prediction case by case)
    "gqa_mask_check_vacuous": "maydiff", "gqa_scale_dropped": "maydiff", "mha_rotary_interleaved_dropped": "maydiff",
    "group_norm_gamma_not_per_channel": "nokernel",
    "bias_gelu_bias_not_last_dim": "reject", "cos_sin_cache_1d_position_ids_batch": "reject",
    "attn_bias_key_axis_broadcast": "reject", "mha_bias_shape_unchecked": "reject",
    "gqa_head_size_not_multiple_of_16": "reject", "gqa_batch_gt1_with_past": "reject",
    "fused_matmul_transpose_flags_not_swapped": "wrong", "fused_matmul_noperm_keyerror": "raise",
}


def _tlc_jobs(ctx):
    big = not ctx.quick
    of_impl = "OrtFusion_thorough.cfg" if big else "OrtFusion_quick.cfg"
    of_design = "OrtFusion_design_thorough.cfg" if big else "OrtFusion_design.cfg"
    mm_impl = "FusedMatMul_thorough.cfg" if big else "FusedMatMul_quick.cfg"
    mm_design = "FusedMatMul_design_thorough.cfg" if big else "FusedMatMul_design.cfg"
    # (module, cfg, expectation)   expectation: "ok" | "violated:<invariant>"
    jobs = [
        ("OrtFusion", of_impl, "ok"), ("OrtFusion", of_design, "ok"),
        ("FusedMatMul", mm_impl, "ok"), ("FusedMatMul", mm_design, "ok"),
        ("OrtFusion", "OrtFusion_canfail.cfg", "violated"),
        ("OrtFusion", "OrtFusion_vacuity_attention.cfg", "violated"),
        ("OrtFusion", "OrtFusion_vacuity_gqa.cfg", "violated"),
        ("OrtFusion", "OrtFusion_vacuity_skip.cfg", "violated"),
        ("FusedMatMul", "FusedMatMul_canfail.cfg", "violated"),
        ("FusedMatMul", "FusedMatMul_canraise.cfg", "violated"),
        ("FusedMatMul", "FusedMatMul_vacuity_batch.cfg", "violated"),
    ]
    return jobs


def run_all_tlc(ctx):
    from concurrent.futures import ThreadPoolExecutor

    jobs = _tlc_jobs(ctx)
    core.scratch()  # create the scratch dir before threads race for it
    w = max(2, core.NCPU // 4)

    def one(j):
        mod, cfg, _ = j
        try:
            return core.run_tlc(mod, cfg, workers=w, timeout=3000, seed=ctx.seed, heap="3g")
        except core.MachineryError as e:
            return e

    with ThreadPoolExecutor(max_workers=4) as ex:
        results = list(ex.map(one, jobs))
    out = {}
    for (mod, cfg, exp), res in zip(jobs, results):
        if isinstance(res, Exception):
            raise res
        ctx.tlc(res, cfg)
        if exp == "ok" and not res.ok:
            raise core.MachineryError(f"TLC reports {res.violated} on {mod}/{cfg} (design-level property, deviation bookkeeping or "
                                      f"pipeline protocol):\n{res.out[-2500:]}")
        if exp == "violated" and res.ok:
            raise core.MachineryError(f"vacuity: the witness invariant of {cfg} is never violated (the corresponding property cannot fail / "
                                      f"the situation is unreachable)")
        out[cfg] = res
    return out


def parse_lines(out, tag):
    res = []
    pre = '"' + tag + " "
    for line in out.splitlines():
        if line.startswith(pre):
            res.append(json.loads(json.loads(line)[len(tag) + 1:]))
    return res


FAM_BUDGET = {"rms": 50, "skipln": 40, "gelu": 40, "softmax": 12, "groupnorm": 10, "rotary": 60, "sdpa": 60, "mha": 110, "gqa": 60}


STRATA = ("miss", "symdh", "preqpos", "sc", "sax", "eps", "sln", "form", "split", "mulswap", "axis", "up", "down", "ones", "rot", "inter", "kfmt", "proj", "past")


def _round_robin(items):
    """order the (already shuffled) items so that every value combination of the near-miss / forwarded-attribute fields
    (attribute omitted, explicit default, explicit other value, other legal axis, ...) comes up before any repeats"""
    buckets = {}
    for x in items:
        buckets.setdefault(tuple(str(x[0].get(k)) for k in STRATA), []).append(x)
    out = []
    keys = sorted(buckets)
    i = 0
    while len(out) < len(items):
        for k in keys:
            if i < len(buckets[k]):
                out.append(buckets[k][i])
        i += 1
    return out


def choose(ctx, groups):
    """groups: {family: [(cfg, cases)]}; quick tier: a seeded sample per family that keeps deviation cases and firing cases"""
    if not ctx.quick:
        return [x for f in sorted(groups) for x in groups[f]]
    rng = random.Random(ctx.seed)
    chosen = []
    for f in sorted(groups):
        items = list(groups[f])
        rng.shuffle(items)
        budget = FAM_BUDGET.get(f, 40)
        dev = [x for x in items if any(c["why"] for c in x[1])]
        fire = _round_robin([x for x in items if not any(c["why"] for c in x[1]) and any(any(c["fired"].values()) for c in x[1])])
        rest = _round_robin([x for x in items if not any(c["why"] for c in x[1]) and not any(any(c["fired"].values()) for c in x[1])])
        # every deviation id at least twice
        bydev = {}
        for x in dev:
            for c in x[1]:
                for d in c["why"]:
                    bydev.setdefault(d, []).append(x)
        pick = []
        for d in sorted(bydev):
            pick += bydev[d][:3]
        nd = budget // 4
        pick += dev[:nd]
        pick += fire[: budget // 2]
        pick += rest[: budget - budget // 2 - nd]
        seen = set()
        for x in pick:
            k = json.dumps(x[0], sort_keys=True)
            if k not in seen:
                seen.add(k)
                chosen.append(x)
    return chosen


class Reporter:
    """caps the number of replay files per deviation id / family"""

    def __init__(self, ctx):
        self.ctx = ctx
        self.n = {}
        self.violating = 0
        self.mismatch = 0

    def violation(self, case, what, finding, fam):
        self.violating += 1
        key = finding or f"unexplained:{fam}"
        self.n[key] = self.n.get(key, 0) + 1
        cap = 4 if finding else 25
        if self.n[key] <= cap or (finding and self.ctx.known_finding(finding) is not None):
            self.ctx.report(case, what, finding=finding)

    def spec_mismatch(self, what):
        self.mismatch += 1
        if self.mismatch <= 20:
            print(f"SPEC-MISMATCH C19 {what}"[:900], flush=True)


def pick_finding(why, status):
    want = EFFECT_OF_STATUS.get(status)
    for d in sorted(why):
        if DEV_EFFECT.get(d) == want:
            return d
    return None


def judge_case(rep, cfg, case, r):
    """one (configuration, pipeline) case: property verdict + model-vs-implementation comparison"""
    ctx = rep.ctx
    fam = cfg["fam"]
    ident = {"kind": "pattern", "cfg": cfg, "mode": case["mode"], "steps": case["steps"], "spec": {"exec": case["exec"], "why": case["why"], "fired": {k: v for k, v in case["fired"].items() if v}}}
    if "harness_error" in r:
        raise core.MachineryError(f"replay failed for {cfg}: {r['harness_error']}")
    if "discard" in r:
        ctx.add("discarded_original_not_runnable")
        return
    ctx.add("evaluations")
    ident["impl"] = {"status": r["status"], "detail": r["detail"][:300], "counts": r["counts"], "ops": r["ops"]}
    # ---- model vs implementation (warnings only)
    exp_counts = {k: v for k, v in case["fired"].items() if v}
    got = dict(r["counts"])
    if case["mode"] == "ort":
        exp_counts.pop("ort_rules", None)
        got.pop("ort_rules", None)
    exp_ops = dict(case["ops"]) if isinstance(case["ops"], dict) else {}
    tag = f"{fam}/{case['mode']} {json.dumps(cfg, sort_keys=True)}"
    if r["status"] != "raise":
        ctx.add("traces_validated_against_impl")
        if exp_counts != got:
            rep.spec_mismatch(f"fusion counts: model {exp_counts} impl {got} at {tag}")
        if exp_ops != r["ops"]:
            rep.spec_mismatch(f"fused operators left: model {exp_ops} impl {r['ops']} at {tag}")
    okex = case["exec"] == r["status"] or (case["exec"] == "maydiff" and r["status"] in ("same", "diff"))
    if not okex:
        rep.spec_mismatch(f"observable: model {case['exec']} impl {r['status']} ({r['detail'][:150]}) at {tag}")
    # ---- the property
    if r["status"] == "nokernel":
        ctx.add("unobservable_no_cpu_kernel")
        return
    if r["status"] == "same":
        return
    steps = "optimize_for_ort" if case["mode"] == "ort" else "+".join(case["steps"])
    fired = ", ".join(f"{k}={v}" for k, v in r["counts"].items()) or "nothing counted"
    if r["status"] == "diff":
        what = f"{steps} on the {fam} instance {json.dumps(cfg, sort_keys=True)} fused ({fired}) and ORT now returns different values: {r['detail']}"
    elif r["status"] == "reject":
        what = f"{steps} on the {fam} instance {json.dumps(cfg, sort_keys=True)} fused ({fired}) into a model ONNX Runtime refuses (the original runs): {r['detail']}"
    else:
        what = f"{steps} on the {fam} instance {json.dumps(cfg, sort_keys=True)} raised {r['detail']}"
    rep.violation(ident, what, pick_finding(case["why"], r["status"]), fam)


MM_KEYS = ("fused", "flags", "k", "swapped", "ltr", "rtr", "npost")


def judge_mm(rep, init, states, res):
    ctx = rep.ctx
    if "harness_error" in res:
        raise core.MachineryError(f"replay failed for {init}: {res['harness_error']}")
    if "discard" in res:
        ctx.add("discarded_original_not_runnable")
        return False
    fired_any = False
    for mode in ("chain", "ort"):
        r = res[mode]
        ctx.add("evaluations")
        ident = {"kind": "matmul", "init": init, "mode": mode, "impl": {"status": r["status"], "detail": r["detail"][:300], "term": r["term"]}}
        if r["status"] == "raise":
            cand = [s for s in states if s["st"] == "raised"]
            pred = "raise" if cand else None
        else:
            cand = [s for s in states if s["st"] == "ok" and r["term"] is not None and all(s[k] == r["term"][k] for k in MM_KEYS)]
            pred = None if not cand else ("same" if cand[0]["same"] else ("reject" if not cand[0]["shape_ok"] else "diff"))
            ctx.add("traces_validated_against_impl")
            if r["term"] and r["term"]["fused"]:
                fired_any = True
        tag = f"matmul/{mode} {json.dumps(init, sort_keys=True)}"
        if pred is None:
            rep.spec_mismatch(f"the rewritten term {r['term']} ({r['status']}) is not a reachable state of FusedMatMul.tla at {tag}")
        elif pred != r["status"]:
            rep.spec_mismatch(f"observable: model {pred} impl {r['status']} ({r['detail'][:150]}) at {tag}")
        if r["status"] in ("same", "nokernel"):
            continue
        why = sorted({d for s in cand for d in s["why"]}) if cand else []
        finding = None
        if r["status"] == "raise" and "fused_matmul_noperm_keyerror" in why and "KeyError" in r["detail"]:
            finding = "fused_matmul_noperm_keyerror"
        if r["status"] in ("diff", "reject") and "fused_matmul_transpose_flags_not_swapped" in why:
            finding = "fused_matmul_transpose_flags_not_swapped"
        steps = "optimize_for_ort" if mode == "ort" else "rewrite(ORT_PATTERN_REWRITE_RULES)"
        verb = {"diff": "returns different values on ORT", "reject": "is refused by ONNX Runtime", "raise": "raised"}[r["status"]]
        rep.violation(ident, f"{steps} on the MatMul instance {json.dumps(init, sort_keys=True)} -> {r['term']} {verb}: {r['detail']}", finding, "matmul")
    return fired_any


def run(ctx: core.Ctx):
    tl = run_all_tlc(ctx)
    of = tl["OrtFusion_thorough.cfg" if not ctx.quick else "OrtFusion_quick.cfg"]
    mmr = tl["FusedMatMul_thorough.cfg" if not ctx.quick else "FusedMatMul_quick.cfg"]
    cases = parse_lines(of.out, "C19CASE")
    mm_states = parse_lines(mmr.out, "C19MM")
    if not cases or not mm_states:
        raise core.MachineryError("TLC printed no cases")
    for c in cases:  # the two tables of deviation effects agree (spec is the source)
        for d in c["why"]:
            if d not in DEV_EFFECT:
                raise core.MachineryError(f"deviation {d} of OrtFusion.tla unknown to the harness")
    ctx.set("spec_cases", len(cases))
    ctx.set("spec_matmul_states", len(mm_states))
    # ---- pattern families
    groups = {}
    bycfg = {}
    for c in sorted(cases, key=lambda c: (json.dumps(c["cfg"], sort_keys=True), c["mode"])):
        k = json.dumps(c["cfg"], sort_keys=True)
        if k not in bycfg:
            bycfg[k] = (c["cfg"], [])
            groups.setdefault(c["cfg"]["fam"], []).append(bycfg[k])
        bycfg[k][1].append(c)
    chosen = choose(ctx, groups)
    items = [(cfg, cs, ctx.seed) for cfg, cs in chosen]
    results = core.pmap_safe(replay_cfg, items, timeout=180)
    rep = Reporter(ctx)
    nontriv = 0
    for (cfg, cs, _), rs in zip(items, results):
        if rs is core.HANG:
            rep.violation({"kind": "pattern", "cfg": cfg}, f"fusing the {cfg['fam']} instance {cfg} did not terminate within 180 s", None, cfg["fam"])
            continue
        if isinstance(rs, core.MachineryErrorResult):
            raise core.MachineryError(f"worker failed on {cfg}: {rs.msg}")
        if any(r.get("counts") for r in rs):
            nontriv += 1
        for c, r in zip(cs, rs):
            judge_case(rep, cfg, c, r)
        if any(r.get("counts") for r in rs):
            ctx.sample({"cfg": cfg, "results": [{"mode": c["mode"], "model": {"fired": {k: v for k, v in c["fired"].items() if v}, "exec": c["exec"], "why": c["why"]},
                                                 "impl": {"status": r.get("status"), "counts": r.get("counts")}} for c, r in zip(cs, rs)]}, limit=4)
    # ---- fused MatMul family
    byinit = {}
    for s in mm_states:
        byinit.setdefault(json.dumps(s["init"], sort_keys=True), []).append(s)
    inits = sorted(byinit)
    if ctx.quick:
        rng = random.Random(ctx.seed + 1)
        rng.shuffle(inits)
        dev = [k for k in inits if any(s["why"] for s in byinit[k])]
        rest = [k for k in inits if not any(s["why"] for s in byinit[k])]
        inits = dev[:40] + rest[:110]
    mitems = [(json.loads(k), ctx.seed) for k in inits]
    mres = core.pmap_safe(replay_mm, mitems, timeout=180)
    for (init, _), res in zip(mitems, mres):
        if res is core.HANG:
            rep.violation({"kind": "matmul", "init": init}, f"rewriting the MatMul instance {init} did not terminate within 180 s", None, "matmul")
            continue
        if isinstance(res, core.MachineryErrorResult):
            raise core.MachineryError(f"worker failed on {init}: {res.msg}")
        if judge_mm(rep, init, byinit[json.dumps(init, sort_keys=True)], res):
            nontriv += 1
    ctx.sample({"matmul_init": mitems[0][0], "impl": mres[0] if isinstance(mres[0], dict) else str(mres[0])}, limit=6)
    ctx.set("configurations_replayed", len(items) + len(mitems))
    ctx.set("configurations_in_spec", len(bycfg) + len(byinit))
    ctx.set("distinct_nontrivial", nontriv)
    ctx.set("violating_cases", rep.violating)
    ctx.set("violating_cases_by_cause", dict(sorted(rep.n.items())))
    ctx.set("model_impl_mismatches", rep.mismatch)
    ctx.set("exhaustive", not ctx.quick)
    ctx.set("rule", "a configuration = one pattern instance (family + sizes + optional inputs + operand orders + attribute values + dtype) "
                    "enumerated by OrtFusion.tla / one initial term of FusedMatMul.tla; each is replayed through its fuse_* chain and through "
                    "optimize_for_ort (2 evaluations); non-trivial = distinct configurations in which the real code fused something "
                    "(a fusion count > 0 or a FusedMatMul node)")
    ctx.assumptions += [
        "onnxruntime (CPU EP, graph optimizations disabled) is the arbiter of 'same outputs': one seeded random input per configuration, rtol=atol=1e-3 (f32) / 2e-2 (f16)",
        "a fused model that ORT refuses with NOT_IMPLEMENTED (no CPU kernel: com.microsoft.GroupNorm) is counted as unobservable, not judged",
        "attention masks are finite (0 / -1000) and never mask a whole row; -inf masks (NaN rows, the IsNaN/Where variant) are not generated",
        "fusions that need dynamic shapes and hand-written value_info (GQA) are built the way ort_fusions/gqa_test.py builds them",
        "thorough bounds: B,S in {1,2,3}, heads in {1,2,4}, head sizes in {2,4,8,16}; larger sizes are not explored",
    ]


def replay(ctx, path):
    with open(path) as f:
        case = json.load(f)["case"]
    if case.get("kind") == "matmul":
        res = replay_mm((case["init"], ctx.seed))
        r = res.get(case["mode"], res)
        print(json.dumps({"case": case, "now": r}, indent=1, default=str))
        return 0 if r.get("status") in ("same", "nokernel") else 1
    spec_case = {"mode": case["mode"], "steps": case["steps"]}
    r = replay_cfg((case["cfg"], [spec_case], ctx.seed))[0]
    print(json.dumps({"case": case, "now": r}, indent=1, default=str))
    return 0 if r.get("status") in ("same", "nokernel") or "discard" in r else 1
