"""Shared by C03/C04: models derived by spec/Optimizer.tla -> real onnx ModelProto -> optimizer entry points -> ORT.

The abstract model (JSON printed by TLC, see Optimizer.tla `Emit`) is
  {"ins":   [{"name", "kind": "in"|"ovr", "dt", "ds": declared dims (>=0 int, -1 "N", -2 "M", -9 unnamed), "val": tensor (default of an
              overridable initializer-input; ERR record otherwise)}],
   "inits": [{"name", "val": tensor}],
   "nodes": [{"op", "ins": [names], "outs": [names], "at": {"to", "perm", "axis", "val"}, "sub": [graph, graph]}],
   "outs":  [names]}
with tensor = {"dt": "f32"|"i64"|"bool", "shape": [..], "data": [ints]} (row-major, integer valued).
"""
from __future__ import annotations

import json
import os

import numpy as np

from . import core

OPSET = 18
NP = {"f32": np.float32, "i64": np.int64, "bool": np.bool_, "i32": np.int32}
SYMDIM = {-11: "N", -12: "M", -13: "K"}
NOAX = -100


def _tp():
    from onnx import TensorProto as T

    return {"f32": T.FLOAT, "i64": T.INT64, "bool": T.BOOL, "i32": T.INT32}


def to_np(t):
    """abstract tensor -> numpy"""
    return np.array(t["data"], dtype=NP[t["dt"]]).reshape([int(d) for d in t["shape"]])


def from_np(a):
    a = np.asarray(a)
    dt = {"float32": "f32", "int64": "i64", "bool": "bool", "int32": "i32"}.get(str(a.dtype))
    if dt is None:
        return {"dt": str(a.dtype), "shape": list(a.shape), "data": a.reshape(-1).tolist()}
    return {"dt": dt, "shape": list(a.shape), "data": [int(x) for x in a.reshape(-1).tolist()]}


def decl_dims(ds):
    return [SYMDIM.get(d, None) if d < 0 else int(d) for d in ds]


def _tensor_proto(name, t):
    from onnx import numpy_helper

    return numpy_helper.from_array(to_np(t), name)


def _graph(g, name, inputs, outputs):
    from onnx import helper as h

    nodes = []
    for k, n in enumerate(g["nodes"]):
        op = n["op"]
        at = n["at"]
        attrs = {}
        if op == "Constant":
            attrs["value"] = _tensor_proto(n["outs"][0], at["val"])
        elif op == "Cast":
            attrs["to"] = _tp()[at["to"]]
        elif op == "Transpose":
            attrs["perm"] = [int(p) for p in at["perm"]]
        elif op in ("Gather", "Concat"):
            if at["axis"] != NOAX:
                attrs["axis"] = int(at["axis"])
        elif op == "If":
            attrs["then_branch"] = _graph(n["sub"][0], f"{name}_then{k}", [], _sub_outs(n["sub"][0], n))
            attrs["else_branch"] = _graph(n["sub"][1], f"{name}_else{k}", [], _sub_outs(n["sub"][1], n))
        nodes.append(h.make_node(op, list(n["ins"]), list(n["outs"]), name=f"{name}_n{k}", **attrs))
    inits = [_tensor_proto(i["name"], i["val"]) for i in g["inits"]]
    return h.make_graph(nodes, name, inputs, outputs, inits)


def _sub_outs(sub, node):
    from onnx import helper as h

    # Optimizer.tla records the rank of an If's outputs in at.axis; branch outputs are FLOAT in every branch template
    rank = node["at"]["axis"] if node["at"].get("axis", NOAX) != NOAX else 1
    meta = node["at"].get("ometa") or [{"dt": "f32", "rank": rank}] * len(sub["outs"])
    return [h.make_tensor_value_info(o, _tp()[mt["dt"]], [None] * int(mt["rank"])) for o, mt in zip(sub["outs"], meta)]


def build_model(model, outmeta, ir_version=9):
    """abstract model + [{"dt", "rank"}] per graph output -> ModelProto.  Graph inputs carry their declared type; an overridable
    initializer is listed both as graph input and as initializer."""
    import onnx
    from onnx import helper as h

    ins = [h.make_tensor_value_info(i["name"], _tp()[i["dt"]], decl_dims(i["ds"])) for i in model["ins"]]
    byname = {i["name"]: i for i in model["ins"]}
    outs = [h.make_tensor_value_info(o, _tp()[byname[o]["dt"]], decl_dims(byname[o]["ds"])) if o in byname
            else h.make_tensor_value_info(o, _tp()[mt["dt"]], [None] * int(mt["rank"])) for o, mt in zip(model["outs"], outmeta)]
    g = _graph(model, "main", ins, outs)
    for i in model["ins"]:
        if i["kind"] == "ovr":
            g.initializer.append(_tensor_proto(i["name"], i["val"]))
    m = h.make_model(g, opset_imports=[h.make_opsetid("", OPSET)], producer_name="verif-optgen")
    m.ir_version = ir_version
    return m


def describe(m, limit=4000):
    """compact text rendering of a ModelProto (for reports)"""
    import onnx
    from onnx import helper as h
    from onnx import numpy_helper

    lines = []

    def g_(g, ind):
        for i in g.input:
            lines.append(f"{ind}input {i.name}: {h.printable_type(i.type)}")
        for i in g.initializer:
            a = numpy_helper.to_array(i)
            lines.append(f"{ind}init {i.name} {a.dtype}{list(a.shape)} = {a.reshape(-1).tolist()[:8]}")
        for n in g.node:
            at = {}
            for a in n.attribute:
                if a.type == a.GRAPH:
                    continue
                if a.type == a.TENSOR:
                    t = numpy_helper.to_array(a.t)
                    at[a.name] = f"{t.dtype}{list(t.shape)}{t.reshape(-1).tolist()[:8]}"
                else:
                    at[a.name] = h.get_attribute_value(a)
            lines.append(f"{ind}{n.op_type}({', '.join(n.input)}) -> {', '.join(n.output)} {at if at else ''}")
            for a in n.attribute:
                if a.type == a.GRAPH:
                    lines.append(f"{ind}  {a.name}:")
                    g_(a.g, ind + "    ")
        lines.append(f"{ind}outputs {[o.name for o in g.output]}")

    g_(m.graph, "")
    for f in m.functions:
        lines.append(f"function {f.domain}::{f.name}({', '.join(f.input)}) -> {', '.join(f.output)}")
        for n in f.node:
            lines.append(f"   {n.op_type}({', '.join(n.input)}) -> {', '.join(n.output)}")
    return "\n".join(lines)[:limit]


def op_multiset(m):
    """sorted list of op types over the main graph and all nested subgraphs"""
    out = []

    def g_(g):
        for n in g.node:
            out.append(n.op_type)
            for a in n.attribute:
                if a.type == a.GRAPH:
                    g_(a.g)
                elif a.type == a.GRAPHS:
                    for x in a.graphs:
                        g_(x)

    g_(m.graph)
    return sorted(out)


# ------------------------------------------------------------------------------------------------
# TLC side: run the Optimizer.tla configurations of a tier, return the emitted cases
# ------------------------------------------------------------------------------------------------
VACUITY_TAGS = ["PE_If_inline", "FoldByReference", "PE_Reshape", "PE_Expand_sym", "PE_Shape", "PE_CastLike_Cast", "OutputReplaced",
                "Rule:TransposeTranspose", "Rule:FuseSuccessiveReluClip", "Rule:FuseSuccessiveClip", "Rule:FuseMinMaxToClip",
                "Rule:FuseMaxMinToClip", "Rule:add_0", "Rule:mul_by_1", "Rule:ReshapeReshape", "Rule:UnsqueezeUnsqueeze"]


def _run(args):
    module, cfg, kw = args
    try:
        return core.run_tlc(module, cfg, **kw)
    except core.MachineryError as e:  # carried to the caller's thread
        return e


def tlc_cases(ctx):
    """Runs the TLC configurations (in parallel JVMs): exhaustive design check + case emission, step-level design check,
    simulation with the rich menus, one vacuity witness and the seeded-design ("canfail") runs.
    Returns the list of distinct emitted cases."""
    from concurrent.futures import ThreadPoolExecutor

    sim_n = 120 if ctx.quick else 1500          # behaviours per TLC worker
    W = max(2, core.NCPU // 2)
    jobs = [
        ("exhaustive", "Optimizer_quick.cfg" if ctx.quick else "Optimizer_thorough.cfg", dict(workers=W, timeout=3000)),
        ("simulate", "Optimizer_sim.cfg" if ctx.quick else "Optimizer_sim5.cfg",
         dict(workers=W, simulate=f"num={sim_n}", depth=100, seed=ctx.seed + 1, timeout=3000)),
        ("steps", "Optimizer_steps.cfg", dict(workers=4, timeout=1500)),
    ] + ([] if ctx.quick else [("exhaustive3", "Optimizer_thorough3.cfg", dict(workers=W, timeout=3000))]) + [
        ("vacuity", "Optimizer_vacuity.cfg", dict(workers=2, timeout=900)),
        ("canfail_sameshape", "Optimizer_canfail_sameshape.cfg", dict(workers=4, timeout=900)),
        ("canfail_transpose", "Optimizer_canfail_transpose.cfg", dict(workers=4, timeout=900)),
        ("canfail_foldinput", "Optimizer_canfail_foldinput.cfg", dict(workers=2, timeout=900)),
        ("canfail_clearinit", "Optimizer_canfail_clearinit.cfg", dict(workers=2, timeout=900)),
    ]
    with ThreadPoolExecutor(max_workers=4) as ex:
        results = list(ex.map(_run, [("Optimizer", cfg, kw) for _, cfg, kw in jobs]))
    cases = {}
    for (label, cfg, _), res in zip(jobs, results):
        if isinstance(res, Exception):
            raise res
        ctx.tlc(res, f"{cfg} ({label})")
        if label in ("exhaustive", "exhaustive3", "simulate", "steps"):
            if res.violated or not res.ok:
                raise core.MachineryError(f"TLC reports {res.violated} on {cfg}: the design level of Optimizer.tla violates the property\n{res.out[-2500:]}")
            for pr in res.printed:
                if pr and pr[0] == "CASE" and pr[1] not in cases:
                    cases[pr[1]] = label
        elif label == "vacuity":
            if res.violated != "NeverDeviates":
                raise core.MachineryError("vacuity: no behaviour of the implementation model takes a deviation (NeverDeviates holds)")
        else:
            if res.violated != "PropertyHolds":
                raise core.MachineryError(f"{cfg}: the seeded defect of the design is not detected by the invariants (got {res.violated})")
    out = []
    for text, label in cases.items():
        c = json.loads(text)
        c["src"] = label
        out.append(c)
    tags = set()
    for c in out:
        for t in c["log"]:
            p = t.split(":")
            tags.add(p[0] if p[0] != "Rule" else "Rule:" + p[1])
    missing = [t for t in VACUITY_TAGS if t not in tags]
    if missing:
        raise core.MachineryError(f"vacuity: optimizer steps never taken by any derived model: {missing}")
    ctx.set("spec_models", len(out))
    ctx.set("spec_steps_seen", sorted(tags))
    return out


def outmeta(case):
    return [{"dt": t["dt"], "rank": len(t["shape"])} for t in case["expect"][0]]


# ------------------------------------------------------------------------------------------------
# the real entry points under their options
# ------------------------------------------------------------------------------------------------
VARIANTS = ["optimize", "optimize_ir_i1_noinf", "optimize_i3_nostop_in0", "optimize_out0", "optimize_small", "optimize_noinline",
            "optimize_ir_shouldfold", "fold_constants", "fold_constants_ir_inf_shouldfold", "remove_unused_nodes", "rewrite", "rewrite_pass_ir"]


def apply_variant(name, m):
    """m: a private ModelProto copy.  Returns the resulting ModelProto."""
    import onnxscript.optimizer as opt
    from onnxscript import ir, rewriter
    from onnxscript.optimizer import _optimizer

    def via_ir(fn):
        im = ir.serde.deserialize_model(m)
        r = fn(im)
        return ir.serde.serialize_model(im if r is None or not isinstance(r, ir.Model) else r)

    if name == "optimize":
        return opt.optimize(m)
    if name == "optimize_ir_i1_noinf":
        return via_ir(lambda im: opt.optimize(im, num_iterations=1, onnx_shape_inference=False))
    if name == "optimize_i3_nostop_in0":
        return opt.optimize(m, num_iterations=3, stop_if_no_change=False, input_size_limit=0)
    if name == "optimize_out0":
        return opt.optimize(m, output_size_limit=0)
    if name == "optimize_small":
        return opt.optimize(m, num_iterations=1, input_size_limit=2, output_size_limit=2)
    if name == "optimize_noinline":
        return opt.optimize(m, inline=False)
    if name == "optimize_ir_shouldfold":
        return via_ir(lambda im: _optimizer.optimize_ir(im, should_fold=lambda node: True))
    if name == "fold_constants":
        opt.fold_constants(m)
        return m
    if name == "fold_constants_ir_inf_shouldfold":
        return via_ir(lambda im: opt.fold_constants(im, onnx_shape_inference=True, should_fold=lambda node: True) and None)
    if name == "remove_unused_nodes":
        opt.remove_unused_nodes(m)
        return m
    if name == "rewrite":
        return rewriter.rewrite(m)
    if name == "rewrite_pass_ir":
        return via_ir(lambda im: rewriter.RewritePass(rewriter._DEFAULT_REWRITE_RULES)(im).model)
    raise ValueError(name)


def exc_text(e):
    """exception chain, innermost first (the innermost names the rule / evaluator that failed)"""
    parts = []
    seen = set()
    while e is not None and id(e) not in seen:
        seen.add(id(e))
        parts.append(f"{type(e).__name__}: {str(e)[:160]}")
        e = e.__cause__ or e.__context__
    return " <- ".join(reversed(parts))[:700]


def exc_site(e):
    """file:function of the innermost frame inside onnxscript / onnx_ir"""
    import traceback

    site = ""
    seen = set()
    while e is not None and id(e) not in seen:
        seen.add(id(e))
        for fr in traceback.extract_tb(e.__traceback__):
            if "onnxscript" in fr.filename or "onnx_ir" in fr.filename:
                site = f"{os.path.basename(fr.filename)}:{fr.name}"
        e = e.__cause__ or e.__context__
        if e is not None:
            site = ""
    return site


# ------------------------------------------------------------------------------------------------
# observation helpers
# ------------------------------------------------------------------------------------------------
def close(a, b, rtol=1e-5, atol=1e-6):
    """the property's output relation: same dtype and runtime shape; ints/bools/strings bit-equal; floats up to round-off,
    NaN and infinities positional"""
    a = np.asarray(a)
    b = np.asarray(b)
    if a.dtype != b.dtype or a.shape != b.shape:
        return False
    if a.dtype.kind in "fc":
        with np.errstate(all="ignore"):
            return bool(np.allclose(a, b, rtol=rtol, atol=atol, equal_nan=True))
    if a.dtype.kind == "O":
        return a.tolist() == b.tolist()
    return bool(np.array_equal(a, b))


def same_outputs(xs, ys, rtol=1e-5, atol=1e-6):
    if len(xs) != len(ys):
        return False
    for x, y in zip(xs, ys):
        if isinstance(x, list) or isinstance(y, list):       # sequence outputs
            if not (isinstance(x, list) and isinstance(y, list) and same_outputs(x, y, rtol, atol)):
                return False
        elif x is None or y is None:
            if not (x is None and y is None):
                return False
        elif not close(x, y, rtol, atol):
            return False
    return True


def brief(xs):
    out = []
    for x in xs:
        if isinstance(x, list):
            out.append(brief(x))
        elif x is None:
            out.append(None)
        else:
            a = np.asarray(x)
            out.append(f"{a.dtype}{list(a.shape)}{a.reshape(-1).tolist()[:6]}")
    return out


def signature(m):
    """(inputs, outputs, overridable): [(name, elem_type, dims)], dims: int | str | None per dim, or None when no shape"""

    def vi(v):
        tt = v.type.tensor_type
        if v.type.HasField("tensor_type"):
            dims = None
            if tt.HasField("shape"):
                dims = [d.dim_value if d.HasField("dim_value") else (d.dim_param or None) for d in tt.shape.dim]
            return (v.name, tt.elem_type, dims)
        return (v.name, v.type.WhichOneof("value"), None)

    inits = {i.name for i in m.graph.initializer}
    return ([vi(v) for v in m.graph.input], [vi(v) for v in m.graph.output], sorted(v.name for v in m.graph.input if v.name in inits))


def scoped_ssa_ok(m):
    """ONNX's own uniqueness rule: names are unique within a graph and a nested graph does not redefine a name of an enclosing
    graph; sibling graphs (the two branches of an If) may reuse names.  (Graph.tla SSA is stricter: unique over all nested graphs.)"""

    def g_(g, outer):
        defs = [i.name for i in g.input] + [i.name for i in g.initializer if i.name not in {x.name for x in g.input}]
        for n in g.node:
            defs += [o for o in n.output if o]
        if len(defs) != len(set(defs)) or (set(defs) & outer):
            return False
        scope = outer | set(defs)
        for n in g.node:
            for a in n.attribute:
                if a.type == a.GRAPH and not g_(a.g, scope):
                    return False
                if a.type == a.GRAPHS and not all(g_(x, scope) for x in a.graphs):
                    return False
        return True

    return g_(m.graph, set())


def sig_diff(before, after):
    """names, order, element types must be kept; a shape may be refined but a static dim / the rank may not change"""
    msgs = []
    for what, b, a in (("input", before[0], after[0]), ("output", before[1], after[1])):
        if [x[0] for x in b] != [x[0] for x in a]:
            msgs.append(f"{what} names {[x[0] for x in b]} -> {[x[0] for x in a]}")
            continue
        for x, y in zip(b, a):
            if x[1] != y[1]:
                msgs.append(f"{what} {x[0]}: element type {x[1]} -> {y[1]}")
            elif x[2] is not None and y[2] is not None:
                if len(x[2]) != len(y[2]):
                    msgs.append(f"{what} {x[0]}: rank {len(x[2])} -> {len(y[2])}")
                elif any(isinstance(p, int) and isinstance(q, int) and p != q for p, q in zip(x[2], y[2])):
                    msgs.append(f"{what} {x[0]}: shape {x[2]} -> {y[2]}")
    if before[2] != after[2]:
        lost = [n for n in before[2] if n not in after[2]]
        if lost:
            msgs.append(f"overridable initializer-inputs lost their default: {lost}")
    return msgs


# ------------------------------------------------------------------------------------------------
# direction A: one TLC case -> real model -> entry points -> observations
# ------------------------------------------------------------------------------------------------
NPROBE = 3            # probes 0..2: plain feeds (overridable defaults omitted); probe 3 (if any): overrides supplied


# ---- trace hooks (ONNXSCRIPT_VERIF=1): recorded executions of the constant folder, validated by TLC against FoldApply.tla ---------
def _traces_begin():
    from onnxscript._internal import _verif

    if _verif.ENABLED:
        del _verif.traces[:]


def _traces_take(v, raised=False, keep_rewriter=False):
    """Attach the folder traces (and, on request, the rewriter traces) recorded since _traces_begin() to the variant record."""
    from onnxscript._internal import _verif

    if not _verif.ENABLED:
        return
    if raised:
        _verif.abort_all()
    fo = [t for t in _verif.traces if t["kind"] == "folder" and t["events"]
          and sum(len(g["nodes"]) for g in t["meta"]["model"]["graphs"]) <= 60][:2]
    if fo:
        v["foldtraces"] = fo
    if keep_rewriter and not raised:
        v["rwtraces"] = [t for t in _verif.traces if t["kind"] == "rewriter" and any(e["ev"] == "Apply" for e in t["events"])][:4]
    del _verif.traces[:]


def fold_traces_of(results, label):
    """All folder traces attached to replay results (list of (case, result)), with ids."""
    out = []
    for case, res in results:
        if not isinstance(res, dict):
            continue
        variants = list(res.get("variants") or [])
        for r in res.get("runs") or []:
            variants += r.get("variants") or []
        for v in variants:
            for t in v.pop("foldtraces", None) or []:
                t["id"] = f"{label}/{len(out)}/{v['name']}"
                out.append(t)
    return out


def replay_case(arg):
    """arg = (idx, case, variant names, want_abstract).  Returns observations only (small, picklable)."""
    import onnx

    idx, case, vnames, want_abs = arg
    out = {"idx": idx, "invalid": None, "spec_eval": None, "variants": []}
    m = build_model(case["model"], outmeta(case))
    try:
        onnx.checker.check_model(m)
    except Exception as e:  # noqa: BLE001
        out["invalid"] = f"checker rejects the derived model: {str(e)[:200]}"
        return out
    feeds = [{k: to_np(v) for k, v in f.items()} for f in case["feeds"]]
    try:
        sess0 = core.ort_session(m)
        orig = [sess0.run(None, f) for f in feeds]
    except Exception as e:  # noqa: BLE001
        out["invalid"] = f"onnxruntime cannot run the derived model: {str(e)[:200]}"
        return out
    for k, (got, exp) in enumerate(zip(orig, case["expect"])):
        if not same_outputs(got, [to_np(t) for t in exp]):
            out["spec_eval"] = f"probe {k}: Optimizer.tla Eval gives {[t for t in exp]} but onnxruntime(original) gives {brief(got)}"
            break
    sig0 = signature(m)
    for vn in vnames:
        v = {"name": vn, "exc": None, "site": "", "check": None, "sig": [], "fail": [], "ops": None, "pred": [], "abs": None}
        out["variants"].append(v)
        m1 = onnx.ModelProto()
        m1.CopyFrom(m)
        _traces_begin()
        try:
            m2 = apply_variant(vn, m1)
        except Exception as e:  # noqa: BLE001
            v["exc"] = exc_text(e)
            v["site"] = exc_site(e)
            _traces_take(v, raised=True)
            continue
        _traces_take(v)
        try:
            onnx.checker.check_model(m2)
        except Exception as e:  # noqa: BLE001
            v["check"] = str(e)[:300]
        v["sig"] = sig_diff(sig0, signature(m2))
        if vn == "optimize":
            v["ops"] = op_multiset(m2)
        if want_abs:
            v["abs"] = core.abstract_model(f"{idx}/{vn}", m2)
            v["ssa_scoped"] = scoped_ssa_ok(m2)
        try:
            sess = core.ort_session(m2)
        except Exception as e:  # noqa: BLE001
            v["fail"].append((-1, "load", str(e)[:300]))
            v["text"] = describe(m2, 1500)
            continue
        for k, f in enumerate(feeds):
            try:
                got = sess.run(None, f)
            except Exception as e:  # noqa: BLE001
                got = None
                msg = str(e)[:200]
            if got is None:
                v["fail"].append((k, "run", msg))
            elif not same_outputs(orig[k], got):
                v["fail"].append((k, "value", f"original {brief(orig[k])} optimized {brief(got)}"))
            if vn == "optimize" and not case["raised"]:
                pred = case["outs"][k]
                pred_ok = pred == case["expect"][k]
                real_ok = got is not None and same_outputs(orig[k], got)
                # the model's prediction is wrong if it predicts a departure that does not happen, or - for a run that took
                # no deviation - anything else than what happens
                if real_ok and not pred_ok:
                    v["pred"].append(f"probe {k}: model predicts {pred} but the optimized model returns the original's outputs")
                elif not real_ok and pred_ok and not case["used"]:
                    v["pred"].append(f"probe {k}: model predicts conformance, real: {v['fail'][-1][2]}")
        if v["fail"]:
            v["text"] = describe(m2, 1500)
    return out


OVR_READERS = {"Reshape", "Expand", "If", "Gather", "Add", "Sub", "Mul", "Min", "Max", "Unsqueeze", "Squeeze", "CastLike", "Cast", "Concat",
               "Shape", "Size", "Dropout", "Identity", "Transpose"}


def case_guards(case):
    """deviation ids whose guard (a predicate over the ORIGINAL model) holds - used to attribute a failure of an entry point /
    option tuple other than the one the TLC run models"""
    g = set(case["used"])
    model = case["model"]
    names_in = {i["name"] for i in model["ins"]}
    ovr = {i["name"] for i in model["ins"] if i["kind"] == "ovr"}

    def consumers(nodes):
        for n in nodes:
            if any(x in ovr for x in n["ins"]):
                yield n["op"]
            for sg in n["sub"]:
                yield from consumers(sg["nodes"])

    # the known behaviour: a node consuming the default is replaced by a partial evaluator / rule / inference that reads (or just
    # drops) it.  A consumer without any of these (Neg ...) can only lose the default by being folded - that is NOT known behaviour
    if ovr and any(op in OVR_READERS for op in consumers(model["nodes"])):
        g |= {"overridable_read_as_const", "overridable_default_dropped"}
    if any(o in names_in for o in model["outs"]):
        g.add("graph_input_output_renamed")
    return g


def attribute(case, v, symptom, detail):
    """deviation id explaining a failure, or None.  symptom: raise | value | run | load | sig | check | wf"""
    g = case_guards(case)
    if symptom == "raise":
        return None          # no exception of an entry point is known behaviour on the TLC models (relu_clip_no_dtype_raise is fixed)
    # guard: shape inference disabled (values created by the optimizer are untyped); symptom: a graph output without type / shape
    if (symptom in ("sig", "check") and (v["name"] == "optimize_ir_i1_noinf" or "cse_output_type_lost" in g)
            and (("element type" in detail and "-> None" in detail) or "Field 'type'" in detail or "Field 'shape'" in detail)):
        return "cse_output_type_lost"
    if symptom == "sig":
        if "graph_input_output_renamed" in g and "_orig" in detail and "input names" in detail:
            return "graph_input_output_renamed"
        if "overridable_default_dropped" in g and "lost their default" in detail:
            return "overridable_default_dropped"
        return None
    if symptom in ("run", "load"):
        if "graph_input_output_renamed" in g and "_orig" in detail:
            return "graph_input_output_renamed"
        if "overridable_default_dropped" in g and "Required inputs" in detail:
            return "overridable_default_dropped"
        if "overridable_read_as_const" in g and v.get("probe") == NPROBE:
            return "overridable_read_as_const"
        return None
    if symptom == "value":
        if v.get("probe") == NPROBE:
            return "overridable_read_as_const" if "overridable_read_as_const" in g else None
        return None          # relu_clip_negmax / clip_clip_disjoint are fixed: a wrong value on a plain probe is a violation
    return None


# ------------------------------------------------------------------------------------------------
# quantifier (b): the ONNX backend test models shipped with the installed onnx package, lifted
# ------------------------------------------------------------------------------------------------
LIB_SETS = ["node", "pytorch-converted", "pytorch-operator", "simple"]
LIFTS = ["plain", "const", "ovr", "if_const", "if_input", "loop", "func"]
LIB_VARIANTS = ["optimize", "optimize_ir_i1_noinf", "fold_constants", "fold_constants_ir_inf_shouldfold", "rewrite", "optimize_noinline",
                "optimize_i3_nostop_in0", "remove_unused_nodes", "optimize_ir_shouldfold"]
NONDET_OPS = {"RandomUniform", "RandomNormal", "RandomUniformLike", "RandomNormalLike", "Multinomial", "Bernoulli"}


def library_models():
    import onnx

    base = os.path.join(os.path.dirname(onnx.__file__), "backend", "test", "data")
    out = []
    for s in LIB_SETS:
        d = os.path.join(base, s)
        if not os.path.isdir(d):
            continue
        for name in sorted(os.listdir(d)):
            p = os.path.join(d, name)
            if os.path.exists(os.path.join(p, "model.onnx")) and os.path.isdir(os.path.join(p, "test_data_set_0")):
                out.append(f"{s}/{name}")
    return out


def _load_value(path, typ):
    import onnx
    from onnx import numpy_helper

    with open(path, "rb") as f:
        data = f.read()
    kind = typ.WhichOneof("value")
    if kind == "tensor_type":
        t = onnx.TensorProto()
        t.ParseFromString(data)
        return numpy_helper.to_array(t)
    if kind == "sequence_type":
        s = onnx.SequenceProto()
        s.ParseFromString(data)
        return numpy_helper.to_list(s)
    raise ValueError("unsupported value kind " + str(kind))


def load_library(rel):
    """-> (ModelProto, [inputs], [recorded outputs]) of test_data_set_0"""
    import onnx

    base = os.path.join(os.path.dirname(onnx.__file__), "backend", "test", "data", rel)
    m = onnx.load(os.path.join(base, "model.onnx"))
    inits = {i.name for i in m.graph.initializer}
    gin = [i for i in m.graph.input if i.name not in inits]
    d = os.path.join(base, "test_data_set_0")
    ins = [_load_value(os.path.join(d, f"input_{k}.pb"), v.type) for k, v in enumerate(gin) if os.path.exists(os.path.join(d, f"input_{k}.pb"))]
    outs = [_load_value(os.path.join(d, f"output_{k}.pb"), v.type) for k, v in enumerate(m.graph.output) if os.path.exists(os.path.join(d, f"output_{k}.pb"))]
    if len(ins) != len(gin) or len(outs) != len(m.graph.output):
        raise ValueError("incomplete data set")
    return m, gin, ins, outs


def _has_graph_attr(m):
    return any(a.type in (a.GRAPH, a.GRAPHS) for n in m.graph.node for a in n.attribute)


def _rename_graph(g, keep, prefix):
    """copy of g's nodes/initializers/outputs with every value name not in `keep` prefixed"""
    import onnx

    def r(nm):
        return nm if (nm == "" or nm in keep) else prefix + nm

    nodes = []
    for n in g.node:
        n2 = onnx.NodeProto()
        n2.CopyFrom(n)
        n2.name = prefix + (n.name or "n")
        del n2.input[:]
        del n2.output[:]
        n2.input.extend(r(x) for x in n.input)
        n2.output.extend(r(x) for x in n.output)
        nodes.append(n2)
    return nodes, r


def lift(m, gin, ins, mode, rec=None):
    """lifted copy of m and the feeds to use: returns (model, feeds list, recorded_applicable per feed) or raises ValueError"""
    import onnx
    from onnx import TensorProto, helper, numpy_helper

    m2 = onnx.ModelProto()
    m2.CopyFrom(m)
    g = m2.graph
    names = [v.name for v in gin]
    tensor_inputs = all(isinstance(x, np.ndarray) for x in ins)
    plain_feed = dict(zip(names, ins))
    if mode == "plain":
        return m2, [plain_feed], [True]
    m2.ir_version = max(m2.ir_version, 8)      # initializers that are not graph inputs (IR >= 4), model-local functions (IR >= 8)
    if mode in ("const", "ovr"):
        if not tensor_inputs or not names:
            raise ValueError("needs tensor inputs")
        if any(x.dtype.kind in "OUS" for x in ins) and mode == "ovr":
            raise ValueError("string defaults")
        for nm, x in zip(names, ins):
            g.initializer.append(numpy_helper.from_array(x, nm))
        if mode == "const":
            keep = [v for v in g.input if v.name not in names]
            del g.input[:]
            g.input.extend(keep)
            return m2, [{}], [True]
        # overridable defaults: omitted / supplied as recorded / supplied with other float values
        other = {nm: (x * 0.5 + 0.25).astype(x.dtype) if x.dtype.kind == "f" else x for nm, x in zip(names, ins)}
        feeds = [{}, plain_feed]
        rec = [True, True]
        if any(x.dtype.kind == "f" and x.size for x in ins):
            feeds.append(other)
            rec.append(False)
        return m2, feeds, rec
    if mode in ("if_const", "if_input"):
        if _has_graph_attr(m):
            raise ValueError("nested graphs are not renamed")
        if not all(o.type.HasField("tensor_type") or o.type.HasField("sequence_type") for o in g.output):
            raise ValueError("output kind")
        outer = set(names)
        branches = []
        for prefix in ("t_", "e_"):
            nodes, r = _rename_graph(g, outer, prefix)
            inits = []
            for i in g.initializer:
                if i.name in outer:
                    continue
                t = onnx.TensorProto()
                t.CopyFrom(i)
                t.name = r(i.name)
                inits.append(t)
            outs = []
            for o in g.output:
                v = onnx.ValueInfoProto()
                v.CopyFrom(o)
                v.name = r(o.name)
                if v.name in outer:          # a branch may not return an outer value directly
                    nodes.append(helper.make_node("Identity", [v.name], [prefix + "id_" + v.name]))
                    v.name = prefix + "id_" + v.name
                outs.append(v)
            branches.append(helper.make_graph(nodes, prefix + "branch", [], outs, inits))
        cond_name = "verif_cond"
        ifn = helper.make_node("If", [cond_name], [o.name for o in g.output], then_branch=branches[0], else_branch=branches[1], name="verif_if")
        keep_inputs = [v for v in g.input if v.name in outer]
        keep_inits = [i for i in g.initializer if i.name in outer]
        new_inputs = list(keep_inputs)
        new_inits = list(keep_inits)
        feeds = [dict(plain_feed)]
        if mode == "if_const":
            new_inits.append(numpy_helper.from_array(np.array(True), cond_name))
        else:
            new_inputs.append(helper.make_tensor_value_info(cond_name, TensorProto.BOOL, []))
            feeds = [dict(plain_feed, **{cond_name: np.array(True)}), dict(plain_feed, **{cond_name: np.array(False)})]
        g2 = helper.make_graph([ifn], g.name + "_if", new_inputs, list(g.output), new_inits)
        m2.graph.CopyFrom(g2)
        return m2, feeds, [True] * len(feeds)
    if mode == "loop":
        # Loop(trip count 1, cond true): the body computes the model from captured outer inputs and owns the initializers;
        # the outputs are loop-carried values (initialised with zeros of the recorded outputs' type)
        if _has_graph_attr(m):
            raise ValueError("nested graphs are not renamed")
        if rec is None or not all(isinstance(x, np.ndarray) and x.dtype.kind in "fiub" for x in rec):
            raise ValueError("tensor outputs needed")
        outer = set(names)
        nodes, r = _rename_graph(g, outer, "b_")
        inits = []
        for i in g.initializer:
            if i.name in outer:
                continue
            t = onnx.TensorProto()
            t.CopyFrom(i)
            t.name = r(i.name)
            inits.append(t)
        body_in = [helper.make_tensor_value_info("verif_iter", TensorProto.INT64, []), helper.make_tensor_value_info("verif_cin", TensorProto.BOOL, [])]
        body_out = [helper.make_tensor_value_info("verif_cout", TensorProto.BOOL, [])]
        nodes.append(helper.make_node("Identity", ["verif_cin"], ["verif_cout"]))
        state0 = []
        for k, (o, x) in enumerate(zip(g.output, rec)):
            v = onnx.ValueInfoProto()
            v.CopyFrom(o)
            v.name = f"verif_s{k}"
            body_in.append(v)
            state0.append(numpy_helper.from_array(np.zeros_like(x), f"verif_init{k}"))
            vo = onnx.ValueInfoProto()
            vo.CopyFrom(o)
            vo.name = r(o.name)
            if vo.name in outer:
                nodes.append(helper.make_node("Identity", [vo.name], ["b_id_" + vo.name]))
                vo.name = "b_id_" + vo.name
            body_out.append(vo)
        body = helper.make_graph(nodes, "verif_body", body_in, body_out, inits)
        loop = helper.make_node("Loop", ["verif_trip", "verif_cond"] + [t.name for t in state0], [o.name for o in g.output], body=body, name="verif_loop")
        new_inits = [i for i in g.initializer if i.name in outer] + [numpy_helper.from_array(np.array(1, np.int64), "verif_trip"),
                                                                     numpy_helper.from_array(np.array(True), "verif_cond")] + state0
        g2 = helper.make_graph([loop], g.name + "_loop", [v for v in g.input if v.name in outer], list(g.output), new_inits)
        m2.graph.CopyFrom(g2)
        return m2, [plain_feed], [True]
    if mode == "func":
        dom = "verif.local"
        body = []
        for i in g.initializer:
            if i.name in names:
                raise ValueError("initializer-inputs")
            body.append(helper.make_node("Constant", [], [i.name], value=i))
        call_attrs = {}
        ref_done = False
        for n in g.node:
            n2 = onnx.NodeProto()
            n2.CopyFrom(n)
            if not ref_done:
                for a in n2.attribute:
                    if a.type in (a.INT, a.FLOAT, a.INTS, a.STRING) and not a.ref_attr_name:
                        call_attrs["verif_a0"] = helper.get_attribute_value(a)
                        a2 = onnx.AttributeProto()
                        a2.name = a.name
                        a2.type = a.type
                        a2.ref_attr_name = "verif_a0"
                        a.CopyFrom(a2)
                        ref_done = True
                        break
            body.append(n2)
        out_names = [o.name for o in g.output]
        # a function output must be produced inside the function
        fouts = []
        for o in out_names:
            if o in names:
                body.append(helper.make_node("Identity", [o], ["f_id_" + o]))
                fouts.append("f_id_" + o)
            else:
                fouts.append(o)
        imports = list(m.opset_import)
        fn = helper.make_function(dom, "VerifLifted", names, fouts, body, opset_imports=imports, attributes=list(call_attrs))
        call = helper.make_node("VerifLifted", names, ["call_" + o for o in out_names], domain=dom, name="verif_call", **call_attrs)
        outs = []
        for o in g.output:
            v = onnx.ValueInfoProto()
            v.CopyFrom(o)
            v.name = "call_" + o.name
            outs.append(v)
        g2 = helper.make_graph([call], g.name + "_call", [v for v in g.input if v.name in names], outs, [])
        m2.graph.CopyFrom(g2)
        m2.opset_import.append(helper.make_opsetid(dom, 1))
        m2.functions.append(fn)
        return m2, [plain_feed], [True]
    raise ValueError(mode)


def replay_library(arg):
    """arg = (rel path, lift modes, variant names, want_abstract, tolerance).  Observations per (mode, variant)."""
    import onnx

    rel, modes, vnames, want_abs = arg
    out = {"rel": rel, "skip": None, "runs": []}
    try:
        m, gin, ins, rec = load_library(rel)
    except Exception as e:  # noqa: BLE001
        out["skip"] = f"load: {type(e).__name__}: {str(e)[:100]}"
        return out
    if any(n.op_type in NONDET_OPS for n in m.graph.node) or any(n.op_type in NONDET_OPS for f in m.functions for n in f.node):
        out["skip"] = "non-deterministic operator"
        return out
    RT, AT = 1e-3, 1e-5
    for mode in modes:
        r = {"mode": mode, "skip": None, "variants": []}
        out["runs"].append(r)
        try:
            lm, feeds, rec_ok = lift(m, gin, ins, mode, rec)
            onnx.checker.check_model(lm)
            sess0 = core.ort_session(lm)
            orig = [sess0.run(None, f) for f in feeds]
            again = sess0.run(None, feeds[0])
            if not same_outputs(orig[0], again, RT, AT):
                raise ValueError("original is not deterministic")
        except Exception as e:  # noqa: BLE001
            r["skip"] = f"{type(e).__name__}: {str(e)[:120]}"
            continue
        r["ort_vs_recorded"] = bool(same_outputs(orig[0], rec, RT, AT)) if rec_ok[0] else None
        r["feats"] = lib_features(lm)
        if want_abs:
            r["abs0"] = core.abstract_model(f"{rel}/{mode}/orig", lm)
        sig0 = signature(lm)
        for vn in vnames:
            v = {"name": vn, "exc": None, "site": "", "check": None, "sig": [], "fail": [], "abs": None, "nodes": None}
            r["variants"].append(v)
            m1 = onnx.ModelProto()
            m1.CopyFrom(lm)
            _traces_begin()
            try:
                m2 = apply_variant(vn, m1)
            except Exception as e:  # noqa: BLE001
                v["exc"] = exc_text(e)
                v["site"] = exc_site(e)
                _traces_take(v, raised=True)
                continue
            _traces_take(v)
            try:
                onnx.checker.check_model(m2)
            except Exception as e:  # noqa: BLE001
                v["check"] = str(e)[:300]
            v["sig"] = sig_diff(sig0, signature(m2))
            v["nodes"] = (len(lm.graph.node), len(m2.graph.node))
            if want_abs:
                v["abs"] = core.abstract_model(f"{rel}/{mode}/{vn}", m2)
                v["ssa_scoped"] = scoped_ssa_ok(m2)
            try:
                sess = core.ort_session(m2)
            except Exception as e:  # noqa: BLE001
                v["fail"].append((-1, "load", str(e)[:300]))
                continue
            for k, f in enumerate(feeds):
                try:
                    got = sess.run(None, f)
                except Exception as e:  # noqa: BLE001
                    v["fail"].append((k, "run", str(e)[:200]))
                    continue
                if same_outputs(orig[k], got, RT, AT):
                    continue
                if rec_ok[k] and same_outputs(got, rec, RT, AT):
                    v.setdefault("ort_disagrees", 0)
                    v["ort_disagrees"] += 1       # the optimized model returns the recorded (ONNX-defined) outputs: the runtime differs
                    continue
                v["fail"].append((k, "value", f"original {brief(orig[k])} optimized {brief(got)}" + (f" recorded {brief(rec)}" if rec_ok[k] else "")))
    return out


# ------------------------------------------------------------------------------------------------
# shared drivers for C03 / C04
# ------------------------------------------------------------------------------------------------
def quiet():
    import logging
    import warnings

    logging.disable(logging.ERROR)
    warnings.filterwarnings("ignore")


def _replay_case_q(arg):
    quiet()
    return replay_case(arg)


def _replay_library_q(arg):
    quiet()
    return replay_library(arg)


def select_cases(ctx, cases, n_quick):
    """quick: every case whose implementation-model run takes a deviation or raises (bounded), every case with If / overridable
    input / symbolic world (bounded), then a seeded sample of the rest; thorough: all"""
    import random

    rng = random.Random(ctx.seed)
    if not ctx.quick:
        # everything except the depth-3 enumeration, of which a seeded sample (deviating cases first) is replayed
        deep = [c for c in cases if c["src"] == "exhaustive3"]
        rest = [c for c in cases if c["src"] != "exhaustive3"]
        dev = [c for c in deep if c["used"] or c["raised"]]
        plain = [c for c in deep if not (c["used"] or c["raised"])]
        rng.shuffle(dev)
        rng.shuffle(plain)
        return rest + dev[:1500] + plain[:4500]
    dev = [c for c in cases if c["used"] or c["raised"]]
    rest = [c for c in cases if not (c["used"] or c["raised"])]
    rich = [c for c in rest if c["src"] == "simulate"]
    slim = [c for c in rest if c["src"] != "simulate"]
    for l in (dev, rich, slim):
        rng.shuffle(l)

    def spread(cs, n):
        """round-robin over (world, op types of the model) so that every combination the spec derived is replayed"""
        groups = {}
        for c in cs:
            main = set(c["model"]["main"])
            key = (c["world"],) + tuple(nd["op"] for nd in c["model"]["nodes"] if nd["outs"][0] in main)
            groups.setdefault(key, []).append(c)
        out = []
        keys = sorted(groups)
        rng.shuffle(keys)
        while len(out) < n and keys:
            keys = [k for k in keys if groups[k]]
            for k in keys:
                out.append(groups[k].pop())
                if len(out) >= n:
                    break
        return out

    return spread(dev, n_quick // 4) + spread(rich, n_quick // 4) + spread(slim, n_quick // 2)


def variants_for(ctx, idx):
    """the default optimize() always (its structure is predicted by the spec); plus three (quick) / six (thorough) more entry
    points / option tuples in rotation"""
    others = VARIANTS[1:]
    k = (idx + ctx.seed) % len(others)
    n = 3 if ctx.quick else 6
    step = 4 if ctx.quick else 2
    return ["optimize"] + sorted({others[(k + j * step) % len(others)] for j in range(n)})


def direction_a(ctx, want_abs):
    """TLC cases -> real code.  Returns [(case, observations)]"""
    cases = tlc_cases(ctx)
    chosen = select_cases(ctx, cases, 2600)
    args = [(i, c, variants_for(ctx, i), want_abs) for i, c in enumerate(chosen)]
    res = core.pmap_safe(_replay_case_q, args, timeout=120)
    return list(zip(chosen, res))


def library_plan(ctx):
    import random

    rels = library_models()
    rng = random.Random(ctx.seed + 7)
    if ctx.quick:
        rels = rng.sample(rels, min(len(rels), 450))
    plan = []
    for i, rel in enumerate(rels):
        if ctx.quick:
            modes = ["plain"] + [LIFTS[1 + (i + j * 2) % (len(LIFTS) - 1)] for j in range(2)]
            vn = ["optimize", LIB_VARIANTS[1 + i % (len(LIB_VARIANTS) - 1)]]
        else:
            modes = list(LIFTS)
            vn = list(LIB_VARIANTS)
        plan.append((rel, modes, vn))
    return plan


def direction_lib(ctx, want_abs):
    plan = library_plan(ctx)
    res = core.pmap_safe(_replay_library_q, [(rel, modes, vn, want_abs) for rel, modes, vn in plan], timeout=300)
    return list(zip(plan, res))


def lib_features(lm):
    """features of a lifted ORIGINAL model that the guards of the known findings refer to"""
    ops = {n.op_type for n in lm.graph.node} | {n.op_type for f in lm.functions for n in f.node}

    def sub_ops(g):
        for n in g.node:
            for a in n.attribute:
                if a.type == a.GRAPH:
                    ops.add("*graph")
                    for n2 in a.g.node:
                        ops.add(n2.op_type)
                    sub_ops(a.g)

    sub_ops(lm.graph)
    allnodes = list(lm.graph.node) + [n for f in lm.functions for n in f.node]
    for n in lm.graph.node:
        for a in n.attribute:
            if a.type == a.GRAPH:
                allnodes += list(a.g.node)
    return {
        "ir_version": lm.ir_version,
        "opset": next((o.version for o in lm.opset_import if o.domain in ("", "ai.onnx")), 0),
        "seq_ops": bool(ops & {"SplitToSequence", "ConcatFromSequence", "SequenceAt", "SequenceConstruct"}),
        "castlike_nosat": any(n.op_type == "CastLike" and any(a.name == "saturate" and a.i == 0 for a in n.attribute) for n in allnodes),
        "func_ref": any(a.ref_attr_name for f in lm.functions for n in f.node for a in n.attribute),
        "func_ref_cast": any(n.op_type == "Cast" and any(a.name == "to" and a.ref_attr_name for a in n.attribute) for f in lm.functions for n in f.node),
    }


NOT_INLINING = {"rewrite", "rewrite_pass_ir", "optimize_noinline", "fold_constants", "fold_constants_ir_inf_shouldfold", "remove_unused_nodes"}


def lib_attribute(rel, mode, v, symptom, detail, feats=None):
    """known findings on lifted library models are identified by a guard over the lifted original (features, lifting) and the symptom"""
    feats = feats or {}
    detail = str(detail)
    if symptom == "raise":
        if "split_to_sequence" in v["site"] and "'NoneType' object has no attribute 'ndim'" in detail:
            return "split_to_sequence_scalar_split_raise"
        if feats.get("func_ref") and "ref_attr_name=" in detail and v["name"] in NOT_INLINING:
            return "rule_ref_attr_raise"
        return None
    if symptom in ("check", "load") and feats.get("seq_ops") and 0 < feats.get("opset", 99) < 13 and ("has input size" in detail or "invalid model" in detail):
        return "sequence_pe_opset13_forms"
    if symptom == "check" and feats.get("ir_version", 99) < 4 and "in initializer but not in graph input" in detail:
        return "lift_constants_ir3"
    if symptom == "value" and feats.get("castlike_nosat"):
        return "castlike_drops_saturate"
    if symptom in ("load", "value", "run") and mode == "func" and feats.get("func_ref_cast") and v["name"] in NOT_INLINING:
        return "cast_identity_ref_attr"
    if mode == "ovr":
        if symptom == "sig" and "lost their default" in detail:
            return "overridable_default_dropped"
        if symptom == "run" and "Required inputs" in detail:
            return "overridable_default_dropped"
        if symptom in ("value", "run"):
            return "overridable_read_as_const"
    return None


# ------------------------------------------------------------------------------------------------
# parameterised families for default rules / rewrite() uses outside the TLA+ menu (float valued, judged before/after only)
#   bn_*      : BatchNormalization(Conv | ConvTranspose | Gemm) with initializer parameters, explicit non-default epsilon and small
#               variances (FuseBatchNormInto*), in the main graph and inside an If branch
#   newdom_*  : rewrite(model, rule set whose replacement uses a NEW operator domain) where the matches lie only inside nested
#               graphs (If branches, Loop body, If in If), in the main graph, or in both
# ------------------------------------------------------------------------------------------------
FAMILY_VARIANTS_BN = ["optimize", "optimize_ir_i1_noinf", "rewrite", "rewrite_pass_ir", "optimize_i3_nostop_in0", "optimize_noinline"]
FAMILY_VARIANTS_NEWDOM = ["rewrite_bias_gelu", "rewrite_custom_domain", "optimize", "rewrite"]


def _custom_domain_rules():
    from onnxscript.rewriter import pattern

    def pat(op, x):
        return op.Neg(op.Neg(x))

    def rep(op, x, **_):
        return op.VerifTwiceNeg(x, _domain="verif.custom")

    return [pattern.RewriteRule(pat, rep)]


def _two_node_rules():
    """Neg(Neg(x)) -> Identity(Identity(x)): a replacement with an intermediate value that the tape has to name"""
    from onnxscript.rewriter import pattern

    def pat(op, x):
        return op.Neg(op.Neg(x))

    def rep(op, x, **_):
        return op.Identity(op.Identity(x))

    return [pattern.RewriteRule(pat, rep)]


def _apply_family_variant(name, m):
    from onnxscript import rewriter

    if name == "rewrite_two_node":
        return rewriter.rewrite(m, _two_node_rules())

    if name == "rewrite_bias_gelu":
        from onnxscript.rewriter.ort_fusions.bias_gelu import bias_gelu_rules

        return rewriter.rewrite(m, bias_gelu_rules)
    if name == "rewrite_custom_domain":
        return rewriter.rewrite(m, _custom_domain_rules())
    if name.startswith("after_primer:"):
        # history: another model (the same operators at ANOTHER opset version, where their attributes / inputs differ) goes
        # through the same entry point first, in this process; the result for m must be what it is without that history
        import onnx

        inner = name.split(":", 1)[1]
        primer = axes_model(int(m.graph.name.rsplit("_", 1)[1]), "primer")     # graph name: axes_<opset>_after_<primer opset>
        apply_variant(inner, primer)
        return apply_variant(inner, m)
    return apply_variant(name, m)


def axes_model(ops_v, gname):
    import onnx
    from onnx import TensorProto as T
    from onnx import helper as h
    from onnx import numpy_helper as nh

    attr_form = ops_v < 13
    cst = nh.from_array(np.arange(6, dtype=np.float32).reshape(1, 3, 2, 1) - 2.0, "k")
    inits = [cst]
    nodes = []
    if attr_form:
        nodes.append(h.make_node("Squeeze", ["k"], ["ks"], axes=[0]))                      # (3, 2, 1)
        nodes.append(h.make_node("ReduceSum", ["ks"], ["kr"], axes=[1], keepdims=0))       # (3, 1)
        nodes.append(h.make_node("Unsqueeze", ["kr"], ["ku"], axes=[0]))                   # (1, 3, 1)
    else:
        inits += [nh.from_array(np.array([0], np.int64), "ax0"), nh.from_array(np.array([1], np.int64), "ax1")]
        nodes.append(h.make_node("Squeeze", ["k", "ax0"], ["ks"]))
        nodes.append(h.make_node("ReduceSum", ["ks", "ax1"], ["kr"], keepdims=0))
        nodes.append(h.make_node("Unsqueeze", ["kr", "ax0"], ["ku"]))
    nodes.append(h.make_node("Add", ["x", "ku"], ["z"]))                                   # x: (2, 3, 1) + (1, 3, 1)
    g = h.make_graph(nodes, gname, [h.make_tensor_value_info("x", T.FLOAT, [2, 3, 1])], [h.make_tensor_value_info("z", T.FLOAT, [2, 3, 1])], inits)
    m = h.make_model(g, opset_imports=[h.make_opsetid("", ops_v)])
    m.ir_version = 7 if ops_v < 13 else 8
    return m




def _wrap_if(nodes, inits, out_vi, cond_name, where, other_nodes, prefix):
    """If(cond) whose `where` branch holds `nodes` (owning `inits`) and whose other branch holds `other_nodes`"""
    import onnx
    from onnx import helper

    def vi(name):
        v = onnx.ValueInfoProto()
        v.CopyFrom(out_vi)
        v.name = name
        return v

    a = helper.make_graph(nodes, prefix + "a", [], [vi(nodes[-1].output[0])], inits)
    b = helper.make_graph(other_nodes, prefix + "b", [], [vi(other_nodes[-1].output[0])], [])
    tb, eb = (a, b) if where == "then" else (b, a)
    return helper.make_node("If", [cond_name], [out_vi.name], then_branch=tb, else_branch=eb, name=prefix + "if")


def family_models(ctx):
    """-> list of (name, model bytes, feeds, variants, runnable_after)"""
    import random

    import onnx
    from onnx import TensorProto as T
    from onnx import helper as h
    from onnx import numpy_helper as nh

    rng = random.Random(ctx.seed + 13)
    nprng = np.random.default_rng(ctx.seed + 13)
    out = []

    def f32(*shape, lo=-1.0, hi=1.0):
        return nprng.uniform(lo, hi, size=shape).astype(np.float32)

    # ---- BatchNormalization after Conv / ConvTranspose / Gemm
    eps_menu = [None, 1e-3, 0.1] if ctx.quick else [None, 1e-5, 1e-3, 1e-2, 0.1]
    for inbound in ("Conv", "ConvTranspose", "Gemm"):
        for eps in eps_menu:
            for bias in (True, False):
                for place in ("main", "then"):
                    if ctx.quick and place == "then" and not bias:
                        continue
                    c_in, c_out = 2, 3
                    if inbound == "Gemm":
                        xs, ws = [2, 4], [4, c_out]
                        nin = h.make_node("Gemm", ["x", "W"] + (["B"] if bias else []), ["t"], name="inb")
                    elif inbound == "Conv":
                        xs, ws = [1, c_in, 4, 4], [c_out, c_in, 3, 3]
                        nin = h.make_node("Conv", ["x", "W"] + (["B"] if bias else []), ["t"], name="inb")
                    else:
                        xs, ws = [1, c_in, 3, 3], [c_in, c_out, 2, 2]
                        nin = h.make_node("ConvTranspose", ["x", "W"] + (["B"] if bias else []), ["t"], name="inb")
                    attrs = {} if eps is None else {"epsilon": eps}
                    nbn = h.make_node("BatchNormalization", ["t", "gamma", "beta", "mean", "var"], ["y_in" if place != "main" else "y"], name="bn", **attrs)
                    inits = [nh.from_array(f32(*ws), "W"), nh.from_array(f32(c_out, lo=0.5, hi=2.0), "gamma"), nh.from_array(f32(c_out), "beta"),
                             nh.from_array(f32(c_out), "mean"), nh.from_array(f32(c_out, lo=0.01, hi=0.05), "var")]
                    if bias:
                        inits.append(nh.from_array(f32(c_out), "B"))
                    rank = 2 if inbound == "Gemm" else 4
                    yvi = h.make_tensor_value_info("y", T.FLOAT, [None] * rank)
                    inputs = [h.make_tensor_value_info("x", T.FLOAT, xs)]
                    if place == "main":
                        g = h.make_graph([nin, nbn], "bn", inputs, [yvi], inits)
                        feeds = [{"x": f32(*xs, lo=-2, hi=2)}, {"x": np.zeros(xs, np.float32)}, {"x": f32(*xs, lo=-100, hi=100)}]
                    else:
                        other = [h.make_node("Identity", ["zero"], ["y_other"])]
                        oshape = [2, c_out] if inbound == "Gemm" else ([1, c_out, 2, 2] if inbound == "Conv" else [1, c_out, 4, 4])
                        ifn = _wrap_if([nin, nbn], inits, yvi, "cond", "then", other, "bn_")
                        inputs.append(h.make_tensor_value_info("cond", T.BOOL, []))
                        g = h.make_graph([ifn], "bn_if", inputs, [yvi], [nh.from_array(np.zeros(oshape, np.float32), "zero")])
                        feeds = [{"x": f32(*xs, lo=-2, hi=2), "cond": np.array(True)}, {"x": f32(*xs, lo=-2, hi=2), "cond": np.array(False)},
                                 {"x": f32(*xs, lo=-100, hi=100), "cond": np.array(True)}]
                    m = h.make_model(g, opset_imports=[h.make_opsetid("", 18)])
                    m.ir_version = 9
                    out.append((f"bn_{inbound}_eps{eps}_bias{int(bias)}_{place}", m.SerializeToString(), feeds, FAMILY_VARIANTS_BN, True))

    # ---- rewrite with a rule set that introduces a new domain; matches in nested graphs
    xs = [2, 4]
    xvi = h.make_tensor_value_info("x", T.FLOAT, xs)
    bvi = h.make_tensor_value_info("bias", T.FLOAT, [4])
    cvi = h.make_tensor_value_info("cond", T.BOOL, [])
    zvi = h.make_tensor_value_info("z", T.FLOAT, xs)

    def gelu(p):
        return [h.make_node("Add", ["x", "bias"], [p + "s"]), h.make_node("Gelu", [p + "s"], [p + "g"])]

    def negneg(p):
        return [h.make_node("Neg", ["x"], [p + "n1"]), h.make_node("Neg", [p + "n1"], [p + "n2"])]

    def plain(p):
        return [h.make_node("Abs", ["x"], [p + "a"])]

    def feeds3():
        return [{"x": f32(*xs, lo=-3, hi=3), "bias": f32(4), "cond": np.array(c)} for c in (True, False, True)]

    for body_name, body in (("gelu", gelu), ("negneg", negneg)):
        for where in ("then", "else", "both", "main", "main_and_then", "if_in_if", "loop"):
            if where in ("then", "else"):
                nodes = [_wrap_if(body("a_"), [], zvi, "cond", where, plain("b_"), "w_")]
            elif where == "both":
                tb = h.make_graph(body("a_"), "t", [], [h.make_tensor_value_info(body("a_")[-1].output[0], T.FLOAT, xs)])
                eb = h.make_graph(body("b_"), "e", [], [h.make_tensor_value_info(body("b_")[-1].output[0], T.FLOAT, xs)])
                nodes = [h.make_node("If", ["cond"], ["z"], then_branch=tb, else_branch=eb)]
            elif where == "main":
                b = body("m_")
                nodes = b + [h.make_node("Identity", [b[-1].output[0]], ["z"])]
            elif where == "main_and_then":
                b = body("m_")
                zi = h.make_tensor_value_info("zi", T.FLOAT, xs)
                nodes = b + [_wrap_if(body("a_"), [], zi, "cond", "then", plain("b_"), "w_"), h.make_node("Add", [b[-1].output[0], "zi"], ["z"])]
            elif where == "if_in_if":
                zi = h.make_tensor_value_info("zi", T.FLOAT, xs)
                inner = _wrap_if(body("a_"), [], zi, "cond", "else", plain("b_"), "v_")
                tb = h.make_graph([inner, h.make_node("Identity", ["zi"], ["zo"])], "outer_t", [], [h.make_tensor_value_info("zo", T.FLOAT, xs)])
                eb = h.make_graph(plain("c_"), "outer_e", [], [h.make_tensor_value_info("c_a", T.FLOAT, xs)])
                nodes = [h.make_node("If", ["cond"], ["z"], then_branch=tb, else_branch=eb)]
            else:  # Loop with one iteration whose body holds the pattern
                b = body("l_")
                lb = h.make_graph(b + [h.make_node("Identity", ["lc"], ["lco"])], "body",
                                  [h.make_tensor_value_info("li", T.INT64, []), h.make_tensor_value_info("lc", T.BOOL, []), h.make_tensor_value_info("ls", T.FLOAT, xs)],
                                  [h.make_tensor_value_info("lco", T.BOOL, []), h.make_tensor_value_info(b[-1].output[0], T.FLOAT, xs)])
                nodes = [h.make_node("Loop", ["trip", "ctrue", "x"], ["z"], body=lb)]
            inits = [nh.from_array(np.array(1, np.int64), "trip"), nh.from_array(np.array(True), "ctrue")] if where == "loop" else []
            g = h.make_graph(nodes, f"nd_{where}", [xvi, bvi, cvi], [zvi], inits)
            m = h.make_model(g, opset_imports=[h.make_opsetid("", 20)])
            m.ir_version = 9
            variants = ["rewrite_bias_gelu" if body_name == "gelu" else "rewrite_custom_domain", "optimize", "rewrite"]
            # the custom-domain operator has no kernel: its result is judged structurally only
            out.append((f"newdom_{body_name}_{where}", m.SerializeToString(), feeds3(), variants, body_name == "gelu"))
    # ---- consecutive Transposes of rank 3 / 4 whose permutations do not commute (TransposeTranspose composes them)
    perms3 = [[0, 1, 2], [0, 2, 1], [1, 0, 2], [1, 2, 0], [2, 0, 1], [2, 1, 0]]
    pairs = [(p, q) for p in perms3 for q in perms3 if p != perms3[0] and q != perms3[0]]
    if ctx.quick:
        pairs = [([1, 0, 2], [0, 2, 1]), ([0, 2, 1], [1, 0, 2]), ([1, 2, 0], [1, 0, 2]), ([2, 0, 1], [2, 0, 1]), ([1, 2, 0], [2, 0, 1]), ([2, 1, 0], [1, 2, 0])]
    pairs = [(p, q, [2, 3, 4]) for p, q in pairs] + [([1, 0, 3, 2], [0, 2, 1, 3], [2, 3, 4, 5]), ([3, 0, 1, 2], [1, 0, 2, 3], [2, 3, 4, 5])]
    for p1, p2, shp in pairs:
        for dt, npdt in ((T.FLOAT, np.float32), (T.INT64, np.int64)):
            if ctx.quick and dt == T.INT64 and len(shp) == 3 and p1 != [1, 0, 2]:
                continue
            nodes = [h.make_node("Transpose", ["x"], ["t1"], perm=p1), h.make_node("Transpose", ["t1"], ["t2"], perm=p2), h.make_node("Abs", ["t2"], ["z"])]
            g = h.make_graph(nodes, "tt", [h.make_tensor_value_info("x", dt, shp)], [h.make_tensor_value_info("z", dt, [None] * len(shp))])
            m = h.make_model(g, opset_imports=[h.make_opsetid("", 18)])
            m.ir_version = 9
            n = int(np.prod(shp))
            fd = [{"x": np.arange(n).reshape(shp).astype(npdt)}, {"x": (np.arange(n)[::-1] - 7).reshape(shp).astype(npdt)}]
            out.append((f"transpose_pair_{''.join(map(str, p1))}_{''.join(map(str, p2))}_{'f' if dt == T.FLOAT else 'i'}", m.SerializeToString(), fd,
                        ["optimize", "rewrite", "optimize_ir_i1_noinf"], True))

    # ---- an If with a constant condition whose taken branch returns one of its OWN initializers directly
    #      (also: after a first optimize() folded the branch body while the condition was still dynamic)
    for cond_kind in ("const_node", "initializer"):
        for taken in ("then", "else"):
            wvi = h.make_tensor_value_info("w", T.FLOAT, [3])
            own = h.make_graph([], "own", [], [wvi], [nh.from_array(np.array([1.5, -2.0, 4.0], np.float32), "w")])
            oth = h.make_graph([h.make_node("Neg", ["x"], ["nx"])], "oth", [], [h.make_tensor_value_info("nx", T.FLOAT, [3])])
            tb, eb = (own, oth) if taken == "then" else (oth, own)
            cval = np.array(taken == "then")
            pre, inits = [], []
            if cond_kind == "const_node":
                pre = [h.make_node("Constant", [], ["c"], value=nh.from_array(cval, "c"))]
            else:
                inits = [nh.from_array(cval, "c")]
            nodes = pre + [h.make_node("If", ["c"], ["r"], then_branch=tb, else_branch=eb), h.make_node("Add", ["r", "x"], ["z"])]
            g = h.make_graph(nodes, "ifown", [h.make_tensor_value_info("x", T.FLOAT, [3])], [h.make_tensor_value_info("z", T.FLOAT, [3])], inits)
            m = h.make_model(g, opset_imports=[h.make_opsetid("", 18)])
            m.ir_version = 9
            fd = [{"x": f32(3)}, {"x": np.zeros(3, np.float32)}]
            out.append((f"if_branch_returns_own_initializer_{cond_kind}_{taken}", m.SerializeToString(), fd,
                        ["optimize", "fold_constants", "optimize_ir_i1_noinf", "fold_constants_ir_inf_shouldfold"], True))

    # ---- an overridable initializer-input (default the caller may override) read INSIDE a nested graph by a node
    #      whose other operands are constants: it must not be folded, with and without an override value
    for where in ("then", "else", "loop", "if_in_if"):
        two = nh.from_array(np.array([2.0, 2.0, 2.0], np.float32), "two")
        body = [h.make_node("Mul", ["w", "two"], ["w2"]), h.make_node("Add", ["w2", "x"], ["zi"])]
        zi = h.make_tensor_value_info("zi", T.FLOAT, [3])
        ins = [h.make_tensor_value_info("x", T.FLOAT, [3]), h.make_tensor_value_info("cond", T.BOOL, []), h.make_tensor_value_info("w", T.FLOAT, [3])]
        winit = nh.from_array(np.array([1.0, 2.0, 3.0], np.float32), "w")
        if where in ("then", "else"):
            nodes = [_wrap_if(body, [two], h.make_tensor_value_info("z", T.FLOAT, [3]), "cond", where, [h.make_node("Neg", ["x"], ["nx"])], "ov_")]
            ginits = [winit]
        elif where == "if_in_if":
            inner = _wrap_if(body, [two], zi, "cond", "then", [h.make_node("Neg", ["x"], ["nx"])], "ovi_")
            tb = h.make_graph([inner, h.make_node("Identity", ["zi"], ["zo"])], "outer_t", [], [h.make_tensor_value_info("zo", T.FLOAT, [3])])
            eb = h.make_graph([h.make_node("Abs", ["x"], ["ax"])], "outer_e", [], [h.make_tensor_value_info("ax", T.FLOAT, [3])])
            nodes = [h.make_node("If", ["cond"], ["z"], then_branch=tb, else_branch=eb)]
            ginits = [winit]
        else:
            lb = h.make_graph([h.make_node("Mul", ["w", "two"], ["w2"]), h.make_node("Add", ["w2", "ls"], ["lso"]), h.make_node("Identity", ["lc"], ["lco"])], "body",
                              [h.make_tensor_value_info("li", T.INT64, []), h.make_tensor_value_info("lc", T.BOOL, []), h.make_tensor_value_info("ls", T.FLOAT, [3])],
                              [h.make_tensor_value_info("lco", T.BOOL, []), h.make_tensor_value_info("lso", T.FLOAT, [3])], [two])
            nodes = [h.make_node("Loop", ["trip", "cond", "x"], ["z"], body=lb)]
            ginits = [winit, nh.from_array(np.array(2, np.int64), "trip")]
        g = h.make_graph(nodes, f"ovr_{where}", ins, [h.make_tensor_value_info("z", T.FLOAT, [3])], ginits)
        m = h.make_model(g, opset_imports=[h.make_opsetid("", 18)])
        m.ir_version = 9
        ovr = np.array([10.0, -20.0, 0.5], np.float32)
        fd = [{"x": f32(3), "cond": np.array(True)}, {"x": f32(3), "cond": np.array(True), "w": ovr}, {"x": f32(3), "cond": np.array(False), "w": ovr}]
        out.append((f"overridable_input_read_in_{where}", m.SerializeToString(), fd,
                    ["optimize", "fold_constants", "fold_constants_ir_inf_shouldfold", "optimize_i3_nostop_in0"], True))

    # ---- every rule application happens inside nested graphs, the replacement has an intermediate value, and the
    #      enclosing graph already uses the names a fresh tape would generate (val_0, val_1): names must stay unique
    for where in ("then", "both", "loop"):
        def mm(p, src):   # MatMul(x, A) + B  ->  Gemm ; Reshape(Reshape) -> two-node replacements exist in the default set too
            return [h.make_node("Transpose", [src], [p + "t1"], perm=[1, 0]), h.make_node("Transpose", [p + "t1"], [p + "t2"], perm=[1, 0]),
                    h.make_node("Neg", [p + "t2"], [p + "n1"]), h.make_node("Neg", [p + "n1"], [p + "n2"])]
        xvi2 = h.make_tensor_value_info("x", T.FLOAT, [2, 3])
        pre = [h.make_node("Abs", ["x"], ["val_0"]), h.make_node("Relu", ["val_0"], ["val_1"])]
        z2 = h.make_tensor_value_info("z", T.FLOAT, [2, 3])
        if where == "then":
            nodes = pre + [_wrap_if(mm("a_", "val_1"), [], z2, "cond", "then", [h.make_node("Abs", ["val_0"], ["b_a"])], "nf_")]
        elif where == "both":
            a, b = mm("a_", "val_1"), mm("b_", "val_0")
            tb = h.make_graph(a, "t", [], [h.make_tensor_value_info(a[-1].output[0], T.FLOAT, [2, 3])])
            eb = h.make_graph(b, "e", [], [h.make_tensor_value_info(b[-1].output[0], T.FLOAT, [2, 3])])
            nodes = pre + [h.make_node("If", ["cond"], ["z"], then_branch=tb, else_branch=eb)]
        else:
            b = mm("l_", "ls")
            lb = h.make_graph(b + [h.make_node("Identity", ["lc"], ["lco"])], "body",
                              [h.make_tensor_value_info("li", T.INT64, []), h.make_tensor_value_info("lc", T.BOOL, []), h.make_tensor_value_info("ls", T.FLOAT, [2, 3])],
                              [h.make_tensor_value_info("lco", T.BOOL, []), h.make_tensor_value_info(b[-1].output[0], T.FLOAT, [2, 3])])
            nodes = pre + [h.make_node("Loop", ["trip", "ctrue", "val_1"], ["z"], body=lb)]
        inits = [nh.from_array(np.array(2, np.int64), "trip"), nh.from_array(np.array(True), "ctrue")] if where == "loop" else []
        g = h.make_graph(nodes, f"nest_{where}", [xvi2, h.make_tensor_value_info("cond", T.BOOL, [])], [z2], inits)
        m = h.make_model(g, opset_imports=[h.make_opsetid("", 20)])
        m.ir_version = 9
        fd = [{"x": f32(2, 3, lo=-3, hi=3), "cond": np.array(c)} for c in (True, False)]
        out.append((f"rewrites_only_in_nested_{where}", m.SerializeToString(), fd, ["rewrite", "rewrite_pass_ir", "rewrite_two_node", "optimize"], True))
    # ---- attribute-form operators of OLD opsets (the default rules dropout_zero / dropout_inference only match them there): a
    #      Dropout whose mask output is still read by a node, returned, or read inside a branch must survive; an unused mask may go
    for ops_v in (7, 10, 11):
        for use in ("node", "output", "branch", "unused"):
            for ratio in (0.0, None, 0.5):
                kw = {} if ratio is None else {"ratio": ratio}
                nodes = [h.make_node("Relu", ["x"], ["r"]), h.make_node("Dropout", ["r"], ["d", "mask"] if use != "unused" else ["d"], **kw)]
                outs = [h.make_tensor_value_info("z", T.FLOAT, [2, 3])]
                if use == "node":
                    nodes += [h.make_node("Cast", ["mask"], ["mf"], to=T.FLOAT), h.make_node("Add", ["d", "mf"], ["z"])]
                elif use == "output":
                    nodes += [h.make_node("Neg", ["d"], ["z"])]
                    outs.append(h.make_tensor_value_info("mask", T.BOOL if ops_v >= 10 else T.FLOAT, [2, 3]))   # Dropout-7: the mask has the data type
                elif use == "branch":
                    tb = h.make_graph([h.make_node("Cast", ["mask"], ["tmf"], to=T.FLOAT), h.make_node("Add", ["d", "tmf"], ["tz"])], "tb", [],
                                      [h.make_tensor_value_info("tz", T.FLOAT, [2, 3])])
                    eb = h.make_graph([h.make_node("Neg", ["d"], ["ez"])], "eb", [], [h.make_tensor_value_info("ez", T.FLOAT, [2, 3])])
                    nodes += [h.make_node("If", ["cond"], ["z"], then_branch=tb, else_branch=eb)]
                else:
                    nodes += [h.make_node("Neg", ["d"], ["z"])]
                gin = [h.make_tensor_value_info("x", T.FLOAT, [2, 3])] + ([h.make_tensor_value_info("cond", T.BOOL, [])] if use == "branch" else [])
                g = h.make_graph(nodes, "olddrop", gin, outs)
                m = h.make_model(g, opset_imports=[h.make_opsetid("", ops_v)])
                m.ir_version = 6
                fd = [dict({"x": f32(2, 3, lo=-3, hi=3)}, **({"cond": np.array(c)} if use == "branch" else {})) for c in (True, False)]
                out.append((f"old_opset{ops_v}_dropout_ratio{ratio}_mask_{use}", m.SerializeToString(), fd, ["optimize", "rewrite", "optimize_ir_i1_noinf"], True))
    # ---- constant sub-expressions of operators whose attributes became inputs at opset 13 (Squeeze / Unsqueeze / ReduceSum axes), in
    #      the attribute form (opset 11, 12) and the input form (opset 13, 18); each is optimized alone and after a PRIMER model of
    #      the other form went through the same entry point in the same process (the folder's evaluators are per opset version)
    for ops_v, primer_v in ((11, 13), (12, 18), (13, 11), (18, 12), (11, 12)):
        gname = f"axes_{ops_v}_after_{primer_v}"
        m = axes_model(ops_v, gname)
        fd = [{"x": f32(2, 3, 1, lo=-3, hi=3)}]
        out.append((f"fold_axes_opset{ops_v}_primer{primer_v}", m.SerializeToString(), fd,
                    ["after_primer:optimize", "after_primer:fold_constants_ir_inf_shouldfold", "optimize", "after_primer:optimize_ir_i1_noinf"], True))
    # ---- UNNAMED dynamic dims (no dim_param, no dim_value) on the data tensor and on the tensor whose Shape is the target: two
    #      unknown dims are not known to be equal, so Reshape(x, Shape(y)) / Expand(x, Shape(y)) must stay
    for opname, xs, ys in (("Reshape", (3, 4), (2, 6)), ("Expand", (1, 4), (3, 4)), ("Reshape", (2, 6), (2, 6))):
        nodes = [h.make_node("Shape", ["y"], ["sy"]), h.make_node(opname, ["x", "sy"], ["r"]), h.make_node("Neg", ["r"], ["z"])]
        g = h.make_graph(nodes, f"unnamed_{opname}", [h.make_tensor_value_info("x", T.FLOAT, [None, None]), h.make_tensor_value_info("y", T.FLOAT, [None, None])],
                         [h.make_tensor_value_info("z", T.FLOAT, [None, None])])
        m = h.make_model(g, opset_imports=[h.make_opsetid("", 18)])
        m.ir_version = 8
        fd = [{"x": f32(*xs, lo=-3, hi=3), "y": f32(*ys, lo=-3, hi=3)}, {"x": f32(*ys, lo=-3, hi=3), "y": f32(*ys, lo=-3, hi=3)}]
        out.append((f"unnamed_dims_{opname}_{xs[0]}x{xs[1]}_to_{ys[0]}x{ys[1]}", m.SerializeToString(), fd,
                    ["optimize", "optimize_ir_i1_noinf", "fold_constants_ir_inf_shouldfold", "fold_constants"], True))
    # ---- models with symbolic dims, judged at several concrete bindings (feeds of different shapes):
    #      ScatterND over a Range built from Shape<start=s>(data) - a full overwrite only when s = 0 and the symbols agree
    for start in (0, 1):
        nodes = [h.make_node("Shape", ["data"], ["shape"], start=start), h.make_node("Constant", [], ["axis"], value_int=0),
                 h.make_node("Gather", ["shape", "axis"], ["n"], axis=0), h.make_node("Constant", [], ["zero"], value_int=0),
                 h.make_node("Constant", [], ["one"], value_int=1), h.make_node("Range", ["zero", "n", "one"], ["rng"]),
                 h.make_node("Constant", [], ["minus1"], value_ints=[-1]), h.make_node("Unsqueeze", ["rng", "minus1"], ["idx"]),
                 h.make_node("ScatterND", ["t", "idx", "updates"], ["out"], reduction="none"), h.make_node("Mul", ["out", "two"], ["z"])]
        first = "A" if start == 0 else "B"
        g = h.make_graph(nodes, "scat", [h.make_tensor_value_info("data", T.FLOAT, ["A", "B"]), h.make_tensor_value_info("t", T.FLOAT, ["A", 4]),
                                         h.make_tensor_value_info("updates", T.FLOAT, [first, 4])],
                         [h.make_tensor_value_info("z", T.FLOAT, ["A", 4])], [nh.from_array(np.array(2.0, np.float32), "two")])
        m = h.make_model(g, opset_imports=[h.make_opsetid("", 18)])
        m.ir_version = 8
        fd = []
        for a_, b_ in ((3, 3), (3, 2), (2, 2), (7, 1), (1, 1)):
            k_ = a_ if start == 0 else b_
            fd.append({"data": f32(a_, b_), "t": f32(a_, 4), "updates": f32(k_, 4)})
        out.append((f"sym_scatter_range_of_shape_start{start}", m.SerializeToString(), fd, ["optimize", "rewrite", "optimize_ir_i1_noinf"], True))
    #      the same idiom where the range comes from ANOTHER tensor than the scatter target (buf[:n] = upd): a full overwrite only when
    #      the two leading dims are the same literal or the same NAME - two unnamed dims are two unknowns (DimEq.tla); bindings n <= k
    for wname, dn, tn in (("same_name", "A", "A"), ("two_names", "A", "K"), ("both_unnamed", None, None), ("data_unnamed", None, "K"),
                          ("target_unnamed", "A", None), ("same_literal", 3, 3), ("two_literals", 2, 3)):
        nodes = [h.make_node("Shape", ["data"], ["shape"], start=0), h.make_node("Constant", [], ["axis"], value_int=0),
                 h.make_node("Gather", ["shape", "axis"], ["n"], axis=0), h.make_node("Constant", [], ["zero"], value_int=0),
                 h.make_node("Constant", [], ["one"], value_int=1), h.make_node("Range", ["zero", "n", "one"], ["rng"]),
                 h.make_node("Constant", [], ["minus1"], value_ints=[-1]), h.make_node("Unsqueeze", ["rng", "minus1"], ["idx"]),
                 h.make_node("ScatterND", ["t", "idx", "data"], ["out"], reduction="none"), h.make_node("Relu", ["out"], ["z"])]
        g = h.make_graph(nodes, "scat2", [h.make_tensor_value_info("data", T.FLOAT, [dn, 4]), h.make_tensor_value_info("t", T.FLOAT, [tn, 4])],
                         [h.make_tensor_value_info("z", T.FLOAT, [tn, 4])])
        m = h.make_model(g, opset_imports=[h.make_opsetid("", 18)])
        m.ir_version = 8
        if isinstance(dn, int):
            pairs = [(dn, tn)] * 2
        elif wname == "same_name":
            pairs = [(0, 0), (1, 1), (3, 3), (7, 7)]
        else:
            pairs = [(0, 1), (1, 1), (2, 3), (3, 3), (1, 7), (0, 0)]
        fd = [{"data": f32(n_, 4, lo=-3, hi=3), "t": f32(k_, 4, lo=-3, hi=3)} for n_, k_ in pairs]
        out.append((f"sym_scatter_prefix_{wname}", m.SerializeToString(), fd, ["optimize", "rewrite", "optimize_ir_i1_noinf"], True))
    #      Reshape with a run-time target whose output is ANNOTATED with a static 0 dim (MaterializeReshapeShape)
    for az in (None, 1):
        kw = {} if az is None else {"allowzero": az}
        nodes = [h.make_node("Reshape", ["x", "target"], ["y"], **kw), h.make_node("ReduceSum", ["y", "axes0"], ["ysum"], keepdims=1),
                 h.make_node("Add", ["ysum", "w"], ["z"])]
        g = h.make_graph(nodes, "rz", [h.make_tensor_value_info("x", T.FLOAT, ["N", 0, 4]), h.make_tensor_value_info("target", T.INT64, [2]),
                                       h.make_tensor_value_info("w", T.FLOAT, ["M", 12])],
                         [h.make_tensor_value_info("z", T.FLOAT, ["M", 12])], [nh.from_array(np.array([0], np.int64), "axes0")],
                         value_info=[h.make_tensor_value_info("y", T.FLOAT, [0, 12])])
        m = h.make_model(g, opset_imports=[h.make_opsetid("", 18)])
        m.ir_version = 8
        tgt = np.array([-1, 12], np.int64) if az is None else np.array([0, 12], np.int64)
        fd = [{"x": np.zeros((n_, 0, 4), np.float32), "target": tgt, "w": f32(m_, 12)} for n_, m_ in ((0, 1), (2, 1), (3, 2), (7, 2))]
        out.append((f"sym_reshape_runtime_target_annotated_zero_az{az}", m.SerializeToString(), fd, ["optimize", "rewrite", "optimize_ir_i1_noinf"], True))
    rng.shuffle(out)
    return out


def replay_family(arg):
    import onnx

    quiet()
    name, data, feeds, vnames, runnable, want_abs = arg
    out = {"name": name, "skip": None, "variants": []}
    m = onnx.ModelProto()
    m.ParseFromString(data)
    RT, AT = 1e-3, 1e-4
    try:
        onnx.checker.check_model(m)
        sess0 = core.ort_session(m)
        orig = [sess0.run(None, f) for f in feeds]
    except Exception as e:  # noqa: BLE001
        out["skip"] = f"{type(e).__name__}: {str(e)[:200]}"
        return out
    if want_abs:
        out["abs0"] = core.abstract_model(f"{name}/orig", m)
    sig0 = signature(m)
    for vn in vnames:
        v = {"name": vn, "exc": None, "site": "", "check": None, "sig": [], "fail": [], "abs": None, "changed": False}
        out["variants"].append(v)
        m1 = onnx.ModelProto()
        m1.CopyFrom(m)
        _traces_begin()
        try:
            m2 = _apply_family_variant(vn, m1)
        except Exception as e:  # noqa: BLE001
            v["exc"] = exc_text(e)
            v["site"] = exc_site(e)
            _traces_take(v, raised=True)
            continue
        # the recorded folder traces, and for C04 the rewriter traces, of this entry point (validated by TLC against
        # FoldApply.tla / RewriteApply.tla)
        _traces_take(v, keep_rewriter=want_abs)
        v["changed"] = op_multiset(m2) != op_multiset(m)
        try:
            onnx.checker.check_model(m2)
        except Exception as e:  # noqa: BLE001
            v["check"] = str(e)[:300]
        v["sig"] = sig_diff(sig0, signature(m2))
        if want_abs:
            v["abs"] = core.abstract_model(f"{name}/{vn}", m2)
            v["ssa_scoped"] = scoped_ssa_ok(m2)
        if not runnable and vn == "rewrite_custom_domain":
            continue
        try:
            sess = core.ort_session(m2)
        except Exception as e:  # noqa: BLE001
            v["fail"].append((-1, "load", str(e)[:300]))
            continue
        for k, f in enumerate(feeds):
            try:
                got = sess.run(None, f)
            except Exception as e:  # noqa: BLE001
                v["fail"].append((k, "run", str(e)[:200]))
                continue
            if not same_outputs(orig[k], got, RT, AT):
                v["fail"].append((k, "value", f"original {brief(orig[k])} optimized {brief(got)}"))
    return out


def direction_family(ctx, want_abs):
    fams = family_models(ctx)
    res = core.pmap_safe(replay_family, [f + (want_abs,) for f in fams], timeout=200)
    return list(zip(fams, res))
