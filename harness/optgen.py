"""Shared by C03/C04: models derived by spec/Optimizer.tla -> real onnx ModelProto -> optimizer entry points -> ORT.

The abstract model (JSON printed by TLC, see Optimizer.tla `Emit`) is
  {"ins":   [{"name", "kind": "in"|"ovr", "dt", "ds": declared dims (>=0 int, -1 "N", -2 "M", -9 unnamed), "val": tensor (default of an
              overridable initializer-input; ERR record otherwise)}],
   "inits": [{"name", "val": tensor}],
   "nodes": [{"op", "ins": [names], "outs": [names], "at": {"to", "perm", "axis", "val"}, "sub": [graph, graph]}],
   "outs":  [names]}
with tensor = {"dt": "f32"|"i64"|"bool", "shape": [..], "data": [ints]} (row-major, integer valued).
"""
from __future__ import annotations

import json
import os

import numpy as np

from . import core

OPSET = 18
NP = {"f32": np.float32, "i64": np.int64, "bool": np.bool_, "i32": np.int32}
SYMDIM = {-11: "N", -12: "M", -13: "K"}
NOAX = -100


def _tp():
    from onnx import TensorProto as T

    return {"f32": T.FLOAT, "i64": T.INT64, "bool": T.BOOL, "i32": T.INT32}


def to_np(t):
    """abstract tensor -> numpy"""
    return np.array(t["data"], dtype=NP[t["dt"]]).reshape([int(d) for d in t["shape"]])


def from_np(a):
    a = np.asarray(a)
    dt = {"float32": "f32", "int64": "i64", "bool": "bool", "int32": "i32"}.get(str(a.dtype))
    if dt is None:
        return {"dt": str(a.dtype), "shape": list(a.shape), "data": a.reshape(-1).tolist()}
    return {"dt": dt, "shape": list(a.shape), "data": [int(x) for x in a.reshape(-1).tolist()]}


def decl_dims(ds):
    return [SYMDIM.get(d, None) if d < 0 else int(d) for d in ds]


def _tensor_proto(name, t):
    from onnx import numpy_helper

    return numpy_helper.from_array(to_np(t), name)


def _graph(g, name, inputs, outputs):
    from onnx import helper as h

    nodes = []
    for k, n in enumerate(g["nodes"]):
        op = n["op"]
        at = n["at"]
        attrs = {}
        if op == "Constant":
            attrs["value"] = _tensor_proto(n["outs"][0], at["val"])
        elif op == "Cast":
            attrs["to"] = _tp()[at["to"]]
        elif op == "Transpose":
            attrs["perm"] = [int(p) for p in at["perm"]]
        elif op in ("Gather", "Concat"):
            if at["axis"] != NOAX:
                attrs["axis"] = int(at["axis"])
        elif op == "If":
            attrs["then_branch"] = _graph(n["sub"][0], f"{name}_then{k}", [], _sub_outs(n["sub"][0], n))
            attrs["else_branch"] = _graph(n["sub"][1], f"{name}_else{k}", [], _sub_outs(n["sub"][1], n))
        nodes.append(h.make_node(op, list(n["ins"]), list(n["outs"]), name=f"{name}_n{k}", **attrs))
    inits = [_tensor_proto(i["name"], i["val"]) for i in g["inits"]]
    return h.make_graph(nodes, name, inputs, outputs, inits)


def _sub_outs(sub, node):
    from onnx import helper as h

    meta = node["at"].get("ometa") or [{"dt": "f32", "rank": 1}] * len(sub["outs"])
    return [h.make_tensor_value_info(o, _tp()[mt["dt"]], [None] * int(mt["rank"])) for o, mt in zip(sub["outs"], meta)]


def build_model(model, outmeta, ir_version=9):
    """abstract model + [{"dt", "rank"}] per graph output -> ModelProto.  Graph inputs carry their declared type; an overridable
    initializer is listed both as graph input and as initializer."""
    import onnx
    from onnx import helper as h

    ins = [h.make_tensor_value_info(i["name"], _tp()[i["dt"]], decl_dims(i["ds"])) for i in model["ins"]]
    byname = {i["name"]: i for i in model["ins"]}
    outs = [h.make_tensor_value_info(o, _tp()[byname[o]["dt"]], decl_dims(byname[o]["ds"])) if o in byname
            else h.make_tensor_value_info(o, _tp()[mt["dt"]], [None] * int(mt["rank"])) for o, mt in zip(model["outs"], outmeta)]
    g = _graph(model, "main", ins, outs)
    for i in model["ins"]:
        if i["kind"] == "ovr":
            g.initializer.append(_tensor_proto(i["name"], i["val"]))
    m = h.make_model(g, opset_imports=[h.make_opsetid("", OPSET)], producer_name="verif-optgen")
    m.ir_version = ir_version
    return m


def describe(m, limit=4000):
    """compact text rendering of a ModelProto (for reports)"""
    import onnx
    from onnx import helper as h
    from onnx import numpy_helper

    lines = []

    def g_(g, ind):
        for i in g.input:
            lines.append(f"{ind}input {i.name}: {h.printable_type(i.type)}")
        for i in g.initializer:
            a = numpy_helper.to_array(i)
            lines.append(f"{ind}init {i.name} {a.dtype}{list(a.shape)} = {a.reshape(-1).tolist()[:8]}")
        for n in g.node:
            at = {}
            for a in n.attribute:
                if a.type == a.GRAPH:
                    continue
                if a.type == a.TENSOR:
                    t = numpy_helper.to_array(a.t)
                    at[a.name] = f"{t.dtype}{list(t.shape)}{t.reshape(-1).tolist()[:8]}"
                else:
                    at[a.name] = h.get_attribute_value(a)
            lines.append(f"{ind}{n.op_type}({', '.join(n.input)}) -> {', '.join(n.output)} {at if at else ''}")
            for a in n.attribute:
                if a.type == a.GRAPH:
                    lines.append(f"{ind}  {a.name}:")
                    g_(a.g, ind + "    ")
        lines.append(f"{ind}outputs {[o.name for o in g.output]}")

    g_(m.graph, "")
    for f in m.functions:
        lines.append(f"function {f.domain}::{f.name}({', '.join(f.input)}) -> {', '.join(f.output)}")
        for n in f.node:
            lines.append(f"   {n.op_type}({', '.join(n.input)}) -> {', '.join(n.output)}")
    return "\n".join(lines)[:limit]


def op_multiset(m):
    """sorted list of op types over the main graph and all nested subgraphs"""
    out = []

    def g_(g):
        for n in g.node:
            out.append(n.op_type)
            for a in n.attribute:
                if a.type == a.GRAPH:
                    g_(a.g)
                elif a.type == a.GRAPHS:
                    for x in a.graphs:
                        g_(x)

    g_(m.graph)
    return sorted(out)
