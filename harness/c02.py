"""C02 - every proto the converter emits is well-formed ONNX; bad programs are refused.

Programs come from spec/Script.tla (same derivations as C01, rendered under several variable
naming schemes incl. user names that look like generated ones) plus near-miss source mutations.
Accepted programs: onnx.checker (strict, full_check) on to_model_proto() and check_function on
to_function_proto(), and Graph!WF evaluated BY TLC on the abstract form of both protos
(GraphCheck.tla).  Near-misses must raise at decoration.
"""
from __future__ import annotations

import json
import random
import re

from . import convtrace, core, scriptgen

LEVEL = "model_checking"


def near_misses(src: str, rng):
    """source-level single mutations that leave the documented subset; each must be refused"""
    lines = src.split("\n")
    body_idx = [i for i, l in enumerate(lines) if l.startswith("    ") and not l.strip().startswith(("return", "def", "@"))]
    out = []
    nested = [i for i in body_idx if lines[i].startswith("        ")]
    if nested:
        i = rng.choice(nested)
        pad = re.match(r"\s*", lines[i]).group(0)
        out.append(("return_in_block", "\n".join(lines[:i] + [pad + "return a"] + lines[i:])))
    asg = [i for i in body_idx if re.match(r"\s+\w+ = ", lines[i])]
    if asg:
        i = rng.choice(asg)
        pad = re.match(r"\s*", lines[i]).group(0)
        name = lines[i].strip().split(" = ")[0]
        out.append(("augassign", "\n".join(lines[:i] + [f"{pad}{name} += 1"] + lines[i + 1:])))
        out.append(("del_stmt", "\n".join(lines[:i + 1] + [f"{pad}del {name}"] + lines[i + 1:])))
        out.append(("try_stmt", "\n".join(lines[:i] + [f"{pad}try:", "    " + lines[i], f"{pad}except Exception:", f"{pad}    {name} = a"] + lines[i + 1:])))
        out.append(("undefined_name", "\n".join(lines[:i] + [f"{pad}{name} = undefined_q + 1"] + lines[i + 1:])))
        # two versions of the standard opset in one body (session 6, seeded C02-m13): "every domain is imported with a single version"
        out.append(("two_opset_versions", "\n".join(["from onnxscript import opset17 as op17"] + lines[:i + 1]
                                                     + [f"{pad}{name} = op17.Add({name}, {name})"] + lines[i + 1:])))
    loops = [i for i in body_idx if lines[i].strip().startswith("for ")]
    if loops:
        i = rng.choice(loops)
        pad = re.match(r"\s*", lines[i]).group(0)
        out.append(("break_not_last", "\n".join(lines[:i + 1] + [f"{pad}    brk_c = a > 0", f"{pad}    if brk_c:", f"{pad}        break"] + lines[i + 1:])))
        out.append(("range_two_args", "\n".join(lines[:i] + [re.sub(r"range\((.*)\):", r"range(0, \1):", lines[i])] + lines[i + 1:])))
    whiles = [i for i in body_idx if lines[i].strip().startswith("while ")]
    if whiles:
        i = rng.choice(whiles)
        out.append(("while_on_expression", "\n".join(lines[:i] + [re.sub(r"while (\w+):", r"while \1 > 0:", lines[i])] + lines[i + 1:])))
    rng.shuffle(out)        # the quick tier keeps the first two: every kind gets its share
    return out


def run_case(arg):
    idx, src, kind = arg
    out = {"idx": idx, "kind": kind, "accepted": False, "err": None, "checker": {}, "items": []}
    try:
        mod = scriptgen.load_source(src, "c02")
        f = mod.f
    except Exception as e:
        out["err"] = f"{type(e).__name__}: {str(e)[:200]}"
        return out
    out["accepted"] = True
    import onnx

    try:
        m = f.to_model_proto()
        out["items"] += core.abstract_model(f"p{idx}", m)
        try:
            onnx.checker.check_model(m, full_check=True)
            out["checker"]["model"] = "ok"
        except Exception as e:
            out["checker"]["model"] = f"{type(e).__name__}: {str(e)[:300]}"
    except Exception as e:
        out["checker"]["model"] = f"to_model_proto raised {type(e).__name__}: {str(e)[:200]}"
    try:
        fp = f.to_function_proto()
        out["items"] += core.abstract_function(f"p{idx}", fp)
        try:
            onnx.checker.check_function(fp)
            out["checker"]["function"] = "ok"
        except Exception as e:
            out["checker"]["function"] = f"{type(e).__name__}: {str(e)[:300]}"
    except Exception as e:
        out["checker"]["function"] = f"to_function_proto raised {type(e).__name__}: {str(e)[:200]}"
    return out


def run(ctx: core.Ctx):
    if ctx.quick:
        states = scriptgen.tlc_programs(ctx, ["Script_n3.cfg", "Script_ops3.cfg"], "Script_sim.cfg", sim_num=8000, sim_depth=16)
    else:
        states = scriptgen.tlc_programs(ctx, ["Script_n3.cfg", "Script_ops3.cfg", "Script_loops4t.cfg", "Script_n4.cfg"], "Script_sim.cfg", sim_num=30000, sim_depth=18)
    rng = random.Random(ctx.seed)
    acc = [s for s in states if not s["refused"]]
    ref = [s for s in states if s["refused"]]
    rng.shuffle(acc)
    rng.shuffle(ref)
    if ctx.quick:
        acc, ref = acc[:1500], ref[:300]
    else:
        acc, ref = acc[:20000], ref[:2000]
    cases = []
    meta = []
    for i, s in enumerate(acc + ref):
        scheme = i % len(scriptgen.NAME_SCHEMES)
        src = scriptgen.program_src(s["prog"], list(s["ret"]), scheme)
        uses_attr = scriptgen.uses(s["prog"], "attr")
        cases.append((len(cases), src, "program"))
        meta.append({"src": src, "kind": "program", "model_refused": s["refused"], "attr": uses_attr})
        if not s["refused"] and (not ctx.quick or i % 3 == 0):
            for kind, msrc in near_misses(scriptgen.program_src(s["prog"], list(s["ret"]), 0), rng)[: (2 if ctx.quick else 8)]:
                cases.append((len(cases), msrc, kind))
                meta.append({"src": msrc, "kind": kind, "model_refused": True, "attr": uses_attr})
    # direction B: recorded converter traces (repository programs, repository tests, derived programs) validated by
    # TLC against Converter.tla; this check owns the structural clauses (names, scopes, definitions, outputs)
    # hand-written and generated programs outside Script.tla's grammar: every accepted one must give a loadable model (C02 owns
    # validity; values are C01's), and their recorded traces go through the structural clauses of Converter.tla as well
    _, xtraces = convtrace.run_extra(ctx, owner="C02")
    convtrace.stage(ctx, [m["src"] for m in meta if m["kind"] == "program"][:1500 if ctx.quick else 6000], "C02", extra_traces=xtraces)
    results = core.pmap_safe(run_case, cases, timeout=60)
    items = []
    for r in results:
        if isinstance(r, dict):
            items += r["items"]
    verdicts = core.graphcheck(ctx, items)
    nontriv = 0
    for m, r in zip(meta, results):
        ctx.add("evaluations")
        if r is core.HANG or not isinstance(r, dict):
            ctx.report(m, f"decorating/serialising did not finish or crashed the worker: {r}")
            continue
        if m["kind"] != "program":
            if r["accepted"]:
                ctx.report(m, f"near-miss program ({m['kind']}) is outside the subset but was accepted without an exception:\n{m['src']}")
            else:
                ctx.add("near_misses_refused")
            continue
        if not r["accepted"]:
            if not m["model_refused"]:
                ctx.add("model_impl_mismatches")
                print(f"SPEC-MISMATCH C02: model accepts, script() refuses ({r['err']}):\n{m['src']}")
            continue
        nontriv += 1
        ctx.add("traces_validated_against_impl")
        for which in ("model", "function"):
            c = r["checker"].get(which)
            if which == "model" and m["attr"]:
                continue  # "a function with attributes cannot be exported as a model" (documented)
            if c != "ok":
                ctx.report(dict(m, which=which, checker=c), f"accepted program, {which} proto rejected by onnx.checker: {c}\n{m['src']}")
        for it in r["items"]:
            if it["id"].endswith("/graph") and m["attr"]:
                continue
            v = verdicts[it["id"]]
            if not all(v):
                names = ["every name defined once (incl. subgraphs)", "uses visible and defined earlier", "outputs distinct and produced inside", "domains imported once"]
                bad = [n for n, ok in zip(names, v) if not ok]
                ctx.report(dict(m, item=it["id"], wf=list(v)), f"accepted program, {it['id']} violates WF clause(s) {bad} (Graph.tla evaluated by TLC)\n{m['src']}")
        ctx.sample({"src": m["src"], "checker": r["checker"]}, limit=3)
    ctx.set("distinct_nontrivial", nontriv)
    ctx.set("exhaustive", not ctx.quick)
    ctx.set("rule", "programs = 'done' states of Script.tla rendered under 3 naming schemes + single near-miss source mutations; non-trivial = accepted programs "
                    "(each yields a ModelProto and a FunctionProto judged by onnx.checker and by Graph!WF in TLC)")
    ctx.assumptions += ["onnx.checker.check_model(full_check=True) / check_function are the reference checker", "functions with attribute parameters are not exported as models (documented)"]


def replay(ctx, path):
    with open(path) as f:
        case = json.load(f)["case"]
    r = run_case((0, case["src"], case.get("kind", "program")))
    print(case["src"])
    print(json.dumps({k: r[k] for k in ("accepted", "err", "checker")}, indent=1))
    return 0
