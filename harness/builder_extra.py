"""Hand-written builder traces for combinations that Builder.tla's menus do not derive: a function built with
build_function whose body holds control-flow subgraphs (builder.subgraph) with Python literals that are used ONLY
inside the nested bodies; called as a node (op.call) and inlined (op.call_inline).  Each case is judged like the derived
traces: the model passes the checker and computes exactly the NumPy replay of the traced calls."""
from __future__ import annotations

import numpy as np


def _make_function(name, shape_top, nested):
    import onnx_ir as ir

    from onnxscript import FLOAT
    from onnxscript._internal.builder import build_function, make_value

    def body(op, x, flag):
        gb = op.builder
        if shape_top:
            x = op.Add(op.Mul(x, 3.0), 0.5)

        def then_fn(o):
            if not nested:
                return o.Mul(x, 3.0)
            inner_t = gb.subgraph(lambda o2: o2.Add(x, 7.0), inputs=[], outputs=[make_value("it", FLOAT[2])], name="inner_then")
            inner_e = gb.subgraph(lambda o2: o2.Mul(x, 3.0), inputs=[], outputs=[make_value("ie", FLOAT[2])], name="inner_else")
            return o.If(flag, then_branch=inner_t, else_branch=inner_e)

        then_g = gb.subgraph(then_fn, inputs=[], outputs=[make_value("t", FLOAT[2])], name="then")
        else_g = gb.subgraph(lambda o: o.Sub(x, 0.5), inputs=[], outputs=[make_value("e", FLOAT[2])], name="else")
        return op.If(flag, then_branch=then_g, else_branch=else_g)

    return build_function(body, [make_value("x", FLOAT[2]), ir.Value(name="flag", type=ir.TensorType(ir.DataType.BOOL), shape=ir.Shape([]))],
                          domain="c18x", name=name, opset_imports={"": 21})


def _replay(x, flag, shape_top, nested):
    if shape_top:
        x = x * np.float32(3.0) + np.float32(0.5)
    if flag:
        return x + np.float32(7.0) if nested else x * np.float32(3.0)
    return x - np.float32(0.5)


def _opset_history(order):
    """One process, the same small net traced at several opset versions between which the operators' signatures changed
    (axes: attribute before 13 / 18, input afterwards).  Each build must be a valid model of ITS opset that computes the
    NumPy replay, whatever was traced before (session 6, seeded C18-m12: a signature cache keyed without the version)."""
    import onnx
    import onnx_ir as ir

    from onnxscript._internal import builder

    from . import core

    fails = []
    xv = np.arange(6, dtype=np.float32).reshape(2, 3) - 2
    ref = xv.sum(axis=1) + xv.mean(axis=1)
    for v in order:
        try:
            graph = ir.Graph(name=f"g{v}", inputs=[], outputs=[], nodes=[], opset_imports={"": v})
            gb = builder.GraphBuilder(graph)
            op = gb.op
            x = gb.input("x", dtype=ir.DataType.FLOAT, shape=[2, 3])
            u = op.Unsqueeze(x, [0]) if v >= 13 else op.Unsqueeze(x, axes=[0])
            s = op.Squeeze(u, [0]) if v >= 13 else op.Squeeze(u, axes=[0])
            r = op.ReduceSum(s, [1], keepdims=0) if v >= 13 else op.ReduceSum(s, axes=[1], keepdims=0)
            m = op.ReduceMean(s, [1], keepdims=0) if v >= 18 else op.ReduceMean(s, axes=[1], keepdims=0)
            y = op.Add(r, m)
            y.type = ir.TensorType(ir.DataType.FLOAT)
            y.shape = ir.Shape([2])
            gb.add_output(y, "y")
            proto = ir.to_proto(ir.Model(graph, ir_version=8))
        except Exception as e:  # noqa: BLE001
            fails.append(f"opset {v} (after {order[:order.index(v)]}): building raised {type(e).__name__}: {str(e)[:200]}")
            continue
        try:
            onnx.checker.check_model(proto, full_check=True)
            got = core.ort_session(proto).run(None, {"x": xv})[0]
            if not np.array_equal(got, ref):
                fails.append(f"opset {v} (after {order[:order.index(v)]}): graph gives {got.tolist()}, NumPy replay gives {ref.tolist()}")
        except Exception as e:  # noqa: BLE001
            fails.append(f"opset {v} (after {order[:order.index(v)]}): the built model is not a valid model of its opset: "
                         f"{' '.join(str(e).split())[:260]}")
    return fails


def cases():
    out = [{"name": "same_net_at_opsets_" + "_".join(map(str, o)), "mode": "opset_history", "order": o}
           for o in ([11, 18, 13, 11], [21, 12])]
    for mode in ("call", "call_inline"):
        for shape_top in (False, True):
            for nested in (False, True):
                out.append({"name": f"function_with_if_body_{mode}_top{int(shape_top)}_nested{int(nested)}", "mode": mode, "top": shape_top, "nested": nested})
    return out


def run_case(c):
    """-> list of failure texts (empty = the case holds)"""
    import onnx
    import onnx_ir as ir

    from onnxscript._internal import builder

    from . import core

    if c["mode"] == "opset_history":
        return _opset_history(c["order"])
    fails = []
    try:
        fn = _make_function(f"F_{c['mode']}_{int(c['top'])}_{int(c['nested'])}", c["top"], c["nested"])
        graph = ir.Graph(name="g", inputs=[], outputs=[], nodes=[], opset_imports={"": 21, "c18x": 1})
        gb = builder.GraphBuilder(graph)
        x = gb.input("x", dtype=ir.DataType.FLOAT, shape=[2])
        f = gb.input("f", dtype=ir.DataType.BOOL, shape=[])
        y = (gb.op.call if c["mode"] == "call" else gb.op.call_inline)(fn, x, f)
        y.type = ir.TensorType(ir.DataType.FLOAT)
        y.shape = ir.Shape([2])
        gb.add_output(y, "y")
        model = ir.Model(graph, ir_version=10, functions=list(gb.functions.values()))
        proto = ir.to_proto(model)
    except Exception as e:  # noqa: BLE001
        return [f"building raised {type(e).__name__}: {str(e)[:300]}"]
    try:
        onnx.checker.check_model(proto, full_check=True)
    except Exception as e:  # noqa: BLE001
        fails.append(f"the built model is rejected by onnx.checker: {' '.join(str(e).split())[:300]}")
        return fails
    try:
        sess = core.ort_session(proto)
    except Exception as e:  # noqa: BLE001
        return [f"onnxruntime cannot load the built model: {' '.join(str(e).split())[:300]}"]
    xv = np.array([1.0, -2.0], dtype=np.float32)
    for flag in (True, False):
        got = sess.run(None, {"x": xv, "f": np.array(flag)})[0]
        ref = _replay(xv, flag, c["top"], c["nested"])
        if not np.array_equal(got, ref):
            fails.append(f"flag={flag}: graph gives {got.tolist()}, NumPy replay of the trace gives {ref.tolist()}")
    return fails
