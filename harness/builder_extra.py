"""Hand-written builder traces for combinations that Builder.tla's menus do not derive: a function built with
build_function whose body holds control-flow subgraphs (builder.subgraph) with Python literals that are used ONLY
inside the nested bodies; called as a node (op.call) and inlined (op.call_inline).  Each case is judged like the derived
traces: the model passes the checker and computes exactly the NumPy replay of the traced calls."""
from __future__ import annotations

import numpy as np


def _make_function(name, shape_top, nested):
    import onnx_ir as ir

    from onnxscript import FLOAT
    from onnxscript._internal.builder import build_function, make_value

    def body(op, x, flag):
        gb = op.builder
        if shape_top:
            x = op.Add(op.Mul(x, 3.0), 0.5)

        def then_fn(o):
            if not nested:
                return o.Mul(x, 3.0)
            inner_t = gb.subgraph(lambda o2: o2.Add(x, 7.0), inputs=[], outputs=[make_value("it", FLOAT[2])], name="inner_then")
            inner_e = gb.subgraph(lambda o2: o2.Mul(x, 3.0), inputs=[], outputs=[make_value("ie", FLOAT[2])], name="inner_else")
            return o.If(flag, then_branch=inner_t, else_branch=inner_e)

        then_g = gb.subgraph(then_fn, inputs=[], outputs=[make_value("t", FLOAT[2])], name="then")
        else_g = gb.subgraph(lambda o: o.Sub(x, 0.5), inputs=[], outputs=[make_value("e", FLOAT[2])], name="else")
        return op.If(flag, then_branch=then_g, else_branch=else_g)

    return build_function(body, [make_value("x", FLOAT[2]), ir.Value(name="flag", type=ir.TensorType(ir.DataType.BOOL), shape=ir.Shape([]))],
                          domain="c18x", name=name, opset_imports={"": 21})


def _replay(x, flag, shape_top, nested):
    if shape_top:
        x = x * np.float32(3.0) + np.float32(0.5)
    if flag:
        return x + np.float32(7.0) if nested else x * np.float32(3.0)
    return x - np.float32(0.5)


def cases():
    out = []
    for mode in ("call", "call_inline"):
        for shape_top in (False, True):
            for nested in (False, True):
                out.append({"name": f"function_with_if_body_{mode}_top{int(shape_top)}_nested{int(nested)}", "mode": mode, "top": shape_top, "nested": nested})
    return out


def run_case(c):
    """-> list of failure texts (empty = the case holds)"""
    import onnx
    import onnx_ir as ir

    from onnxscript._internal import builder

    from . import core

    fails = []
    try:
        fn = _make_function(f"F_{c['mode']}_{int(c['top'])}_{int(c['nested'])}", c["top"], c["nested"])
        graph = ir.Graph(name="g", inputs=[], outputs=[], nodes=[], opset_imports={"": 21, "c18x": 1})
        gb = builder.GraphBuilder(graph)
        x = gb.input("x", dtype=ir.DataType.FLOAT, shape=[2])
        f = gb.input("f", dtype=ir.DataType.BOOL, shape=[])
        y = (gb.op.call if c["mode"] == "call" else gb.op.call_inline)(fn, x, f)
        y.type = ir.TensorType(ir.DataType.FLOAT)
        y.shape = ir.Shape([2])
        gb.add_output(y, "y")
        model = ir.Model(graph, ir_version=10, functions=list(gb.functions.values()))
        proto = ir.to_proto(model)
    except Exception as e:  # noqa: BLE001
        return [f"building raised {type(e).__name__}: {str(e)[:300]}"]
    try:
        onnx.checker.check_model(proto, full_check=True)
    except Exception as e:  # noqa: BLE001
        fails.append(f"the built model is rejected by onnx.checker: {' '.join(str(e).split())[:300]}")
        return fails
    try:
        sess = core.ort_session(proto)
    except Exception as e:  # noqa: BLE001
        return [f"onnxruntime cannot load the built model: {' '.join(str(e).split())[:300]}"]
    xv = np.array([1.0, -2.0], dtype=np.float32)
    for flag in (True, False):
        got = sess.run(None, {"x": xv, "f": np.array(flag)})[0]
        ref = _replay(xv, flag, c["top"], c["nested"])
        if not np.array_equal(got, ref):
            fails.append(f"flag={flag}: graph gives {got.tolist()}, NumPy replay of the trace gives {ref.tolist()}")
    return fails
