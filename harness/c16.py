"""C16 - every registered torch_lib overload binds correctly to its ATen schema.

spec/AtenBinding.tla: the exporter's argument binding as the two machines it really is
(torch.onnx._internal.exporter._building._construct_named_inputs_and_attrs for scripted
OnnxFunctions, the CPython call convention for TracedOnnxFunction.__call__), run by TLC on the REAL
registry (get_torchlib_ops() x torch.ops.<ns>.<name>.<overload>._schema dumped to JSON) for every
call shape the exporter can produce (optional trailing positionals given/omitted x keyword-only
given/omitted), plus the per-entry static clauses (name grammar, '.default', uniqueness, overload
exists).  Every TLC terminal state is replayed into the real objects (direction B on a one-call
trace): OnnxFunction.__call__ -> evaluator -> real _construct_named_inputs_and_attrs with sentinel
arguments; TracedOnnxFunction.__call__ with the python body replaced by a same-signature recorder.

spec/TorchRegistry.tla: registration.torch_op / Registry.register / get_torchlib_ops as a state
machine over registration histories (name validation, private, first registration wins);
TLC enumerates histories, the harness replays them through the real decorator into a fresh
Registry installed as the default one and reads it back with the real get_torchlib_ops().

Scripted functions: onnx.checker.check_function on every FunctionProto.
"""
from __future__ import annotations

import collections
import copy
import inspect
import json
import math
import operator
import os
import random
import re
import warnings

from . import core

LEVEL = "model_checking"
WORKERS = min(8, core.NCPU)      # TLC workers and python processes

DROPPABLE = ("generator", "layout", "device", "pin_memory", "memory_format", "requires_grad")

# proposed deviation ids (none of them is listed in known_findings.json by this module; they are
# the guards under which AtenBinding.tla attributes a failure, see AtenBinding.tla!DeviationOf)
TAGS = ("tensor_to_attr", "not_accepted", "crossed_names", "required_unbound", "dropped", "rejected", "rejected_droppable", "multiple")


# ------------------------------------------------------------------ schema side (installed PyTorch)
def _arg_kind(a) -> tuple[str, bool]:
    """abstract kind of one ATen schema argument: (kind, optional)"""
    t = str(a.real_type)
    opt = False
    if t.startswith("Optional[") and t.endswith("]"):
        opt = True
        t = t[len("Optional["):-1]
    table = {
        "Tensor": "tensor", "List[Tensor]": "tensors", "List[Optional[Tensor]]": "tensors",
        "int": "int", "SymInt": "int", "float": "float", "bool": "bool", "str": "str", "number": "scalar",
        "List[int]": "ints", "List[SymInt]": "ints", "List[float]": "floats", "List[bool]": "bools",
        "List[str]": "strs", "List[number]": "scalars", "ScalarType": "dtype",
    }
    return table.get(t, "opaque"), opt


def _resolve(qualified_name: str):
    """('op', OpOverload) | ('py', callable) | ('skip', reason) | ('missing', reason) - mirrors what
    torch.onnx._internal.exporter._registration._get_overload looks up"""
    import torch

    ns, rest = qualified_name.split("::", 1)
    name, *ov = rest.split(".", 1)
    if ns in ("_operator", "math"):
        mod = operator if ns == "_operator" else math
        f = getattr(mod, name, None)
        return ("py", f) if f is not None else ("missing", f"python module {mod.__name__} has no {name}")
    if ns == "torchvision":
        import importlib.util

        if importlib.util.find_spec("torchvision") is None:
            return ("skip", "torchvision is not installed")
        import torchvision  # noqa: F401
    if ns == "quantized_decomposed":
        try:
            import torch.ao.quantization.fx._decomposed  # noqa: F401  (defines the library)
        except Exception:  # pragma: no cover
            return ("skip", "torch.ao.quantization.fx._decomposed cannot be imported")
    try:
        packet = getattr(getattr(torch.ops, ns), name)
    except AttributeError:
        return ("missing", f"torch.ops.{ns} has no operator '{name}'")
    overload = ov[0] if ov else "default"
    if overload not in packet.overloads():
        return ("missing", f"torch.ops.{ns}.{name} has overloads {packet.overloads()} but no '{overload}'")
    return ("op", getattr(packet, overload))


def _schema_args(kind, target):
    if kind == "op":
        out = []
        for a in target._schema.arguments:
            k, opt = _arg_kind(a)
            out.append({"name": a.name, "kind": k, "opt": opt, "kwonly": bool(a.kwarg_only), "hasdef": bool(a.has_default_value())})
        return out, str(target._schema)
    # python builtin (operator.add, math.ceil): positional-only objects
    try:
        ps = list(inspect.signature(target).parameters.values())
    except (TypeError, ValueError):
        ps = []
    return ([{"name": p.name, "kind": "opaque", "opt": False, "kwonly": False, "hasdef": p.default is not inspect.Parameter.empty}
             for p in ps], f"{target.__module__}.{target.__name__}{inspect.signature(target)}")


# ------------------------------------------------------------------ function side (onnxscript)
_PYKIND = {
    inspect.Parameter.POSITIONAL_ONLY: "po", inspect.Parameter.POSITIONAL_OR_KEYWORD: "pk",
    inspect.Parameter.KEYWORD_ONLY: "ko", inspect.Parameter.VAR_POSITIONAL: "vp", inspect.Parameter.VAR_KEYWORD: "vk",
}


def _pyfunc(fn):
    return fn.func if hasattr(fn, "func") else fn.function


def _params(fn):
    """-> (params as the function's op_signature (onnxscript/ir/_schemas.py) lists them,
           pyparams as inspect.signature lists them); the two are compared by the spec (SignatureAgrees)"""
    import onnx_ir as ir

    out = []
    for p in fn.op_signature.params:
        if isinstance(p, ir.schemas.AttributeParameter):
            out.append({"name": p.name, "input": False, "atype": p.type.name, "required": bool(p.required),
                        "hasdef": p.default is not None, "variadic": False})
        else:
            out.append({"name": p.name, "input": True, "atype": "", "required": bool(p.required),
                        "hasdef": bool(p.has_default()), "variadic": bool(p.variadic)})
    py = [{"name": q.name, "pykind": _PYKIND[q.kind], "pydef": q.default is not inspect.Parameter.empty}
          for q in inspect.signature(_pyfunc(fn)).parameters.values()]
    return out, py


class RegistryUnavailable(Exception):
    pass


def registry_dump():
    """-> (entries for TLC, live objects per entry)"""
    import onnxscript
    from onnxscript._framework_apis import torch_2_5 as api

    with warnings.catch_warnings():
        warnings.simplefilter("ignore")
        try:
            metas = api.get_torchlib_ops()
        except Exception as ex:  # the code under test cannot even produce its registry
            raise RegistryUnavailable(f"{type(ex).__name__}: {ex}") from ex
    pairs = collections.Counter((m.qualified_name, bool(m.is_complex)) for m in metas)
    entries, live, broken = [], [], []
    for m in metas:
        kind, target = _resolve(m.qualified_name)
        traced = not isinstance(m.function, onnxscript.OnnxFunction)
        try:
            params, pyparams = _params(m.function)
        except Exception as ex:  # the function cannot say what its parameters are: reported, entry not modelled
            broken.append((m.qualified_name, getattr(m, "name", "?"), f"{type(ex).__name__}: {str(ex)[:200]}"))
            continue
        e = {"qname": m.qualified_name, "fname": m.name, "traced": traced, "complex": bool(m.is_complex),
             "resolved": kind, "multiplicity": pairs[(m.qualified_name, bool(m.is_complex))],
             "args": [], "params": params, "pyparams": pyparams, "schema": ""}
        if kind in ("op", "py"):
            e["args"], e["schema"] = _schema_args(kind, target)
        else:
            e["schema"] = target
        entries.append(e)
        live.append(m)
    return entries, live, broken


# ------------------------------------------------------------------ design / seeded registries
_ATTR_OF = {"int": "INT", "float": "FLOAT", "bool": "INT", "str": "STRING", "ints": "INTS", "floats": "FLOATS",
            "bools": "INTS", "strs": "STRINGS", "dtype": "INT", "opaque": "STRING"}


def _canon_param(a, builtin, pykind):
    as_input = builtin or a["opt"] or a["kind"] in ("tensor", "tensors", "scalar", "scalars")
    return {"name": a["name"], "input": as_input, "atype": "" if as_input else _ATTR_OF[a["kind"]],
            "required": not a["hasdef"], "hasdef": a["hasdef"], "variadic": False, "pykind": pykind, "pydef": a["hasdef"]}


def canonical_registry(entries):
    """The design: for every distinct resolvable qualified name, the function signature read off the
    ATen schema (scripted flavour: droppable keyword-only arguments have no parameter; trace-only
    flavour: every keyword-only argument is a keyword-only parameter, or **kwargs takes the
    droppable ones).  BindsCorrectly must hold on all of it."""
    out, seen = [], set()
    for e in entries:
        if e["resolved"] not in ("op", "py") or e["qname"] in seen:
            continue
        seen.add(e["qname"])
        builtin = e["resolved"] == "py"
        for traced in (False, True):
            ps = [_canon_param(a, builtin, "pk") for a in e["args"] if not a["kwonly"]]
            kw = [a for a in e["args"] if a["kwonly"]]
            drop = [a for a in kw if a["name"] in DROPPABLE]
            use_varkw = traced and len(drop) >= 2
            for a in kw:
                if a["name"] in DROPPABLE and (not traced or use_varkw):
                    continue
                ps.append(_canon_param(a, builtin, "ko"))
            if use_varkw:
                ps.append({"name": "_kwargs", "input": True, "atype": "", "required": False, "hasdef": True,
                           "variadic": False, "pykind": "vk", "pydef": False})
            out.append({"qname": e["qname"], "fname": "canonical", "traced": traced, "complex": traced, "resolved": e["resolved"],
                        "multiplicity": 1, "args": e["args"], "params": ps, "schema": e["schema"]})
    return [_with_pyparams(e) for e in out]


def _with_pyparams(e):
    """design / seeded entries describe one parameter list: the python signature is that list"""
    if "pyparams" not in e:
        e["pyparams"] = [{"name": p["name"], "pykind": p["pykind"], "pydef": p["pydef"]} for p in e["params"]]
    return e


def seeded_registry(canon):
    """canonical entries with one injected defect each -> (entries, expected failure tags)"""
    def pick(pred):
        for e in canon:
            if pred(e):
                e = copy.deepcopy(e)
                e.pop("pyparams", None)      # rebuilt from the (edited) parameter list at the end
                return e
        raise core.MachineryError("seeded registry: no canonical entry with the needed feature")

    def arg(e, name):
        return next(a for a in e["args"] if a["name"] == name)

    out, tags = [], set()
    # a tensor parameter declared as a float attribute
    e = pick(lambda e: not e["traced"] and e["resolved"] == "op" and e["params"] and e["params"][0]["input"] and e["args"][0]["kind"] == "tensor")
    e["params"][0].update(input=False, atype="FLOAT"); out.append(e); tags.add("tensor_to_attr")
    # an int-list argument landing on an INT attribute
    e = pick(lambda e: not e["traced"] and any(p["atype"] == "INTS" and p["pykind"] == "pk" for p in e["params"]))
    next(p for p in e["params"] if p["atype"] == "INTS").update(atype="INT"); out.append(e); tags.add("not_accepted")
    # a parameter the schema lets the caller omit is required by the function
    for traced in (False, True):
        e = pick(lambda e: e["traced"] == traced and any(p["pykind"] == "pk" and p["hasdef"] for p in e["params"]))
        next(p for p in e["params"] if p["pykind"] == "pk" and p["hasdef"]).update(required=True, hasdef=False, pydef=False)
        out.append(e)
    tags.add("required_unbound")
    # op_signature declares a parameter required although python fills it from its default (trace-only)
    e = pick(lambda e: e["traced"] and e["qname"] not in {x["qname"] for x in out}
             and any(p["pykind"] == "pk" and p["pydef"] and p["input"] for p in e["params"]))
    next(p for p in e["params"] if p["pykind"] == "pk" and p["pydef"] and p["input"]).update(required=True, hasdef=False)
    out.append(e)
    # a meaningful keyword-only argument without parameter: silently dropped (scripted) / TypeError (traced)
    for traced, tag in ((False, "dropped"), (True, "rejected")):
        e = pick(lambda e: e["traced"] == traced and any(p["pykind"] == "ko" and p["name"] not in DROPPABLE for p in e["params"]))
        e["params"] = [p for p in e["params"] if not (p["pykind"] == "ko" and p["name"] not in DROPPABLE)]
        out.append(e); tags.add(tag)
    # a droppable keyword-only argument without parameter in a trace-only function
    e = pick(lambda e: e["traced"] and any(p["pykind"] == "ko" and p["name"] in DROPPABLE for p in e["params"]))
    e["params"] = [p for p in e["params"] if not (p["pykind"] == "ko" and p["name"] in DROPPABLE)]
    out.append(e); tags.add("rejected_droppable")
    # one positional parameter too few (trace-only: too many positional arguments)
    e = pick(lambda e: e["traced"] and len([p for p in e["params"] if p["pykind"] == "pk"]) >= 2 and not any(a["kwonly"] for a in e["args"]))
    e["params"] = e["params"][:-1]; out.append(e)
    # a keyword-only schema argument whose parameter sits in a positional slot
    e = pick(lambda e: e["traced"] and any(p["pykind"] == "ko" for p in e["params"]) and any(p["pykind"] == "pk" for p in e["params"]))
    k = next(p for p in e["params"] if p["pykind"] == "ko"); e["params"].remove(k); k["pykind"] = "pk"; e["params"].insert(0, k)
    out.append(e); tags.add("multiple")
    # two same-kind parameters in the other order than the schema
    e = pick(lambda e: not e["traced"] and len(e["params"]) >= 2 and e["params"][0]["input"] and e["params"][1]["input"]
             and e["params"][0]["pykind"] == e["params"][1]["pykind"] == "pk" and e["args"][1]["kind"] == "tensor" and not e["args"][1]["hasdef"])
    e["params"][0], e["params"][1] = e["params"][1], e["params"][0]; out.append(e); tags.add("crossed_names")
    # static clauses
    e = pick(lambda e: e["qname"] == "aten::relu"); e["qname"] = "aten::relu.default"; out.append(e); tags.add("default_suffix")
    e = pick(lambda e: e["qname"] == "aten::relu"); e["qname"] = "aten:relu"; out.append(e); tags.add("ill_formed_name")
    e = pick(lambda e: e["qname"] == "aten::abs"); out.append(e); out.append(copy.deepcopy(e)); tags.add("not_unique")
    e = pick(lambda e: e["qname"] == "aten::neg"); e["resolved"] = "missing"; e["args"] = []; out.append(e); tags.add("overload_absent")
    # a required attribute the call does not supply (scripted)
    e = pick(lambda e: not e["traced"] and any(p["pykind"] == "pk" and p["hasdef"] and not p["input"] for p in e["params"]))
    next(p for p in e["params"] if p["pykind"] == "pk" and p["hasdef"] and not p["input"]).update(required=True, hasdef=False, pydef=False)
    out.append(e)
    # clean entries that take the remaining branches of the two machines (no failure expected from them)
    used = {(x["qname"], x["complex"]) for x in out}

    def clean(pred):
        e = pick(lambda e: (e["qname"], e["complex"]) not in used and pred(e))
        used.add((e["qname"], e["complex"]))
        out.append(e)
        return e

    clean(lambda e: not e["traced"] and any(p["pykind"] == "ko" and p["input"] for p in e["params"]))            # S_BindInputKeyword
    clean(lambda e: not e["traced"] and any(p["pykind"] == "ko" and not p["input"] for p in e["params"]))        # S_BindAttrKeyword
    clean(lambda e: not e["traced"] and any(p["pykind"] == "pk" and p["input"] and p["hasdef"] for p in e["params"]))  # S_FillNone
    clean(lambda e: e["traced"] and any(p["pykind"] == "vk" for p in e["params"]))                              # P_CollectVarKeyword
    e = clean(lambda e: not e["traced"] and e["args"] and e["args"][0]["kind"] == "tensors" and len(e["params"]) >= 2)
    e["params"][0]["variadic"] = True                                                                           # S_BindInputVariadic
    e = clean(lambda e: e["traced"] and len(e["params"]) >= 3 and all(p["pykind"] == "pk" for p in e["params"]))
    e["params"] = e["params"][:1] + [{"name": "_rest", "input": True, "atype": "", "required": False, "hasdef": True,
                                      "variadic": False, "pykind": "vp", "pydef": False}]                         # P_CollectVarPositional
    e = clean(lambda e: not e["traced"] and any(p["pykind"] == "pk" and p["hasdef"] and not p["input"] for p in e["params"]))
    next(p for p in e["params"] if p["pykind"] == "pk" and p["hasdef"] and not p["input"]).update(hasdef=False)   # S_DropNone
    # op_signature lists the inputs ahead of the attributes, the python signature does not
    e = pick(lambda e: not e["traced"] and (e["qname"], e["complex"]) not in used and len(e["params"]) >= 3
             and e["params"][0]["input"] and not e["params"][1]["input"] and e["params"][2]["input"]
             and all(p["pykind"] == "pk" for p in e["params"][:3]))
    _with_pyparams(e)
    e["params"] = sorted(e["params"], key=lambda p: not p["input"])
    out.append(e); tags.add("signature_order")
    return [_with_pyparams(e) for e in out], tags


# ------------------------------------------------------------------ direction B: the real binding of one call
class _Sent:
    """sentinel argument standing for the schema argument `name`"""

    def __init__(self, name, kw):
        self.name, self.kw = name, kw

    def __repr__(self):
        return f"<{'kw' if self.kw else 'pos'} {self.name}>"


class _Default:
    def __repr__(self):
        return "<default>"


_DEFAULT = _Default()


class _Recorder:
    """evaluator installed while an OnnxFunction is called: does what the exporter's OpRecorder.eval_function
    does first - binds (args, kwargs) against the function's op_signature"""

    def __init__(self):
        self.seen = None

    def eval_function(self, function, args, kwargs):
        from torch.onnx._internal.exporter import _building

        self.seen = _building._construct_named_inputs_and_attrs(function.op_signature, args, kwargs)
        return None


def _stub_like(pyfunc):
    """a function with the python signature of `pyfunc` that returns its bound locals"""
    parts, star = [], False
    params = list(inspect.signature(pyfunc).parameters.values())
    for k, p in enumerate(params):
        d = "=_D" if p.default is not inspect.Parameter.empty else ""
        if p.kind == inspect.Parameter.VAR_POSITIONAL:
            parts.append("*" + p.name); star = True
        elif p.kind == inspect.Parameter.VAR_KEYWORD:
            parts.append("**" + p.name)
        else:
            if p.kind == inspect.Parameter.KEYWORD_ONLY and not star:
                parts.append("*"); star = True
            parts.append(p.name + d)
            if p.kind == inspect.Parameter.POSITIONAL_ONLY and (k + 1 == len(params) or params[k + 1].kind != inspect.Parameter.POSITIONAL_ONLY):
                parts.append("/")
    ns = {"_D": _DEFAULT}
    exec(f"def stub({', '.join(parts)}):\n    return dict(locals())\n", ns)  # noqa: S102
    return ns["stub"]


_RE_TYPEERR = [
    (re.compile(r"got an unexpected keyword argument '(\w+)'"), "unexpected_kw"),
    (re.compile(r"got multiple values for argument '(\w+)'"), "multiple"),
    (re.compile(r"missing \d+ required (?:positional|keyword-only) arguments?: '(\w+)'"), "missing"),
]
_RE_TOOMANY = re.compile(r"takes (?:from \d+ to )?(\d+) positional arguments? but (\d+) (?:was|were) given")
_RE_REQUIRED = re.compile(r"Required (?:parameter|attribute) '(\w+)' is not provided")


def _src(v):
    if isinstance(v, _Sent):
        return v.name, "kw" if v.kw else "pos"
    if v is None:
        return "<none>", "fill"
    if v is _DEFAULT:
        return "<default>", "fill"
    if isinstance(v, tuple) and v and all(isinstance(x, _Sent) for x in v):
        return "<all>", "pos"
    return "<default>", "fill"      # ir.Attr default of an attribute parameter


def real_binding(fn, entry, npos, kws):
    """Bind the call (first npos positional schema arguments, keyword-only ones in kws) on the real object.
    -> {"binds": {param: [src, via]}, "extra": [...], "err": [kind, name]}"""
    import onnxscript
    from onnxscript._internal import evaluator

    pos = [a for a in entry["args"] if not a["kwonly"]]
    args = [_Sent(a["name"], False) for a in pos[:npos]]
    kwargs = {n: _Sent(n, True) for n in kws}
    out = {"binds": {}, "extra": [], "err": ["", ""]}
    if isinstance(fn, onnxscript.OnnxFunction):
        rec = _Recorder()
        try:
            with evaluator.default_as(rec):
                fn(*args, **kwargs)
        except ValueError as ex:
            m = _RE_REQUIRED.search(str(ex))
            out["err"] = ["missing", m.group(1)] if m else ["other", type(ex).__name__]
            return out
        except Exception as ex:  # anything else is an outcome too
            out["err"] = ["other", type(ex).__name__]
            return out
        if rec.seen is None:
            out["err"] = ["other", "evaluator not reached"]
            return out
        named_inputs, named_attrs = rec.seen
        for name, v in list(named_inputs.items()) + list(named_attrs.items()):
            out["binds"][name] = list(_src(v))
        return out
    # trace-only: the real TracedOnnxFunction.__call__ around a recorder with the same python signature
    t = copy.copy(fn)
    t.func = _stub_like(fn.func)
    try:
        got = t(*args, **kwargs)
    except TypeError as ex:
        msg = str(ex)
        for rx, kind in _RE_TYPEERR:
            m = rx.search(msg)
            if m:
                out["err"] = [kind, m.group(1)]
                return out
        m = _RE_TOOMANY.search(msg)
        if m:
            out["err"] = ["too_many", pos[int(m.group(1))]["name"]]
            return out
        out["err"] = ["other", msg[:80]]
        return out
    except Exception as ex:
        out["err"] = ["other", type(ex).__name__]
        return out
    if not isinstance(got, dict):
        out["err"] = ["other", "function body not reached through __call__"]
        return out
    kinds = {p.name: p.kind for p in inspect.signature(fn.func).parameters.values()}
    for name, v in got.items():
        if kinds.get(name) == inspect.Parameter.VAR_POSITIONAL:
            out["extra"] += [x.name for x in v]
        elif kinds.get(name) == inspect.Parameter.VAR_KEYWORD:
            out["extra"] += list(v)
        else:
            out["binds"][name] = list(_src(v))
    return out


def model_outcome(s):
    raised = s["err"]["kind"] != ""     # what was bound before a raise cannot be observed on the real objects
    return {"binds": {} if raised else {b["param"]: [b["src"], b["via"]] for b in s["binds"]},
            "extra": [] if raised else list(s["extra"]), "err": [s["err"]["kind"], s["err"]["name"]]}


def _same_outcome(m, r):
    return m["binds"] == r["binds"] and sorted(m["extra"]) == sorted(r["extra"]) and m["err"] == r["err"]


def _fails(s):
    return sorted(({"tag": f["tag"], "arg": f["arg"], "param": f["param"], "dev": f["dev"]} for f in s["fails"]),
                  key=lambda f: (f["tag"], f["arg"], f["param"]))


def _what(e, f):
    tag, a, p = f["tag"], f["arg"], f["param"]
    kind = "trace-only" if e["traced"] else "scripted"
    txt = {
        "tensor_to_attr": f"tensor argument '{a}' is given to attribute parameter '{p}'",
        "not_accepted": f"argument '{a}' is given to parameter '{p}' which does not accept its type",
        "crossed_names": f"positional argument '{a}' is given to parameter '{p}' although another parameter is called '{a}' (parameters in another order than the schema)",
        "required_unbound": f"required parameter '{p}' is left unbound",
        "dropped": f"argument '{a}' is silently dropped although it is not one of the droppable arguments",
        "rejected": f"argument '{a}' reaches no parameter (TypeError)",
        "rejected_droppable": f"droppable argument '{a}' is not dropped but refused (TypeError: the {kind} function has no such parameter)",
        "multiple": f"keyword argument '{a}' names a parameter already bound by position (TypeError)",
        "raised_other": f"binding raised {a}",
        "signature_order": f"op_signature does not list the parameters of the python function in order (first difference at '{p}'): "
                           "the exporter binds positional arguments against op_signature",
        "ill_formed_name": "the registered name is not <namespace>::<name>[.<overload>]",
        "default_suffix": "default overload spelled with '.default'",
        "not_unique": "more than one function for this (name, real/complex) pair",
        "overload_absent": f"the installed PyTorch does not define this operator overload ({e['schema']})",
    }[tag]
    return f"{e['qname']} -> {e['fname']} ({kind}{', complex' if e['complex'] else ''}): {txt}"


# ------------------------------------------------------------------ part 1: binding
def _tlc_binding(cfg, reg_file, obs_file, **kw):
    return core.run_tlc("AtenBinding", cfg, env={"REG_FILE": reg_file, "OBS_FILE": obs_file}, timeout=1500, workers=WORKERS, **kw)


def _terminal_cases(dump, what):
    """terminal states of the binding machines keyed by (eid, npos, kws); exactly one per shape"""
    cases = {}
    for s in dump:
        if s["pc"] in ("done", "raised") and s["oid"] == 0:
            key = (s["eid"], s["npos"], tuple(s["kws"]))
            if key in cases:
                raise core.MachineryError(f"{what}: binding machine is not deterministic at {key}")
            cases[key] = s
    shapes = {(s["eid"], s["npos"], tuple(s["kws"])) for s in dump if s["oid"] == 0 and s["pc"] in ("s_loop", "p_pos")}
    if shapes - set(cases):
        raise core.MachineryError(f"{what}: call shapes without terminal state: {sorted(shapes - set(cases))[:3]}")
    return cases


_LIVE = None


def _replay_chunk(keys):
    entries, live = _LIVE
    out = []
    for eid, npos, kws in keys:
        try:
            out.append(real_binding(live[eid - 1].function, entries[eid - 1], npos, kws))
        except Exception as ex:  # whatever the object under test does is an outcome
            out.append({"binds": {}, "extra": [], "err": ["other", f"{type(ex).__name__}"]})
    return out


def part_binding(ctx: core.Ctx):
    global _LIVE
    try:
        entries, live, broken = registry_dump()
    except RegistryUnavailable as ex:
        ctx.report({"kind": "registry", "error": str(ex)}, f"get_torchlib_ops() raises instead of returning the registry: {str(ex)[:400]}")
        return 0, [], []
    d = core.scratch()
    reg_file = core.write_tlc_json(os.path.join(d, "c16_reg.json"), entries)
    empty = core.write_tlc_json(os.path.join(d, "c16_noobs.json"), [])
    ctx.set("registry_entries", len(entries))
    for q, fname, why in broken:
        ctx.report({"kind": "signature", "qname": q, "fname": fname, "error": why},
                   f"{q} -> {fname}: the function's op_signature / python signature cannot be read: {why}")
    if not entries:
        return 0, [], []
    odd = [(e["qname"], p["name"], p["required"]) for e in entries for p in e["params"] for q in e["pyparams"]
           if q["name"] == p["name"] and q["pykind"] in ("po", "pk", "ko") and p["required"] == q["pydef"]]
    ctx.set("signature_python_disagreements", len(odd))   # op_signature.required vs python default; judged where a call shape exposes it
    for q, n, req in odd[:3]:
        print(f"NOTE C16 {q}: op_signature has required={req} for parameter '{n}' although python has {'a' if req else 'no'} default for it", flush=True)
    ctx.set("scripted_entries", sum(1 for e in entries if not e["traced"]))
    ctx.set("resolution", dict(collections.Counter(e["resolved"] for e in entries)))

    # -- design: the signature read off each schema satisfies the property in every call shape
    canon = canonical_registry(entries)
    canon_file = core.write_tlc_json(os.path.join(d, "c16_canon.json"), canon)
    des = _tlc_binding("AtenBinding_design.cfg", canon_file, empty)
    ctx.tlc(des, "AtenBinding_design.cfg (canonical registry)")
    if not des.ok:
        raise core.MachineryError(f"design-level registry violates {des.violated}:\n{des.out[-1500:]}")
    # -- vacuity: every clause can fail (seeded defects), and the invariant reports it
    seeded, want_tags = seeded_registry(canon)
    seed_file = core.write_tlc_json(os.path.join(d, "c16_seeded.json"), seeded)
    vac = _tlc_binding("AtenBinding_vacuity.cfg", seed_file, empty, dump=True, coverage=True, extra=["-continue"])
    ctx.tlc(vac, "AtenBinding_vacuity.cfg (seeded defects)")
    got_tags = {f["tag"] for s in vac.dump for f in s["fails"]}
    if not any(s["pc"] == "done" and any(f["tag"] == "required_unbound" for f in s["fails"]) for s in vac.dump):
        raise core.MachineryError("vacuity: a parameter declared required by op_signature but filled from its python default is not reported")
    if "Invariant BindsCorrectly is violated" not in vac.out or "Invariant MachineSane is violated" in vac.out or not want_tags <= got_tags:
        raise core.MachineryError(f"vacuity: seeded defects not reported (missing {sorted(want_tags - got_tags)}, violated={vac.violated})")

    # -- the real registry
    cfg = "AtenBinding_quick.cfg" if ctx.quick else "AtenBinding_thorough.cfg"
    res = _tlc_binding(cfg, reg_file, empty, dump=True, coverage=True)
    ctx.tlc(res, cfg + " (real registry)")
    if not res.ok:
        raise core.MachineryError(f"TLC: {res.violated} in AtenBinding.tla on the real registry\n{res.out[-1500:]}")
    cases = _terminal_cases(res.dump, cfg)
    never = sorted(a for a in set(res.coverage) | set(vac.coverage)
                   if a not in ("JudgeObserved", "Init") and res.coverage.get(a, (0, 0))[0] + vac.coverage.get(a, (0, 0))[0] == 0)
    if never or len(set(res.coverage) | set(vac.coverage)) < 25:
        raise core.MachineryError(f"vacuity: actions never taken on the real + seeded registries: {never}")
    ctx.set("actions_taken_on_real_registry", sorted(a for a, v in res.coverage.items() if v[0] > 0))

    # static clauses (state right after CheckStatic)
    reported = set()
    for s in res.dump:
        if s["oid"] == 0 and s["pc"] in ("shape", "unjudged"):
            e = entries[s["eid"] - 1]
            ctx.add("evaluations")
            for f in _fails(s):
                key = (e["qname"], e["complex"], f["tag"])
                if key not in reported:
                    reported.add(key)
                    ctx.report({"kind": "static", "entry": _entry_brief(e), "fail": f}, _what(e, f), finding=f["dev"] or None)
            if s["pc"] == "unjudged":
                ctx.add("entries_binding_not_judged")

    # direction B: every explored call on the real objects; the observed outcome of each is judged
    # by TLC with the same clauses (SpecObserved), the model's outcome is only compared
    keys = sorted(cases)
    _LIVE = (entries, live)
    n = max(1, len(keys) // (WORKERS * 2))
    chunks = [keys[k : k + n] for k in range(0, len(keys), n)]
    reals = [r for chunk in core.pmap(_replay_chunk, chunks, chunksize=1, workers=WORKERS) for r in chunk]
    obs = [{"eid": eid, "npos": npos, "kws": list(kws), "extra": real["extra"],
            "binds": [{"param": p, "src": v[0], "via": v[1]} for p, v in real["binds"].items()],
            "err": {"kind": real["err"][0], "name": real["err"][1]}} for (eid, npos, kws), real in zip(keys, reals)]
    obs_file = core.write_tlc_json(os.path.join(d, "c16_obs.json"), obs)
    jr = _tlc_binding("AtenBinding_judge.cfg", reg_file, obs_file, dump=True)
    ctx.tlc(jr, "AtenBinding_judge.cfg (outcomes observed on the real objects)")
    if not jr.ok:
        raise core.MachineryError(f"TLC judge run failed: {jr.violated}\n{jr.out[-1500:]}")
    judged = {s["oid"]: s for s in jr.dump if s["pc"] == "judged"}
    if len(judged) != len(keys):
        raise core.MachineryError(f"TLC judged {len(judged)} of {len(keys)} observed outcomes")
    mismatches, nontrivial = 0, set()
    for k, (key, real) in enumerate(zip(keys, reals)):
        s, e = cases[key], entries[key[0] - 1]
        ctx.add("evaluations")
        ctx.add("traces_validated_against_impl")
        model = model_outcome(s)
        desc = {"kind": "binding", "entry": _entry_brief(e), "npos": key[1], "kws": list(key[2]), "model": model, "impl": real}
        given = [a for a in e["args"] if not a["kwonly"]][: key[1]]
        if key[2] or any(a["kind"] not in ("tensor", "tensors") for a in given) or key[1] < sum(1 for a in e["args"] if not a["kwonly"]):
            nontrivial.add((e["qname"], e["complex"], key[1], key[2]))
        fails = _fails(judged[k + 1])
        if not _same_outcome(model, real):
            mismatches += 1
            if mismatches <= 10:
                print(f"SPEC-MISMATCH C16 binding {e['qname']} npos={key[1]} kws={list(key[2])}: model {model} impl {real}", flush=True)
        elif fails != _fails(s):
            raise core.MachineryError(f"TLC judges the same outcome differently: {fails} vs {_fails(s)} at {desc}")
        for f in fails:
            rk = (e["qname"], e["complex"], f["tag"], f["arg"], f["param"])
            if rk not in reported:
                reported.add(rk)
                ctx.report(dict(desc, fail=f), _what(e, f) + f" [call: {key[1]} positional, keywords {list(key[2])}]", finding=f["dev"] or None)
        if len(ctx.coverage["samples"]) < 4 and (key[2] or s["pc"] == "raised"):
            ctx.sample(desc, limit=4)
    ctx.set("binding_model_mismatches", mismatches)
    ctx.set("call_shapes", len(keys))
    return len(nontrivial), entries, live


def _entry_brief(e):
    return {"qname": e["qname"], "fname": e["fname"], "traced": e["traced"], "complex": e["complex"], "schema": e["schema"],
            "params": [f"{p['name']}:{'input' if p['input'] else p['atype']}{'' if p['required'] else '?'}" for p in e["params"]]}


# ------------------------------------------------------------------ part 2: registration histories
def _reg_probe_1(self):
    return self


def _reg_probe_2(self, other):
    return self


def _reg_probe_3(self, dim: int = 0):
    return self


_REG_FUNCS = (_reg_probe_1, _reg_probe_2, _reg_probe_3)


def _fresh_registry_run(calls, explicit=False):
    """Apply decorator calls [(names, private, complex)] to a fresh Registry installed as the default one;
    -> (per-call result, [(qualified_name, function number, is_complex)] from the real get_torchlib_ops(), warnings)
    explicit=True: the fresh (still empty) Registry is PASSED as torch_op(..., registry=fresh) while another empty Registry - the
    bystander - is the default one: every registration must land in the registry that was named, the bystander stays empty
    (TorchRegistry.tla has one `reg` per registry object; session 6, seeded C16-m10)."""
    from onnxscript._framework_apis import torch_2_5 as api
    from onnxscript.function_libs.torch_lib import registration

    saved = registration.default_registry
    fresh = registration.Registry()
    bystander = registration.Registry()
    registration.default_registry = bystander if explicit else fresh
    kw = {"registry": fresh} if explicit else {}
    results, made, nwarn, keep = [], {}, 0, []
    ops_error = None
    try:
        for k, (names, private, cplx) in enumerate(calls):
            name_arg = names[0] if len(names) == 1 else tuple(names)
            src = _REG_FUNCS[k % len(_REG_FUNCS)]
            f = type(src)(src.__code__, src.__globals__, src.__name__, src.__defaults__, src.__closure__)  # fresh function object
            f.__annotations__ = dict(src.__annotations__)
            f.__module__ = src.__module__
            with warnings.catch_warnings(record=True) as w:
                warnings.simplefilter("always")
                try:
                    keep.append(registration.torch_op(name_arg, trace_only=True, private=private, complex=cplx, **kw)(f))
                    made[id(keep[-1])] = k + 1
                    results.append("ok")
                except Exception as ex:  # ValueError / TypeError are the modelled refusals; anything else is compared as well
                    results.append(type(ex).__name__)
                nwarn += sum(1 for x in w if "already registered" in str(x.message))
        leaked = list(bystander)
        registration.default_registry = fresh          # get_torchlib_ops() reads the default registry
        with warnings.catch_warnings():
            warnings.simplefilter("ignore")
            try:
                ops = [(m.qualified_name, made.get(id(m.function), 0), bool(m.is_complex)) for m in api.get_torchlib_ops()]
            except Exception as ex:  # the code under test fails on this registry state: an outcome, reported by the caller
                ops, ops_error = [], f"{type(ex).__name__}: {str(ex)[:200]}"
        contents = list(fresh)
        if explicit and leaked and ops_error is None:
            ops_error = f"RegistryLeak: torch_op(..., registry=<user registry>) registered {leaked[:3]} in the DEFAULT registry instead"
    finally:
        registration.default_registry = saved
    return results, ops, nwarn, contents, ops_error


def _probe_chunk(names):
    out = []
    for n in names:
        results, _ops, _w, contents, _err = _fresh_registry_run([((n,), False, False)])
        out.append(results[0] == "ok" and n in contents)
    return out


def _hist_chunk(hists):
    out = []
    for k, h in enumerate(hists):
        r = _fresh_registry_run(h, explicit=(k % 2 == 1))      # every other history names its registry explicitly
        out.append((r[0], r[1], r[2], r[4]))
    return out


def part_registry(ctx: core.Ctx):
    cfgs = ["TorchRegistry_quick.cfg"] if ctx.quick else ["TorchRegistry_thorough.cfg", "TorchRegistry_deep.cfg"]
    vac = core.run_tlc("TorchRegistry", "TorchRegistry_vacuity.cfg", timeout=600, workers=1)
    ctx.tlc(vac, "TorchRegistry_vacuity.cfg (model mutant: duplicates appended)")
    if vac.ok or vac.violated != "OneFunctionPerPair":
        raise core.MachineryError(f"vacuity: OneFunctionPerPair cannot fail ({vac.violated})")
    nh = 0
    probes_done = False
    seen_bad = set()
    for cfg in cfgs:
        res = core.run_tlc("TorchRegistry", cfg, dump=True, timeout=1500, workers=WORKERS)
        ctx.tlc(res, cfg)
        if not res.ok:
            raise core.MachineryError(f"design-level registry model violates {res.violated}\n{res.out[-1500:]}")
        hist_states = [s for s in res.dump if s["mode"] == "hist" and not s["pending"]]
        maxlen = max(len(s["hist"]) for s in hist_states)
        full = [s for s in hist_states if len(s["hist"]) == maxlen]
        if not any(s["warned"] > 0 for s in full) or not any(c["result"] == "ValueError" for s in full for c in s["hist"]):
            raise core.MachineryError("vacuity: no history with a duplicate registration / a refused name")
        if not probes_done:
            probes_done = True
            probes = sorted((s for s in res.dump if s["mode"] == "probe"), key=lambda s: s["probe"])
            if not any(s["probeOK"] and not s["probeCode"] for s in probes) or not any(s["probeCode"] for s in probes):
                raise core.MachineryError("vacuity: name universe has no accepted name / no '.x.default' gap")
            names = [s["probe"] for s in probes]
            n = max(1, len(names) // (WORKERS * 2))
            got = [g for ch in core.pmap(_probe_chunk, [names[k : k + n] for k in range(0, len(names), n)], chunksize=1, workers=WORKERS) for g in ch]
            for s, accepted in zip(probes, got):
                ctx.add("evaluations")
                case = {"kind": "name", "name": s["probe"], "model_accepts": s["probeCode"], "name_ok": s["probeOK"], "impl_accepts": accepted}
                if accepted and not s["probeOK"]:
                    ctx.report(case, f"torch_op registers a function under the ill-formed (or '.default'-spelled) name {s['probe']!r}")
                elif accepted != s["probeCode"]:
                    ctx.add("registry_model_mismatches")
                    print(f"SPEC-MISMATCH C16 name {s['probe']!r}: model accepts={s['probeCode']} impl accepts={accepted}", flush=True)
            ctx.set("names_probed", len(names))
        # histories
        rng = random.Random(ctx.seed)
        if ctx.quick and len(full) > 3000:
            full = rng.sample(full, 3000)
        hists = [[(list(c["names"]), c["private"], c["complex"]) for c in s["hist"]] for s in full]
        n = max(1, len(hists) // (WORKERS * 2))
        outs = [o for ch in core.pmap(_hist_chunk, [hists[k : k + n] for k in range(0, len(hists), n)], chunksize=1, workers=WORKERS) for o in ch]
        shown = 0
        for s, h, (results, ops, nwarn, ops_error) in zip(full, hists, outs):
            ctx.add("evaluations")
            ctx.add("traces_validated_against_impl")
            nh += 1
            model_ops = _model_ops(s["reg"])
            model_res = [c["result"] for c in s["hist"]]
            case = {"kind": "history", "calls": h, "model": {"results": model_res, "ops": model_ops, "warnings": s["warned"]},
                    "impl": {"results": results, "ops": [list(o) for o in ops], "warnings": nwarn}}
            pairs = collections.Counter((q, c) for q, _f, c in ops)
            dup = [k for k, v in pairs.items() if v > 1]
            bad = [q for q, _f, _c in ops if not _name_ok_by_model(q, probes)]
            # a pair must resolve to a function that was registered FOR THAT PAIR (which of several is the model's business)
            stray = [(q, c) for q, f, c in ops
                     if not (1 <= f <= len(h) and results[f - 1] == "ok" and not h[f - 1][1] and h[f - 1][2] == c and q in h[f - 1][0])]
            if ops_error is not None:
                key = ("raises", ops_error.split(":")[0])
                if key not in seen_bad:
                    seen_bad.add(key)
                    ctx.report(dict(case, error=ops_error), (f"{ops_error} (registration history {h})" if ops_error.startswith("RegistryLeak")
                                                             else f"get_torchlib_ops() raises {ops_error} after the registration history {h}"))
                else:
                    ctx.add("registry_violations_not_listed")
            elif stray and not (dup or bad):
                key = ("stray",) + stray[0]
                if key not in seen_bad:
                    seen_bad.add(key)
                    ctx.report(case, f"get_torchlib_ops() resolves {stray[0]} to a function that was never registered for that (name, complex) pair "
                                     f"after the registration history {h}")
                else:
                    ctx.add("registry_violations_not_listed")
            elif dup or bad:   # one report per distinct offending pair / name (the shortest history is enumerated first)
                key = ("dup",) + tuple(dup[0]) if dup else ("bad", bad[0])
                if key not in seen_bad:
                    seen_bad.add(key)
                    if dup:
                        ctx.report(case, f"get_torchlib_ops() returns {dup[0]} more than once after the registration history {h}")
                    else:
                        ctx.report(case, f"get_torchlib_ops() returns the ill-formed (or '.default'-spelled) name {bad[0]!r} after the registration history {h}")
                else:
                    ctx.add("registry_violations_not_listed")
            elif [list(o) for o in ops] != model_ops or results != model_res or nwarn != s["warned"]:
                ctx.add("registry_model_mismatches")
                shown += 1
                if shown <= 5:
                    print(f"SPEC-MISMATCH C16 registry history {h}: model {case['model']} impl {case['impl']}", flush=True)
            if nh % 997 == 1:
                ctx.sample(case, limit=6)
    ctx.coverage.setdefault("registry_model_mismatches", 0)
    return nh


def _model_ops(reg):
    out = []
    for e in reg:
        if e["name"].startswith("internal::"):
            continue
        out += [[e["name"], f, False] for f in e["real"]] + [[e["name"], f, True] for f in e["cplx"]]
    return out


def _name_ok_by_model(q, probes):
    for s in probes:
        if s["probe"] == q:
            return s["probeOK"]
    return True


# ------------------------------------------------------------------ part 3: scripted functions pass the ONNX checker
def part_checker(ctx: core.Ctx, entries, live):
    import onnx
    import onnxscript

    seen = set()
    n = 0
    for e, m in zip(entries, live):
        f = m.function
        if not isinstance(f, onnxscript.OnnxFunction) or id(f) in seen:
            continue
        seen.add(id(f))
        ctx.add("evaluations")
        n += 1
        notes = []
        try:
            proto = f.to_function_proto()
            onnx.checker.check_function(proto)
            problems = []
            notes = _function_wf(proto)
        except Exception as ex:  # the checker refusing (or the proto not being constructible) is the failure
            problems = [f"{type(ex).__name__}: {str(ex)[:300]}"]
        if problems:
            ctx.report({"kind": "checker", "entry": _entry_brief(e), "problems": problems},
                       f"{e['qname']} -> {e['fname']}: FunctionProto rejected by onnx.checker.check_function: {problems[0]}")
        if notes:      # beyond what the property demands (the checker accepted the proto): printed, never a violation
            ctx.add("function_wf_notes")
            if ctx.coverage["function_wf_notes"] <= 5:
                print(f"NOTE C16 {e['qname']} -> {e['fname']}: checker passes but {notes[0]}", flush=True)
    ctx.set("scripted_functions_checked", n)
    return n


def _function_wf(proto):
    """structural facts the checker may not look at (notes only, never violations): every domain used is
    imported, every top-level input name is defined before use, every declared output is produced"""
    problems = []
    imported = {o.domain for o in proto.opset_import}
    defined = set(proto.input)
    for node in proto.node:
        if node.domain not in imported:
            problems.append(f"node {node.op_type} uses domain {node.domain!r} that is not imported")
        for x in node.input:
            if x and x not in defined:
                problems.append(f"node {node.op_type} reads {x!r} before it is defined")
        defined.update(node.output)
    for o in proto.output:
        if o not in defined:
            problems.append(f"output {o!r} is never produced")
    return problems


# ------------------------------------------------------------------ entry points
def run(ctx: core.Ctx):
    ctx.max_violation_lines = 80     # one line per (entry, failed clause); the registry is finite
    nontrivial, entries, live = part_binding(ctx)
    if not entries:          # get_torchlib_ops() itself raises (reported): nothing else can be observed
        ctx.set("exhaustive", False)
        return
    nh = part_registry(ctx)
    nc = part_checker(ctx, entries, live)
    ctx.set("distinct_nontrivial", nontrivial)
    ctx.set("exhaustive", True)
    ctx.set("rule", "every (qualified name, function) pair of get_torchlib_ops() x every call shape (number of positional schema arguments from "
                    "'all required' to 'all', keyword-only arguments " + ("none/all/each alone/droppable only/non-droppable only" if ctx.quick else "every subset")
                    + "); non-trivial = distinct (name, complex, shape) where a non-tensor argument or a keyword is given or an optional positional is omitted; "
                    f"plus {nh} registration histories replayed through torch_op/get_torchlib_ops and {nc} scripted FunctionProtos checked")
    ctx.assumptions += [
        "the FX node carries positional schema arguments by position (a prefix: optional trailing ones may be omitted) and keyword-only ones by name, with non-None values",
        "the exporter binds scripted functions with torch.onnx._internal.exporter._building._construct_named_inputs_and_attrs on the function's op_signature "
        "(torch's own signature inference agrees with onnxscript's on all entries) and calls trace-only functions as plain python functions",
        "input parameters accept any non-tensor argument (python constants become Constant nodes); Device/Layout/MemoryFormat/Generator arguments are accepted by any parameter",
        "operators of namespaces whose python package is not installed are not judged (counted in entries_binding_not_judged)",
        "a silently dropped 'non_blocking' is not judged (it cannot affect the result although the property's list does not name it)",
        "what a call had bound before it raised is not judged (not observable on the real objects)",
    ]


def replay(ctx, path):
    with open(path) as f:
        case = json.load(f)["case"]
    print(json.dumps(case, indent=1, default=str))
    if case.get("kind") == "binding":
        entries, live, _ = registry_dump()
        for e, m in zip(entries, live):
            if e["qname"] == case["entry"]["qname"] and e["complex"] == case["entry"]["complex"] and e["fname"] == case["entry"]["fname"]:
                real = real_binding(m.function, e, case["npos"], case["kws"])
                print("impl now :", json.dumps(real))
                print("model was:", json.dumps(case.get("model")))
                return 0 if real == case.get("impl") else 1
        print("entry no longer registered")
        return 1
    if case.get("kind") == "history":
        results, ops, nwarn, _, err = _fresh_registry_run([(c[0], c[1], c[2]) for c in case["calls"]])
        print("impl now :", json.dumps({"results": results, "ops": ops, "warnings": nwarn, "error": err}))
    if case.get("kind") == "name":
        print("impl now accepts:", _probe_chunk([case["name"]])[0])
    return 0
