"""C03 - optimize() never changes what a model computes.

spec/Optimizer.tla derives small models (constants, initializers, overridable initializer-inputs, shape chains, Cast/CastLike,
Reshape/Expand/Transpose/Unsqueeze, Min/Max/Clip/Relu, Dropout, If with captured values and owned initializers, symbolic and
zero-size inputs) and runs the optimizer pipeline on them as named steps (FoldVisit with the partial evaluators and
FoldByReference, FoldOutputs, RewriteVisit with the default rules, DCE, LiftConstants, LiftSubgraphInits, DedupInits, CSE,
OutputFix).  TLC checks at design level that EVERY step preserves the outputs on all probes (PropertyHolds) and emits, per model,
what the implementation model (with the named deviations) predicts: final op multiset, outputs per probe, deviations taken.

This harness (direction A) turns every emitted model into a real ModelProto and calls the real entry points
(optimize / optimize_ir / fold_constants / remove_unused_nodes / rewrite, ModelProto and ir.Model, option tuples); the PROPERTY is
judged on real observables only: onnxruntime(original) vs onnxruntime(optimized) on >= 3 probes.  The spec's Eval must equal
onnxruntime(original) (else machinery failure); the spec's predicted structure / outputs of the optimized model are compared with
the real ones (SPEC-MISMATCH only).  Breadth (quantifier b): the ONNX backend test models shipped with onnx, lifted (inputs as
constants, as overridable defaults, wrapped in If with constant / input condition, wrapped in a model-local function with an
attribute reference), before/after on onnxruntime with the recorded outputs as a third voice.
"""
from __future__ import annotations

import json

from . import core, optgen

LEVEL = "model_checking"


def _case_blob(case, v, extra=None):
    d = {"kind": "tlc", "model": case["model"], "feeds": case["feeds"], "expect": case["expect"], "variant": v["name"],
         "spec_used": case["used"], "spec_log": case["log"], "world": case["world"]}
    if extra:
        d.update(extra)
    return d


def judge_tlc(ctx, case, res, mism):
    if res is core.HANG:
        ctx.report({"kind": "tlc", "model": case["model"]}, "an optimizer entry point did not finish within 120 s (C03 cannot be judged; C04 reports totality)")
        return
    if isinstance(res, core.MachineryErrorResult):
        raise core.MachineryError(res.msg)
    if res["invalid"] and res["invalid"].startswith("onnxruntime cannot run"):
        # DESIGN 2.3: a case the reference runtime refuses on the ORIGINAL model is discarded and counted (run() bounds the count)
        ctx.add("original_not_runnable_on_onnxruntime")
        return False
    if res["invalid"]:
        raise core.MachineryError(f"a model derived by Optimizer.tla is not a valid/executable ONNX model: {res['invalid']}\n{json.dumps(case['model'])[:800]}")
    if res["spec_eval"]:
        raise core.MachineryError(f"spec/impl mismatch on the ORIGINAL model (Optimizer.tla Eval is wrong): {res['spec_eval']}\n{json.dumps(case['model'])[:800]}")
    nontrivial = False
    for v in res["variants"]:
        ctx.add("evaluations")
        if v["exc"]:
            # totality is C04's; here: the optimized model does not exist, so nothing to compare
            ctx.add("entry_point_raised_not_judged_here")
            if v["name"] == "optimize" and not case["raised"]:
                mism.append(f"model predicts no exception, real optimize() raised {v['exc'][:200]}")
            continue
        if v["name"] == "optimize":
            if case["raised"]:
                mism.append(f"model predicts an exception in {case['raised']}, real optimize() returned")
            elif v["ops"] != sorted(case["ops"]):
                mism.append(f"final op types: model {sorted(case['ops'])} real {v['ops']} (steps {case['log']})")
            mism.extend(v["pred"])
            if case["log"]:
                nontrivial = True
        for k, symptom, detail in v["fail"]:
            if k == optgen.NPROBE:
                continue            # the override probe belongs to C04
            v["probe"] = k
            fid = optgen.attribute(case, v, symptom, detail)
            ctx.report(_case_blob(case, v, {"probe": k, "symptom": symptom, "detail": detail}),
                       f"{v['name']}: probe {k}: {symptom}: {detail}\n--- original\n{optgen.describe(optgen.build_model(case['model'], optgen.outmeta(case)), 1200)}\n--- optimized\n{v.get('text', '')}",
                       finding=fid)
            break
    return nontrivial


def judge_lib(ctx, plan, res):
    rel, modes, vnames = plan
    if res is core.HANG:
        ctx.report({"kind": "library", "rel": rel, "modes": modes, "variants": vnames}, f"{rel}: an optimizer entry point did not finish within 300 s")
        return 0
    if isinstance(res, core.MachineryErrorResult):
        raise core.MachineryError(f"{rel}: {res.msg}")
    if res["skip"]:
        ctx.add("library_models_skipped")
        return 0
    n = 0
    for r in res["runs"]:
        if r["skip"]:
            ctx.add("library_lifts_not_runnable")
            continue
        if r.get("ort_vs_recorded") is False:
            ctx.add("library_ort_disagrees_with_recorded_outputs")
        for v in r["variants"]:
            ctx.add("evaluations")
            n += 1
            if v["exc"]:
                ctx.add("entry_point_raised_not_judged_here")
                continue
            if v.get("ort_disagrees"):
                ctx.add("library_optimized_equals_recorded_not_ort")
            for k, symptom, detail in v["fail"]:
                fid = optgen.lib_attribute(rel, r["mode"], v, symptom, detail, r.get("feats"))
                ctx.report({"kind": "library", "rel": rel, "mode": r["mode"], "variant": v["name"], "probe": k, "symptom": symptom, "detail": detail},
                           f"{rel} lifted as {r['mode']}, {v['name']}: feed {k}: {symptom}: {detail}", finding=fid)
                break
    return n


def run(ctx: core.Ctx):
    pairs = optgen.direction_a(ctx, want_abs=False)
    mism = []
    nontriv = 0
    for case, res in pairs:
        m1 = []
        if judge_tlc(ctx, case, res, m1):
            nontriv += 1
        ctx.add("traces_validated_against_impl")
        for t in m1:
            mism.append((case, t))
        if isinstance(res, dict) and len(ctx.coverage["samples"]) < 4 and case["log"]:
            ctx.sample({"model": optgen.describe(optgen.build_model(case["model"], optgen.outmeta(case)), 600), "spec_steps": case["log"],
                        "spec_final_ops": sorted(case["ops"]), "variants": [v["name"] for v in res["variants"]]})
    if ctx.coverage.get("original_not_runnable_on_onnxruntime", 0) > max(3, len(pairs) // 100):
        raise core.MachineryError(f"onnxruntime refuses {ctx.coverage['original_not_runnable_on_onnxruntime']} of {len(pairs)} derived models: the model derivation is off")
    for case, t in mism[:8]:
        print(f"SPEC-MISMATCH C03: {t}\n{optgen.describe(optgen.build_model(case['model'], optgen.outmeta(case)), 900)}", flush=True)
    ctx.set("model_impl_mismatches", len(mism))
    lib = optgen.direction_lib(ctx, want_abs=False)
    nlib = 0
    for plan, res in lib:
        nlib += judge_lib(ctx, plan, res)
    # families for default rules outside the TLA+ menu (BatchNormalization fusions with non-default epsilon, new-domain rules)
    fams = optgen.direction_family(ctx, want_abs=False)
    for fam, res in fams:
        name = fam[0]
        if res is core.HANG or isinstance(res, core.MachineryErrorResult):
            raise core.MachineryError(f"family {name}: {res}")
        if res["skip"]:
            raise core.MachineryError(f"family model {name} is not a valid/executable model: {res['skip']}")
        for v in res["variants"]:
            ctx.add("evaluations")
            ctx.add("family_runs")
            if v["changed"]:
                ctx.add("family_runs_where_a_rule_fired")
            if v["exc"]:
                ctx.add("entry_point_raised_not_judged_here")
                continue
            for k, symptom, detail in v["fail"]:
                ctx.report({"kind": "family", "name": name, "variant": v["name"], "probe": k, "symptom": symptom, "detail": detail},
                           f"family {name}, {v['name']}: feed {k}: {symptom}: {detail}")
                break
    if not ctx.coverage.get("family_runs_where_a_rule_fired"):
        raise core.MachineryError("vacuity: no rule fired on any family model")
    # direction B: the recorded executions of the constant folder (hooks in _constant_folding.py) for the derived, lifted
    # library and family models and for the repository's own optimizer tests, executed by TLC on FoldApply.tla
    from . import foldtrace

    case_traces = optgen.fold_traces_of(pairs, "derived") + optgen.fold_traces_of(lib, "library") + optgen.fold_traces_of(fams, "family")
    foldtrace.stage(ctx, foldtrace.dedup(case_traces, 2500 if ctx.quick else 30000, ctx.seed), "C03")
    ctx.set("library_models", len(lib))
    ctx.set("library_runs", nlib)
    ctx.set("distinct_nontrivial", nontriv)
    ctx.set("exhaustive", False)
    ctx.set("rule", "models = distinct 'done' states of Optimizer.tla (exhaustive over the slim menus up to 2 nodes, -simulate over the rich menus up to "
                    "4/5 nodes); non-trivial = replayed models on which the spec's optimizer run takes at least one step (fold / partial evaluator / "
                    "rule / output replacement / CSE); each replayed through the default optimize() plus further entry points / option tuples and "
                    "compared on onnxruntime on 3 probes; library_runs = (lifted backend-test model, entry point) pairs compared before/after")
    ctx.assumptions += [
        "onnxruntime (graph optimizations disabled) is the reference executor; values are integer-valued FLOAT/INT64/BOOL tensors of rank <= 3 in the TLC models",
        "quick tier replays a seeded stratified sample of the TLC models and of the library models; thorough replays all",
        "Loop bodies, sequence ops and chained library models are only covered through the library node tests that contain them (not lifted into Loop)",
        "library models: floats compared with rtol 1e-3 / atol 1e-5; an optimized model that returns the recorded ONNX outputs while onnxruntime(original) does not is not flagged",
    ]


def replay(ctx, path):
    with open(path) as f:
        blob = json.load(f)
    c = blob["case"]
    print(blob["what"][:3000])
    if c.get("kind") == "tlc":
        case = {"model": c["model"], "feeds": c["feeds"], "expect": c["expect"], "used": c.get("spec_used", []), "log": c.get("spec_log", []),
                "raised": "", "outs": c["expect"], "ops": [], "world": c.get("world")}
        r = optgen.replay_case((0, case, [c["variant"]], False))
        print(json.dumps(r, indent=1, default=str)[:4000])
    elif c.get("kind") == "family":
        fam = [f for f in optgen.family_models(ctx) if f[0] == c["name"]]
        print(json.dumps(optgen.replay_family(fam[0][:3] + ([c["variant"]], fam[0][4], False)), indent=1, default=str)[:4000] if fam else "family model not found for this seed")
    elif c.get("kind") == "library":
        r = optgen.replay_library((c["rel"], [c["mode"]] if "mode" in c else c["modes"], [c["variant"]] if "variant" in c else c["variants"], False))
        print(json.dumps(r, indent=1, default=str)[:4000])
    return 0
